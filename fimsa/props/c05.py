"""
C05 -- in-memory graph backends agree with each other and with the documented semantics.

R1 identity guards: every public mutator of a node/link property is dominated by the Class guard; node unset also by the
   NO_UNSET_PROPERTIES guard; that table contains the five identity properties
R2 insertion key subset of lookup key: the guard of add_node uses no more fields than _find_node uses to address a node
R3 override inventory of the disjoint backend; signature agreement of the two storage classes
R4 internal ids come from monotone counters in both stores (shared with C04)
R5 merge policy: the loop ranges over the caller's properties; keep / overwrite / combine pick the documented side
   (path-sensitive evaluation of the loop body, any branching style)
R6 no explicit rejection (raise) is reachable on the CFG after a property write in a mutator
R7 scoping of enumerations / writes in the shared store (the C04 rules): an unscoped write makes the two backends disagree
"""
import ast

from ..core import AnalysisError, norm, loc, walk_no_nested, attr_chain, call_name, func_params, kwarg
from ..cfg import CFG
from .. import flow
from ..normalize import branch_values, Unknown, ctext, canon, local_env, expand, inline, bool_atoms, bool_eval
from .. import nxgraph as nxg

MUTATORS = {
    'update_node_property': ('prop_name', 'name'), 'unset_node_property': ('prop_name', 'name'),
    'update_nodes_property': ('prop_name', 'name'), 'update_node_properties': ('props', 'dict'),
    'update_link_property': ('prop_name', 'name'), 'unset_link_property': ('prop_name', 'name'),
    'update_link_properties': ('props', 'dict'),
}
IDENTITY = {'GraphID', 'NodeID', 'Class', 'Type', 'Name'}
DISJ = 'fim.graph.networkx_property_graph_disjoint:NetworkXPropertyGraphDisjoint'


def write_nodes(cfg, fn, param, kind):
    """CFG nodes that write/pop a property under the caller-supplied name(s)."""
    out = []
    for n in cfg.nodes:
        if n.kind != 'stmt' or n.ast is None:
            continue
        st = n.ast
        hit = False
        for x in walk_no_nested(st):
            if isinstance(x, ast.Subscript) and isinstance(x.ctx, ast.Store) and ast.unparse(x.slice) == param:
                hit = True
            if isinstance(x, ast.Call) and isinstance(x.func, ast.Attribute) and x.func.attr in ('pop', 'update', 'setdefault', '__delitem__', '__setitem__') \
                    and x.args and ast.unparse(x.args[0]) == param:
                hit = True
            if isinstance(x, ast.Subscript) and isinstance(x.ctx, ast.Del) and ast.unparse(x.slice) == param:
                hit = True
            # networkx's bulk writers: set_node_attributes / set_edge_attributes(G, values, name=<param>)
            if isinstance(x, ast.Call) and call_name(x) in ('set_node_attributes', 'set_edge_attributes') and \
                    (any(k.arg == 'name' and ast.unparse(k.value) == param for k in x.keywords) or (len(x.args) >= 3 and ast.unparse(x.args[2]) == param)):
                hit = True
        if hit:
            out.append(n)
    return out


def contraction_removed_from_all_edges(mn):
    """merge_nodes pops networkx's 'contraction' attribute from every edge of the surviving node: a loop over ``<graph>.edges(..)``
    whose body pops it under no condition (a pop restricted to some of the edges leaves it on the others)"""
    from ..normalize import _enclosing
    for l_ in walk_no_nested(mn):
        if isinstance(l_, ast.For) and isinstance(l_.iter, ast.Call) and call_name(l_.iter) == 'edges':
            for c_ in ast.walk(l_):
                if isinstance(c_, ast.Call) and call_name(c_) == 'pop' and c_.args and isinstance(c_.args[0], ast.Constant) and \
                        c_.args[0].value == 'contraction':
                    _, conds_ = _enclosing(c_, mn)
                    # conditions that enclose the whole loop are fine; conditions inside the loop restrict the edges
                    inner = [x for x in conds_ if any(x is y or getattr(x, '_orig', None) is y for z in ast.walk(l_) if isinstance(z, ast.If) for y in ast.walk(z.test))]
                    nested_if = any(isinstance(p_, ast.If) for p_ in _ancestors_until(c_, l_))
                    if not nested_if:
                        return True
    return False


def _ancestors_until(node, stop):
    out = []
    p = getattr(node, '_parent', None)
    while p is not None and p is not stop:
        out.append(p)
        p = getattr(p, '_parent', None)
    return out


def run(prog, rep):
    rep.extra['explanation'] = (
        'Guard dominance of the identity-property tests over every property write (CFG of each public mutator), key-set '
        'comparison between the insertion guard and the lookup query, inventory of what the disjoint backend overrides, '
        'signature comparison of the two storage classes, allocator discipline, and the shape of the merge policy loop. '
        'Lock-step equivalence with a reference model is not decided.')
    rep.rule('R1', 'identity guards dominate property writes', floor=8)
    rep.rule('R2', 'insertion guard key is a subset of the lookup key', floor=1)
    rep.rule('R3', 'override inventory; storage and backend signature agreement with the abstract interface', floor=40)
    rep.rule('R4', 'monotone id allocators in both stores', floor=8)
    rep.rule('R5', 'merge policy loop', floor=4)
    rep.rule('R7', 'shared-store enumerations and writes are scoped to the addressed graph (otherwise the two backends disagree)', floor=30)
    rep.rule('R6', 'no rejection is reachable after a property write (a rejected call changes nothing)', floor=7)
    rep.rule('R9', 'add_node: the identity of the new node (graph, id, class) cannot be overridden by the caller-supplied properties', floor=2)
    for spec9 in (nxg.NXPG, 'fim.graph.neo4j_property_graph:Neo4jPropertyGraph'):
        c9 = prog.cls(spec9)
        f9 = c9.methods.get('add_node')
        if f9 is None:
            raise AnalysisError(f'{c9.name}.add_node vanished')
        f9 = inline(prog, c9, f9)
        env9 = local_env(f9)
        IDENT = {'GRAPH_ID', 'NODE_ID', 'PROP_CLASS', 'GraphID', 'NodeID', 'Class'}

        def ident_keys(e, _depth=0):
            extra = set()
            if _depth < 2:
                # class-level tables the expression refers to (self._IDENTITY_PROPERTIES)
                for x in ast.walk(e):
                    if isinstance(x, ast.Attribute) and isinstance(x.value, ast.Name) and x.attr not in IDENT:
                        _, tbl = c9.find_assign(x.attr)
                        if isinstance(tbl, (ast.Tuple, ast.List, ast.Set)):
                            extra |= ident_keys(tbl, _depth + 1)
            return extra | {x.attr for x in ast.walk(e) if isinstance(x, ast.Attribute) and x.attr in IDENT} | \
                   {x.value for x in ast.walk(e) if isinstance(x, ast.Constant) and isinstance(x.value, str) and x.value in IDENT} | \
                   {k.arg for x in ast.walk(e) if isinstance(x, ast.Call) for k in x.keywords if k.arg in IDENT}
        # statements through which the caller's properties enter what is stored (tests on `props` excluded)
        merges = [st for st in walk_no_nested(f9) if isinstance(st, (ast.Assign, ast.Expr, ast.AugAssign)) and
                  any(isinstance(x, ast.Name) and x.id == 'props' and isinstance(x.ctx, ast.Load) for x in ast.walk(st.value))]
        if not merges:
            raise AnalysisError(f'{c9.name}.add_node: merge of the caller properties not found')
        for mc in merges:
            arg = mc.value
            filtered = len(ident_keys(arg)) >= 3
            later = [st for st in walk_no_nested(f9) if isinstance(st, (ast.Assign, ast.Expr)) and st.lineno > mc.lineno and len(ident_keys(st)) >= 3 and
                     st is not mc]
            ok9 = filtered or bool(later)
            rep.instance('R9', f'{c9.name}.add_node: {norm(mc, 70)}: identity keys filtered out of the caller properties: {filtered}; identity stamped afterwards: {bool(later)}')
            if not ok9:
                rep.violation('R9', loc(c9.module, mc), f'{c9.name}.add_node', f'{norm(mc, 70)} overrides the identity just set',
                              'the caller-supplied properties are applied over the GraphID / NodeID / Class the method has just set: properties '
                              'read from another node (which carry those keys) give the new node the class, id or even graph of that node - the '
                              'class "can never be changed through the API" and node ids stay unique only if add_node decides them')
    rep.rule('R8', 'library exceptions are constructed with every required argument (otherwise the rejection surfaces as a TypeError on that backend only)', floor=150)
    from ..lints import exception_ctor_arity
    bad_ctor, n_ctor = exception_ctor_arity(prog)
    rep.instance('R8', f'{n_ctor} constructions of library exception classes checked against their __init__ signatures')
    for i_ in range(n_ctor - 1):
        rep.instance('R8', f'exception construction #{i_ + 2}')
    for m_, fq_, call_, cname_, missing_ in bad_ctor:
        rep.violation('R8', loc(m_, call_), fq_, f'{cname_}(...) without {missing_}',
                      f'{cname_} requires {missing_}; this construction omits it, so reaching the statement raises TypeError instead of '
                      f'{cname_}: the backend that contains it answers the same call with a different exception class than the other one')

    nxpg = prog.cls(nxg.NXPG)
    mod = nxpg.module
    consts = prog.cls('fim.graph.abc_property_graph_constants:ABCPropertyGraphConstants')
    no_unset = set(prog.class_const(consts, 'NO_UNSET_PROPERTIES'))
    rep.instance('R1', f'NO_UNSET_PROPERTIES = {sorted(no_unset)}')
    for p in sorted(IDENTITY - no_unset):
        rep.violation('R1', loc(consts.module, consts.assigns['NO_UNSET_PROPERTIES']), 'ABCPropertyGraphConstants.NO_UNSET_PROPERTIES',
                      f'{p} missing', f'identity property {p} can be removed from a node through unset_node_property')

    for name, (param, kind) in MUTATORS.items():
        fn = nxpg.methods.get(name)
        if fn is None:
            raise AnalysisError(f'NetworkXPropertyGraph.{name} vanished')
        fn = nxg.method(prog, nxpg, fn)
        fq = f'NetworkXPropertyGraph.{name}'
        cfg = CFG(fn)
        writes = write_nodes(cfg, fn, param, kind)
        if not writes:
            raise AnalysisError(f'{fq}: no property write through {param} found')
        tests = [t for t in cfg.nodes if t.kind == 'test' and t.tag == 'if']
        LBL = ('self.NETWORKX_LABEL', 'ABCPropertyGraph.PROP_CLASS', 'self.PROP_CLASS', 'NetworkXPropertyGraph.NETWORKX_LABEL')
        if kind == 'name':
            cls_guards = [t for t in tests if ctext(t.ast) in [f'{param} == {l}' for l in LBL] + [f'{l} == {param}' for l in LBL]]
        else:
            cls_guards = [t for t in tests if ctext(t.ast) in [f'{l} in {param}' for l in LBL]]
        for w in writes:
            rep.instance('R1', f'{fq}: {norm(w.ast, 80)} behind the Class guard')
            ok = any(cfg.edge_dominates(g, 'f', w) and any(isinstance(x, ast.Raise) for x in ast.walk(g.ast._parent)) for g in cls_guards)
            if not ok:
                rep.violation('R1', loc(mod, w.ast), fq, norm(w.ast, 100),
                              f'the property named by `{param}` is written without first rejecting the Class property: '
                              f'the class of a node/link can be changed or removed through the API')
            if name == 'unset_node_property':
                ug = [t for t in tests if ctext(t.ast) in (f'{param} in ABCPropertyGraph.NO_UNSET_PROPERTIES', f'{param} in self.NO_UNSET_PROPERTIES',
                                                           f'{param} in ABCPropertyGraphConstants.NO_UNSET_PROPERTIES')]
                rep.instance('R1', f'{fq}: {norm(w.ast, 80)} behind the NO_UNSET guard')
                if not any(cfg.edge_dominates(g, 'f', w) for g in ug):
                    rep.violation('R1', loc(mod, w.ast), fq, norm(w.ast, 100) + ' (NO_UNSET)',
                                  'identity properties (graph id, node id, class, type, name) can be unset')

    # ---- R6: a call that is rejected has changed nothing ----
    for name, (param, kind) in MUTATORS.items():
        fn = nxg.method(prog, nxpg, nxpg.methods[name])
        fq = f'NetworkXPropertyGraph.{name}'
        cfg = CFG(fn)
        writes = write_nodes(cfg, fn, param, kind)
        raises = [n for n in cfg.nodes if n.kind == 'stmt' and n.tag == 'raise']
        for w in writes:
            seen, stack = set(), [s_ for s_, ek in w.succ if ek != 'x']
            while stack:
                n = stack.pop()
                if n.id in seen:
                    continue
                seen.add(n.id)
                stack.extend(s_ for s_, ek in n.succ if ek != 'x')
            late = [r for r in raises if r.id in seen]
            rep.instance('R6', f'{fq}: rejections reachable after {norm(w.ast, 60)}: {[norm(r.ast, 50) for r in late]}')
            for r in late:
                rep.violation('R6', loc(mod, r.ast), fq, f'{norm(w.ast, 60)} then {norm(r.ast, 70)}',
                              f'{fq} writes the property and can still reject the call afterwards: the caller gets the exception the '
                              f'documented interface promises, but the element has already been modified')

    # ---- R2 ----
    an = nxg.method(prog, nxpg, nxpg.methods.get('add_node'))
    mixin = prog.cls(nxg.MIXIN)
    fnode = mixin.methods.get('_find_node')
    lk = set()
    for c in nxg.search_calls(fnode):
        for op, f, v in nxg.parse_query(prog, c.args[1], mixin.module, mixin):
            if op == 'eq':
                lk.add(f)
    guard_fields = None
    cfg = CFG(an)
    ins = [n for n in cfg.nodes if n.kind == 'stmt' and n.ast is not None and
           any(isinstance(c, ast.Call) and call_name(c) == 'add_blank_node_to_graph' for c in walk_no_nested(n.ast))]
    if not ins:
        raise AnalysisError('add_node no longer inserts through add_blank_node_to_graph')
    guards = [t for t in cfg.nodes if t.kind == 'test' and t.tag == 'if' and any(isinstance(x, ast.Raise) for x in ast.walk(t.ast._parent))
              and cfg.edge_dominates(t, 'f', ins[0])]
    for g in guards:
        # the guard either calls node_exists(...) or tests the length of a query result
        for c in ast.walk(g.ast):
            if isinstance(c, ast.Call) and call_name(c) == 'node_exists':
                ne = nxg.method(prog, nxpg, nxpg.methods.get('node_exists'))
                fields = set()
                for sc in nxg.search_calls(ne):
                    for op, f, v in nxg.parse_query(prog, sc.args[1], mod, nxpg):
                        if op == 'eq':
                            fields.add(f)
                guard_fields = fields
        if guard_fields is None:
            names = {x.id for x in ast.walk(g.ast) if isinstance(x, ast.Name)}
            for st in walk_no_nested(an):
                if isinstance(st, ast.Assign) and any(isinstance(t, ast.Name) and t.id in names for t in st.targets):
                    for sc in [x for x in ast.walk(st.value) if isinstance(x, ast.Call) and call_name(x) == 'search_nodes']:
                        fields = set()
                        for op, f, v in nxg.parse_query(prog, sc.args[1], mod, nxpg):
                            if op == 'eq':
                                fields.add(f)
                        guard_fields = fields
    rep.instance('R2', f'add_node guard fields {sorted(guard_fields) if guard_fields is not None else None}; _find_node key {sorted(lk)}')
    if guard_fields is None:
        rep.violation('R2', loc(mod, an), 'NetworkXPropertyGraph.add_node', 'no existence guard before the insertion',
                      'a node id that already exists in the graph can be inserted again')
    elif not guard_fields <= lk:
        rep.violation('R2', loc(mod, an), 'NetworkXPropertyGraph.add_node',
                      f'guard keyed on {sorted(guard_fields)} but nodes are addressed by {sorted(lk)}',
                      f'the existence test before insertion also requires {sorted(guard_fields - lk)} to match, while every '
                      f'lookup addresses a node by {sorted(lk)} only: the same node id can be added under another class, after '
                      f'which every lookup of it fails with "Multiple matches found"')

    # ---- R3 ----
    dj = prog.cls(DISJ)
    overrides = sorted(n for n in dj.methods if n in nxpg.all_method_names() and n != '__init__')
    rep.instance('R3', f'NetworkXPropertyGraphDisjoint overrides {overrides}')
    rep.extra['disjoint_overrides'] = overrides
    for n in overrides:
        if n not in ('merge_nodes', 'graph_exists'):
            fn = dj.methods[n]
            raises_only = all(isinstance(s, (ast.Raise, ast.Expr)) for s in fn.body)
            if raises_only:
                rep.violation('R3', loc(dj.module, fn), f'NetworkXPropertyGraphDisjoint.{n}', f'{n} overridden to raise',
                              f'the disjoint backend documents only merge_nodes as unsupported, but {n} is overridden to raise')
    s1 = nxg.storage_class(prog, nxg.SHARED_SHELL)
    s2 = nxg.storage_class(prog, nxg.DISJ_SHELL)
    pub1 = {n: f for n, f in s1.methods.items() if not n.startswith('_')}
    pub2 = {n: f for n, f in s2.methods.items() if not n.startswith('_')}
    for n in sorted(set(pub1) | set(pub2)):
        rep.instance('R3', f'storage method {n}: shared={n in pub1} disjoint={n in pub2}')
        if n not in pub1 or n not in pub2:
            rep.violation('R3', loc((s1 if n in pub1 else s2).module, (pub1.get(n) or pub2.get(n))), f'storage.{n}',
                          f'{n} defined by one storage class only',
                          'the graph classes call the same storage interface on both stores; a missing method is an AttributeError on one backend')
            continue
        p1, p2 = func_params(pub1[n]), func_params(pub2[n])
        if p1 != p2:
            rep.violation('R3', loc(s2.module, pub2[n]), f'storage.{n}', f'signatures differ: {p1} vs {p2}',
                          'a call valid on one store is a TypeError on the other')
    # every implementation accepts the calls the abstract interface documents (same parameter names, nothing extra required)
    abc = prog.cls('fim.graph.abc_property_graph:ABCPropertyGraph')

    def sig(fn):
        a = fn.args
        pos = [x.arg for x in a.posonlyargs + a.args if x.arg != 'self']
        kw = [x.arg for x in a.kwonlyargs]
        nd = len(a.defaults)
        posreq = pos[:len(pos) - nd] if nd else pos
        kwreq = [x.arg for x, d in zip(a.kwonlyargs, a.kw_defaults) if d is None]
        return pos, kw, set(posreq) | set(kwreq)
    for impl in (nxpg, prog.cls('fim.graph.neo4j_property_graph:Neo4jPropertyGraph')):
        for name, fn in abc.methods.items():
            if name == '__init__' or not any(ast.unparse(d) == 'abstractmethod' for d in fn.decorator_list):
                continue
            _, ifn = impl.find_method(name)
            rep.instance('R3', f'{impl.name}.{name} vs abstract signature')
            if ifn is None or ifn is fn:
                rep.violation('R3', loc(impl.module, impl.node), f'{impl.name}.{name}', f'{name} not implemented',
                              f'{impl.name} does not implement the abstract operation {name}')
                continue
            ap, ak, ar = sig(fn)
            ip, ik, ir = sig(ifn)
            if set(ap + ak) != set(ip + ik) or not ir <= set(ap + ak) or (ak and not set(ak) <= set(ik + ip)):
                rep.violation('R3', loc(impl.module, ifn), f'{impl.name}.{name}', f'signature {ip} * {ik} vs abstract {ap} * {ak}',
                              f'a call written against the documented interface ({ap}, keyword-only {ak}) is a TypeError on {impl.name}')
    # the shells forward through __getattr__
    for spec in (nxg.SHARED_SHELL, nxg.DISJ_SHELL):
        sh = prog.cls(spec)
        ga = sh.methods.get('__getattr__')
        rep.instance('R3', f'{sh.name}.__getattr__ forwards to storage_instance')
        if ga is None or 'getattr(self.storage_instance, name)' not in ast.unparse(ga):
            rep.violation('R3', loc(sh.module, sh.node), f'{sh.name}.__getattr__', 'forwarding', 'the storage shell no longer forwards to the singleton')

    # ---- R4 ----
    nxg.check_allocators(prog, rep, 'R4')

    # ---- R7 ----
    nxg.check_store_scoping(prog, rep, 'R7', 'R7', 'R7')

    # ---- R5 ----
    mn = nxpg.methods.get('merge_nodes')
    if mn is None:
        raise AnalysisError('merge_nodes vanished')
    mn = inline(prog, nxpg, mn, exclude=('_find_node', '_find_all_nodes'))      # the policy may be applied by a private helper
    fq = 'NetworkXPropertyGraph.merge_nodes'
    # locals holding the saved properties
    saved = {}
    for n in walk_no_nested(mn):
        if isinstance(n, ast.Assign) and isinstance(n.targets[0], ast.Name) and isinstance(n.value, ast.Call) and \
                call_name(n.value) == 'copy' and '.nodes[' in ast.unparse(n.value):
            side = 'other' if 'other' in ast.unparse(n.value) else 'self'
            saved[n.targets[0].id] = side
    selfp = [k for k, v in saved.items() if v == 'self']
    otherp = [k for k, v in saved.items() if v == 'other']
    if len(selfp) != 1 or len(otherp) != 1:
        raise AnalysisError(f'{fq}: saved property copies not recognised: {saved}')
    sp, op_ = selfp[0], otherp[0]
    # the dictionary finally written onto the surviving node
    aenv = {k: v for k, v in local_env(mn).items() if isinstance(v, (ast.Name, ast.Attribute, ast.Subscript, ast.Call))}
    upd = [c for c in walk_no_nested(mn) if isinstance(c, ast.Call) and call_name(c) == 'update' and c.args and isinstance(c.args[0], ast.Name)
           and '.nodes[' in ast.unparse(expand(c.func.value, aenv))]
    if not upd:
        raise AnalysisError(f'{fq}: final update of the node properties not found')
    # the dictionary built by the policy loop: the written local that is filled key by key inside a loop
    cands = [c.args[0].id for c in upd if any(isinstance(x, ast.Subscript) and isinstance(x.ctx, ast.Store) and isinstance(x.value, ast.Name) and
                                               x.value.id == c.args[0].id for l_ in walk_no_nested(mn) if isinstance(l_, ast.For) for x in ast.walk(l_))]
    npv = cands[-1] if cands else upd[-1].args[0].id
    pparam = [p_ for p_ in func_params(mn) if 'merge' in p_ or 'prop' in p_]
    if not pparam:
        raise AnalysisError(f'{fq}: policy parameter not found')
    pparam = pparam[-1]

    def loop_keys(l):
        """(key var, env for the value var) when the loop ranges over the keys / items of a saved dictionary"""
        it = l.iter
        src = None
        if isinstance(it, ast.Call) and call_name(it) in ('items', 'keys') and isinstance(it.func.value, ast.Name):
            src = (it.func.value.id, call_name(it))
        elif isinstance(it, ast.Name):
            src = (it.id, 'keys')
        elif isinstance(it, ast.Call) and isinstance(it.func, ast.Name) and it.func.id in ('list', 'sorted') and it.args and isinstance(it.args[0], ast.Name):
            src = (it.args[0].id, 'keys')
        if src is None or src[0] not in saved:
            return None
        if src[1] == 'items':
            if not (isinstance(l.target, ast.Tuple) and len(l.target.elts) == 2 and all(isinstance(e, ast.Name) for e in l.target.elts)):
                return None
            k, v = l.target.elts[0].id, l.target.elts[1].id
            return src[0], k, {v: ast.parse(f'{src[0]}[{k}]', mode='eval').body}
        if not isinstance(l.target, ast.Name):
            return None
        return src[0], l.target.id, {}
    loops = [(l, loop_keys(l)) for l in walk_no_nested(mn) if isinstance(l, ast.For)]
    loops = [(l, lk) for l, lk in loops if lk is not None and any(
        isinstance(x, ast.Subscript) and isinstance(x.ctx, ast.Store) and isinstance(x.value, ast.Name) and x.value.id == npv for x in ast.walk(l))]
    rep.instance('R5', f'{fq}: policy loop over {norm(loops[0][0].iter) if loops else "?"}')
    if not loops or loops[0][1][0] != sp:
        rep.violation('R5', loc(mod, loops[0][0] if loops else mn), fq, f'policy loop ranges over {norm(loops[0][0].iter) if loops else "nothing"}',
                      f'the per-property policy must be applied to the properties of the caller\'s node ({sp}); ranging over '
                      f'the other node\'s properties drops the caller-only properties and fails on other-only ones')
    if loops:
        l, (src, kvar, env0) = loops[0]

        def sink(st):
            if isinstance(st, ast.Assign) and len(st.targets) == 1 and isinstance(st.targets[0], ast.Subscript) and \
                    isinstance(st.targets[0].value, ast.Name) and st.targets[0].value.id == npv:
                return (st.targets[0].slice, st.value)
            return None
        try:
            outs = branch_values(l.body, sink, env0, opaque=tuple(saved))
        except Unknown as u:
            raise AnalysisError(f'{fq}: policy loop not analysable: {u}')
        import itertools
        good_outs = []
        for o in outs:
            if o.target is None or ctext(o.target) != kvar:
                rep.violation('R5', loc(mod, o.stmt), fq, norm(o.stmt, 80), 'the merged value is stored under another key than the property being merged')
                continue
            good_outs.append(o)
        # atoms of the path conditions: "the property is mentioned", "it is an identity property", "its policy is P"
        atom_nodes = {}
        for o in good_outs:
            for n_ in o.cond_nodes:
                atom_nodes.update(bool_atoms(n_))

        def kind_of(n_):
            if isinstance(n_, ast.Compare) and len(n_.ops) == 1 and isinstance(n_.ops[0], (ast.In, ast.NotIn)) and ctext(n_.left) == kvar:
                pos = isinstance(n_.ops[0], ast.In)
                r = n_.comparators[0]
                if ctext(r) in (pparam, f'{pparam}.keys()'):
                    return ('mention', pos)
                try:
                    vals = prog.const_eval(r, mod, nxpg)
                except Exception:
                    vals = None
                if vals is None and isinstance(r, ast.Name):
                    # a local naming the table (assigned once, from constants)
                    lits = [a.value for a in walk_no_nested(mn) if isinstance(a, ast.Assign) and any(isinstance(t, ast.Name) and t.id == r.id for t in a.targets)]
                    try:
                        vals = prog.const_eval(lits[0], mod, nxpg) if len(lits) == 1 else None
                    except Exception:
                        vals = None
                if isinstance(vals, (tuple, list, set, frozenset)) and {'GraphID', 'NodeID', 'Class'} <= set(vals):
                    return ('ident', pos)
            if isinstance(n_, ast.Compare) and len(n_.ops) == 1 and isinstance(n_.ops[0], (ast.Eq, ast.NotEq)):
                for a_, b_ in ((n_.left, n_.comparators[0]), (n_.comparators[0], n_.left)):
                    if ctext(a_) == f'{pparam}[{kvar}]' and isinstance(b_, ast.Constant) and isinstance(b_.value, str):
                        return ('policy:' + b_.value, isinstance(n_.ops[0], ast.Eq))
            return None
        kinds = {k_: kind_of(n_) for k_, n_ in atom_nodes.items()}
        has_ident = any(v_ and v_[0] == 'ident' for v_ in kinds.values())

        def values_under(mention, ident, policy):
            fixed, free = {}, []
            for k_, kd in kinds.items():
                if kd is None:
                    free.append(k_)
                    continue
                what, pos = kd
                truth = mention if what == 'mention' else (ident if what == 'ident' else (what == 'policy:' + str(policy)))
                fixed[k_] = truth if pos else not truth
            vals = set()
            for bits in itertools.product((False, True), repeat=len(free)):
                a = dict(fixed)
                a.update(zip(free, bits))
                for o in good_outs:
                    if all(bool_eval(n_, a) for n_ in o.cond_nodes):
                        vals.add(o.vtext)
            return vals
        want = {'discard': f'{sp}[{kvar}]', 'overwrite': f'{op_}[{kvar}]', 'combine': f'[{sp}[{kvar}], {op_}[{kvar}]]'}
        pol = {kw: values_under(True, False, kw) for kw in want}
        pol['<unmentioned>'] = values_under(False, False, None)
        if has_ident:
            pol['<identity property, whatever the policy>'] = set().union(*[values_under(True, True, kw) for kw in want])
        rep.instance('R5', f'{fq}: policy {dict((k, sorted(v)) for k, v in pol.items())}')
        for kw, w in want.items():
            if pol.get(kw) != {w}:
                rep.violation('R5', loc(mod, l), fq, f"policy '{kw}' yields {sorted(pol.get(kw, []))}",
                              f"'{kw}' must yield {w}")
        keep = pol.get('<unmentioned>') == {f'{sp}[{kvar}]'}
        rep.instance('R5', f'{fq}: unmentioned properties keep the caller\'s value: {keep}')
        if not keep:
            rep.violation('R5', loc(mod, l), fq, 'unmentioned properties', 'properties not mentioned in merge_properties must keep the caller\'s value')
        # the identity of the surviving node is never taken from the other node
        ident_ok = has_ident and pol['<identity property, whatever the policy>'] == {f'{sp}[{kvar}]'}
        rep.instance('R5', f'{fq}: graph id, node id and class always stay those of the caller\'s node: {ident_ok}')
        if not ident_ok:
            rep.violation('R5', loc(mod, l), fq, 'identity properties follow the merge policy',
                          "merge_properties={'Class': 'overwrite'} (or NodeID / GraphID) replaces the identity of the caller's node by that of the "
                          "other node: the class of a node can be changed through the API, and a node can end up with a node id that is already used")
        # the policy is evaluated before the nodes are contracted: a policy that cannot be applied must leave both nodes as they were
        cn0 = [n for n in walk_no_nested(mn) if isinstance(n, ast.Call) and call_name(n) == 'contracted_nodes']
        if cn0:
            mcfg = CFG(mn)
            mdom = mcfg.dominators()
            head = [nd for nd in mcfg.nodes if nd.kind == 'test' and nd.tag == 'for' and nd.ast is l]
            cnode = flow.node_of(mcfg, cn0[0])
            before = bool(head) and cnode is not None and (head[0].id in mdom.get(cnode.id, set()) or not mcfg.paths_avoiding(cnode, head[0], set()))
            # the loop may sit in an else branch (no policy given): it precedes the contraction when the contraction cannot reach it
            before = bool(head) and cnode is not None and not mcfg.paths_avoiding(cnode, head[0], set())
            rep.instance('R5', f'{fq}: policy evaluated before the nodes are contracted: {before}')
            if not before:
                rep.violation('R5', loc(mod, cn0[0]), fq, 'nodes contracted before the policy is evaluated',
                              "the nodes are contracted and the surviving node's properties cleared before the policy loop runs; a policy that "
                              "cannot be applied (e.g. 'overwrite' for a property the other node does not have -> KeyError) then leaves the caller's "
                              "node without any property - it disappears from its graph - and the other node consumed")
    cn = [n for n in walk_no_nested(mn) if isinstance(n, ast.Call) and call_name(n) == 'contracted_nodes']
    rep.instance('R5', f'{fq}: {norm(cn[0], 110) if cn else "?"}')
    menv = local_env(mn)

    def _found(e, other):
        e = expand(e, menv)
        if not (isinstance(e, ast.Call) and call_name(e) == '_find_node'):
            return False
        nid, gid = kwarg(e, 'node_id'), kwarg(e, 'graph_id')
        if nid is None or ast.unparse(nid) != 'node_id':
            return False
        if other:
            return gid is not None and ast.unparse(gid) == 'other_graph.graph_id'
        return gid is None or ast.unparse(gid) == 'self.graph_id'
    if not cn or len(cn[0].args) < 3 or not _found(cn[0].args[1], False) or not _found(cn[0].args[2], True) or \
            not any(k.arg == 'copy' and isinstance(k.value, ast.Constant) and k.value.value is False for k in cn[0].keywords):
        rep.violation('R5', loc(mod, mn), fq, 'contraction', 'the other node must be contracted into the caller\'s node in place (keeping the edges of both)')
    # networkx records what it folded away under a 'contraction' attribute - on the surviving node and on every edge that
    # already existed on both sides; that bookkeeping (a dict keyed by internal ids) must not stay in the model
    if cn:
        no_store = any(k.arg == 'store_contraction_as' and isinstance(k.value, ast.Constant) and k.value.value is None for k in cn[0].keywords)
        edge_clean = contraction_removed_from_all_edges(mn)
        node_clean = any(isinstance(c_, ast.Call) and call_name(c_) == 'clear' and '.nodes[' in ast.unparse(expand(c_.func.value, aenv)) for c_ in walk_no_nested(mn))
        rep.instance('R5', f'{fq}: contraction bookkeeping removed from the node: {node_clean or no_store}; from the merged edges: {edge_clean or no_store}')
        if not (no_store or (edge_clean and node_clean)):
            rep.violation('R5', loc(mod, cn[0]), fq, 'contraction attribute left on ' + ('the merged edges' if node_clean else 'the node and the merged edges'),
                          'nx.contracted_nodes stores what it folded away under a `contraction` attribute; it is cleared on the surviving node '
                          'but not on the edges both nodes had in common: the link then reports a property nobody set (a dict keyed by '
                          'internal ids) and serialize_graph() of the model fails (GraphML cannot hold a dict)')

    def sink2(st):
        # what is finally written onto the surviving node
        if isinstance(st, ast.Expr) and any(st.value is c for c in upd):
            return st.value.args[0]
        return None
    douts = [o for o in branch_values(mn.body, sink2, opaque=tuple(saved)) if f'{pparam} is None' in o.conds]
    rep.instance('R5', f'{fq}: default policy {[o.vtext for o in douts]}')
    if not douts or any(o.vtext != sp for o in douts):
        rep.violation('R5', loc(mod, mn), fq, 'default policy', 'without a policy the caller\'s properties are kept')


NX = 'fim/graph/networkx_property_graph.py'
MUTANTS = [
    {'name': 'add-node-props-override-identity', 'file': 'fim/graph/networkx_property_graph.py', 'rule': 'R9',
     'find': '            {k: v for k, v in dict(props).items() if k not in (ABCPropertyGraph.GRAPH_ID, ABCPropertyGraph.NODE_ID,\n                                                               ABCPropertyGraph.PROP_CLASS)}', 'replace': '            dict(props)'},
    {'name': 'query-exception-without-node-id', 'file': 'fim/graph/networkx_property_graph.py', 'rule': 'R8',
     'find': "raise PropertyGraphQueryException(graph_id=self.graph_id, node_id=node_id,\n                                              msg=\"Unable to find graph\")",
     'replace': "raise PropertyGraphQueryException(graph_id=self.graph_id,\n                                              msg=\"Unable to find graph\")"},
    {'name': 'merge-policy-may-overwrite-identity', 'file': 'fim/graph/networkx_property_graph.py', 'rule': 'R5',
     'find': "                if k in merge_properties and k not in (ABCPropertyGraph.GRAPH_ID, ABCPropertyGraph.NODE_ID,\n                                                       ABCPropertyGraph.PROP_CLASS):", 'replace': "                if k in merge_properties:"},
    {'name': 'contraction-left-on-links', 'file': 'fim/graph/networkx_property_graph.py', 'rule': 'R5',
     'find': "            link_props.pop('contraction', None)\n", 'replace': "            pass\n"},
    {'name': 'class-guard-dropped-in-update-node-properties', 'file': NX, 'rule': 'R1',
     'find': '        if self.NETWORKX_LABEL in props.keys():\n            raise PropertyGraphQueryException(graph_id=self.graph_id, node_id=node_id,\n                                              msg=f"Changing {self.NETWORKX_LABEL} property is not permitted")\n        # gives pointer directly into properties of a node in a graph',
     'replace': '        # gives pointer directly into properties of a node in a graph'},
    {'name': 'no-unset-guard-after-pop', 'file': NX, 'rule': 'R1',
     'find': '        if prop_name in ABCPropertyGraph.NO_UNSET_PROPERTIES:\n            raise PropertyGraphQueryException(graph_id=self.graph_id, node_id=node_id,\n                                              msg=f"Unsetting property {prop_name} is not allowed)")\n',
     'replace': ''},
    {'name': 'name-removed-from-no-unset', 'file': 'fim/graph/abc_property_graph_constants.py', 'rule': 'R1',
     'find': 'NO_UNSET_PROPERTIES = [GRAPH_ID, NODE_ID, PROP_TYPE, PROP_CLASS, PROP_NAME]', 'replace': 'NO_UNSET_PROPERTIES = [GRAPH_ID, NODE_ID, PROP_TYPE, PROP_CLASS]'},
    {'name': 'add-node-guard-keyed-on-class', 'file': NX, 'rule': 'R2',
     'find': "                                                   {'eq': [ABCPropertyGraph.NODE_ID, node_id]}\n                                               ]}))\n        if len(existing_nodes) > 0:",
     'replace': "                                                   {'eq': [ABCPropertyGraph.NODE_ID, node_id]},\n                                                   {'eq': [ABCPropertyGraph.PROP_CLASS, label]}\n                                               ]}))\n        if len(existing_nodes) > 0:"},
    {'name': 'storage-signature-drift', 'file': 'fim/graph/networkx_property_graph_disjoint.py', 'rule': 'R3',
     'find': '        def del_graph(self, graph_id: str) -> None:', 'replace': '        def del_graph(self, graph_id: str, force: bool) -> None:'},
    {'name': 'backend-parameter-renamed', 'file': NX, 'rule': 'R3',
     'find': '    def unset_link_property(self, *, node_a: str, node_b: str, kind: str, prop_name: str) -> None:', 'replace': '    def unset_link_property(self, *, node_a: str, node_b: str, rel: str, prop_name: str) -> None:\n        kind = rel'},
    {'name': 'overwrite-keeps-own', 'file': NX, 'rule': 'R5',
     'find': "other_props[k] if merge_properties[k] == 'overwrite' else", 'replace': "node_props[k] if merge_properties[k] == 'overwrite' else"},
]
TWINS = [
    {'name': 'guard-with-mirrored-equality', 'file': NX, 'count': 5,
     'find': 'if prop_name == self.NETWORKX_LABEL:', 'replace': 'if self.NETWORKX_LABEL == prop_name:'},
]
