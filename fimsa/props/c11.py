"""
C11 -- authorization and accounting attributes cover every resource, in any order.

R1 no attribute list is popped without a dominating append in the same activation; the in-slice port set is
   complete before the first service is visited (order independence)
R2 attribute ids stored resolve to ATTRIBUTE_TYPES_AND_CATEGORIES; categories are categories of the request skeleton;
   NSTYPE_LUT agrees with the service-type set that guards it
R3 METHOD_LUT entries name existing collectors (both collectors); the ASM path reaches the topology path
R4 coverage: fields read by the node / service / topology collectors
R5 accounting tallies are incremented unconditionally inside their type branch
"""
import ast

from ..core import AnalysisError, norm, loc, walk_no_nested, attr_chain, call_name, receiver_name, find_calls
from ..cfg import CFG
from ..core import func_params, kwarg
from ..normalize import inline, branch_values, Unknown, builders, local_env, expand, canon, ctext, conjuncts, merge_outcomes, truth_under

AUTHZ = 'fim.authz.attribute_collector:ResourceAuthZAttributes'
LOGC = 'fim.logging.log_collector:LogCollector'


def attr_key(prog, cls, expr):
    """fold self.RESOURCE_X / resource_name variables to the attribute id string, or None"""
    try:
        return prog.const_eval(expr, cls.module, cls)
    except Exception:
        return None


class Contribution:
    def __init__(self, op, key, key_expr, value, outcome):
        self.op = op                # 'append' | 'add' | 'assign' | 'aug'
        self.key = key              # folded attribute id (string) or None
        self.key_expr = key_expr
        self.value = value
        self.outcome = outcome

    @property
    def conds(self):
        return self.outcome.cond_nodes


def contributions(prog, cls, fn0):
    """Every update of self._attributes[...] made by a collector, with the conditions under which it happens and the value,
    temporaries expanded and private helpers (other than the collectors themselves) inlined."""
    collectors = tuple(n for n in cls.all_method_names() if n.startswith('_collect_attributes_from_'))
    fn = inline(prog, cls, fn0, exclude=collectors)

    def sink(st):
        if isinstance(st, ast.Expr) and isinstance(st.value, ast.Call) and isinstance(st.value.func, ast.Attribute) and \
                st.value.func.attr in ('append', 'add') and len(st.value.args) == 1:
            return (st.value.func.value, st.value.args[0])
        if isinstance(st, ast.AugAssign) and isinstance(st.target, ast.Subscript):
            return (st.target, st.value)
        if isinstance(st, ast.Assign) and len(st.targets) == 1 and isinstance(st.targets[0], ast.Subscript):
            return (st.targets[0], st.value)
        return None
    try:
        outs = branch_values(fn.body, sink, follow_loops=True)
    except Unknown as u:
        raise AnalysisError(f'{cls.name}.{fn0.name}: not analysable: {u}')
    res = []
    for o in merge_outcomes(outs):
        t = o.target
        key_expr = None
        while isinstance(t, ast.Subscript):
            if ast.unparse(t.value) == 'self._attributes':
                key_expr = t.slice
                break
            t = t.value
        if key_expr is None:
            continue
        st = o.stmt
        op = 'aug' if isinstance(st, ast.AugAssign) else ('assign' if isinstance(st, ast.Assign) else st.value.func.attr)
        res.append(Contribution(op, attr_key(prog, cls, key_expr), key_expr, o.value, o))
    return fn, res


def cond_fields(cond, sliver_param):
    """what a condition depends on: first attribute / method after the sliver parameter, 'self._attributes', or name:<other>"""
    out = set()
    for n in ast.walk(cond):
        if isinstance(n, ast.Attribute):
            ch = attr_chain(n)
            if ch and ch[0] == sliver_param and len(ch) >= 2:
                out.add(ch[1])
        elif isinstance(n, ast.Name) and n.id not in (sliver_param, 'self', 'str', 'len', 'isinstance', 'set', 'list') and n.id[:1].islower():
            out.add('name:' + n.id)
    return out


def run(prog, rep):
    rep.extra['explanation'] = (
        'The two collectors are analysed for: pop/append pairing and set-completion-before-use (the two ways the '
        'result can depend on storage order), agreement of the attribute id / category / dispatch tables, the fields '
        'each collector reads, and unconditional tally increments. Completeness against a concrete slice is not decided.')
    rep.rule('R1', 'pop dominated by append; in-slice port set completed before services are visited', floor=2)
    rep.rule('R2', 'attribute id / category / NSTYPE tables agree', floor=25)
    rep.rule('R3', 'dispatch tables name existing collectors', floor=15)
    rep.rule('R4', 'collectors read the documented fields', floor=10)
    rep.rule('R5', 'tallies incremented unconditionally in their type branch', floor=5)
    rep.rule('R7', 'the service view the collectors walk lists every service (names unique over all services)', floor=1)
    from .c07 import check_name_keyed_views
    check_name_keyed_views(prog, rep, 'R7', only=('CLASS_NetworkService',))

    az = prog.cls(AUTHZ)
    amod = az.module
    types = prog.class_const(az, 'ATTRIBUTE_TYPES_AND_CATEGORIES')
    nstype = prog.class_const(az, 'NSTYPE_LUT')

    # ---- R1 ----
    npop = 0
    for name, fn in az.methods.items():
        cfg = None
        for n in walk_no_nested(fn):
            if isinstance(n, ast.Call) and isinstance(n.func, ast.Attribute) and n.func.attr == 'pop' and \
                    isinstance(n.func.value, ast.Subscript) and ast.unparse(n.func.value.value) == 'self._attributes' \
                    and not n.args:
                npop += 1
                key = ast.unparse(n.func.value.slice)
                if cfg is None:
                    cfg = CFG(fn)
                dom = cfg.dominators()
                pop_nodes = [x for x in cfg.nodes if x.ast is not None and x.kind == 'stmt' and any(y is n for y in ast.walk(x.ast))]
                app_nodes = [x for x in cfg.nodes if x.ast is not None and x.kind == 'stmt' and
                             any(isinstance(y, ast.Call) and isinstance(y.func, ast.Attribute) and y.func.attr == 'append'
                                 and isinstance(y.func.value, ast.Subscript) and ast.unparse(y.func.value.slice) == key
                                 and ast.unparse(y.func.value.value) == 'self._attributes' for y in ast.walk(x.ast))]
                fq = f'{az.name}.{name}'
                rep.instance('R1', f'{fq}: {norm(n)} with {len(app_nodes)} append(s) on the same list')
                ok = any(a.id in dom.get(p.id, set()) for p in pop_nodes for a in app_nodes)
                if not ok:
                    rep.violation('R1', loc(amod, n), fq, norm(n),
                                  f'self._attributes[{key}] is popped on a path on which this call appended nothing: an entry '
                                  f'contributed by another service is removed, and the result depends on service order')
    rep.instance('R1', f'pops on attribute lists found: {npop}')
    # in-slice port set
    ct = az.methods.get('_collect_attributes_from_topo')
    if ct is None:
        raise AnalysisError('_collect_attributes_from_topo vanished')
    fq = f'{az.name}._collect_attributes_from_topo'
    # helpers split off the topology collector are read as part of it (the per-element collectors stay calls)
    ct = inline(prog, az, ct, exclude=tuple(n_ for n_ in az.all_method_names() if n_.startswith('_collect_attributes_from_')))
    consumer_loops = [n for n in ct.body if isinstance(n, ast.For) and
                      any(isinstance(c, ast.Call) and call_name(c) == '_collect_attributes_from_ns' for c in ast.walk(n))]
    if len(consumer_loops) != 1:
        raise AnalysisError(f'{fq}: the loop that visits the services was not found at top level')
    cons = consumer_loops[0]
    cons_call = [c for c in ast.walk(cons) if isinstance(c, ast.Call) and call_name(c) == '_collect_attributes_from_ns'][0]
    passed = [a for a in cons_call.args[1:]] + [k.value for k in cons_call.keywords]
    passed_names = [a.id for a in passed if isinstance(a, ast.Name)]
    # a local that merely names the collection built under another name (result of an inlined helper)
    for _ in range(3):
        for i_, nm_ in enumerate(passed_names):
            defs_ = [a_.value for a_ in walk_no_nested(ct) if isinstance(a_, ast.Assign) and any(isinstance(t_, ast.Name) and t_.id == nm_ for t_ in a_.targets)]
            if len(defs_) == 1 and isinstance(defs_[0], ast.Name):
                passed_names[i_] = defs_[0].id
    blds = builders(ct)
    body_index = {id(st): i for i, st in enumerate(ct.body)}

    def top_index(node):
        t = node
        while getattr(t, '_parent', None) is not ct:
            t = t._parent
        return body_index.get(id(t), 10 ** 6)
    fed = False
    for sname in passed_names:
        bl = blds.get(sname, [])
        rep.instance('R1', f'{fq}: {sname} filled by {len(bl)} builder(s), consumed by the services loop')
        if not bl:
            rep.violation('R1', loc(amod, ct), fq, f'{sname} is never filled',
                          'the set of in-slice ports passed to the service collector is always empty')
            continue
        fed = True
        for b_ in bl:
            if top_index(b_.node) >= body_index[id(cons)]:
                rep.violation('R1', loc(amod, b_.node), fq, norm(b_.node, 90),
                              f'{sname} is still being filled while (or after) the services are visited: a port-mirror '
                              f'service stored before the service that owns the mirrored port is treated as mirroring a port '
                              f'outside the slice, so the result depends on the order in which services are stored')
            its = ' '.join(ast.unparse(it) for _, it in b_.gens)
            rep.instance('R1', f'{fq}: {sname} filled from {its}')
            if 'interface_list' not in its and 'interfaces' not in its:
                rep.violation('R1', loc(amod, b_.node), fq, its,
                              'the in-slice port set must be computed from all interfaces of the topology')
    if not fed and not any(isinstance(a, (ast.SetComp, ast.Call)) for a in passed):
        rep.violation('R1', loc(amod, cons_call), fq, norm(cons_call),
                      'the service collector is no longer given the set of in-slice ports')

    # ---- R2 ----
    for name, fn0 in az.methods.items():
        fn = inline(prog, az, fn0, exclude=tuple(x for x in az.all_method_names() if x.startswith('_collect_attributes_from_')))
        fparams = set(func_params(fn))
        for n in walk_no_nested(fn):
            if isinstance(n, ast.Subscript) and ast.unparse(n.value) == 'self._attributes':
                k = n.slice
                if isinstance(k, ast.Name) and k.id in fparams:
                    continue        # a helper that takes the attribute id as a parameter: checked where it is inlined
                if isinstance(k, ast.Name):
                    # local variable: resolve its assignment(s) in this function
                    vals = []
                    for a in walk_no_nested(fn):
                        if isinstance(a, ast.Assign) and any(isinstance(t, ast.Name) and t.id == k.id for t in a.targets):
                            if isinstance(a.value, ast.Subscript) and ast.unparse(a.value.value) == 'self.NSTYPE_LUT':
                                vals += list(nstype.values())
                            else:
                                v = attr_key(prog, az, a.value)
                                if v is not None:
                                    vals.append(v)
                    if not vals:
                        if name == 'transform_to_pdp_request':
                            continue
                        raise AnalysisError(f'{amod.relpath}:{n.lineno}: attribute key {norm(k)} does not resolve')
                else:
                    v = attr_key(prog, az, k)
                    if v is None:
                        if name in ('transform_to_pdp_request',):
                            continue
                        raise AnalysisError(f'{amod.relpath}:{n.lineno}: attribute key {norm(k)} does not resolve')
                    vals = [v]
                for v in vals:
                    rep.instance('R2', f'{az.name}.{name}: key {v}')
                    if v not in types:
                        rep.violation('R2', loc(amod, n), f'{az.name}.{name}', f'attribute id {v} has no type/category',
                                      f'attribute {v} is collected but ATTRIBUTE_TYPES_AND_CATEGORIES has no entry for it: '
                                      f'transform_to_pdp_request raises KeyError')
    # categories of the skeleton
    tp = az.methods.get('transform_to_pdp_request')
    cats = {c.value for n in ast.walk(tp) if isinstance(n, ast.Dict) for k, c in zip(n.keys, n.values)
            if isinstance(k, ast.Constant) and k.value == 'CategoryId' and isinstance(c, ast.Constant)}
    # skeleton entries generated from a constant sequence of category ids
    for n in ast.walk(tp):
        if isinstance(n, (ast.ListComp, ast.GeneratorExp)) and isinstance(n.elt, ast.Dict):
            for k, c in zip(n.elt.keys, n.elt.values):
                if isinstance(k, ast.Constant) and k.value == 'CategoryId' and isinstance(c, ast.Name):
                    for g in n.generators:
                        if isinstance(g.target, ast.Name) and g.target.id == c.id and not g.ifs:
                            try:
                                seq = prog.const_eval(g.iter, amod, az)
                            except Exception:
                                seq = None
                            if isinstance(seq, (list, tuple)):
                                cats.update(x for x in seq if isinstance(x, str))
    for k, v in types.items():
        rep.instance('R2', f'category of {k}')
        if not (isinstance(v, tuple) and len(v) == 2):
            raise AnalysisError('ATTRIBUTE_TYPES_AND_CATEGORIES entry is not a (type, category) pair')
        if v[1] not in cats:
            rep.violation('R2', loc(amod, az.assigns['ATTRIBUTE_TYPES_AND_CATEGORIES']), f'{az.name}.ATTRIBUTE_TYPES_AND_CATEGORIES',
                          f'{k}: category {v[1]} not in the request skeleton',
                          f'attributes of category {v[1]} are silently dropped from the request')
    # NSTYPE_LUT vs the service types for which the per-type site attribute is produced: evaluated per service type (a
    # literal guard set, membership in the table itself, or an if-chain alike)
    ns = az.methods.get('_collect_attributes_from_ns_sliver')
    _, ns_contrib0 = contributions(prog, az, ns)
    ssl_ = [a.arg for a in ns.args.args if a.arg != 'self'][0]
    per_type = [c for c in ns_contrib0 if c.key is None and isinstance(c.key_expr, ast.Subscript) and ast.unparse(c.key_expr.value) == 'self.NSTYPE_LUT']
    if not per_type:
        raise AnalysisError('no contribution under self.NSTYPE_LUT[<service type>] found in _collect_attributes_from_ns_sliver')
    lut_keys = {k.name for k in nstype}
    fold2 = lambda e_: prog.const_eval(e_, amod, az)
    tkeys = {ctext(x) for c in per_type for n_ in c.conds for x in ast.walk(n_) if isinstance(x, ast.Attribute) and x.attr == 'resource_type'} | \
        {ctext(c.key_expr.slice) for c in per_type}
    reached = set()
    for S in prog.enum_members('fim.slivers.network_service:ServiceType'):
        sval = prog.const_eval(ast.parse(f'ServiceType.{S}', mode='eval').body, amod, az)
        bind = {t_: sval for t_ in tkeys}
        for c in per_type:
            feasible = True
            for n_ in c.conds:
                if not any(ctext(x) in bind for x in ast.walk(n_)):
                    continue
                try:
                    if not truth_under(n_, bind, fold2):
                        feasible = False
                        break
                except Unknown:
                    pass
            if feasible:
                reached.add(S)
    rep.instance('R2', f'NSTYPE_LUT keys {sorted(lut_keys)} vs service types whose site is listed by type {sorted(reached)}')
    if reached != lut_keys:
        rep.violation('R2', loc(amod, ns), f'{az.name}._collect_attributes_from_ns_sliver',
                      f'per-type site produced for {sorted(reached)} != NSTYPE_LUT keys {sorted(lut_keys)}',
                      'a service type that reaches the NSTYPE_LUT lookup without an entry raises KeyError; one in the LUT that '
                      'never reaches it never contributes its site')
    for k, v in nstype.items():
        rep.instance('R2', f'NSTYPE_LUT[{k}] = {v}')
        if v not in types:
            rep.violation('R2', loc(amod, az.assigns['NSTYPE_LUT']), f'{az.name}.NSTYPE_LUT', f'{k} -> {v} has no type/category',
                          f'the attribute id for {k} is not in ATTRIBUTE_TYPES_AND_CATEGORIES')
    # distinct service types list their sites under distinct attribute ids
    by_val = {}
    for k, v in nstype.items():
        by_val.setdefault(v, []).append(k)
    rep.instance('R2', f'NSTYPE_LUT is one-to-one: {all(len(ks) == 1 for ks in by_val.values())}')
    for v, ks in sorted(by_val.items(), key=lambda kv: str(kv[0])):
        if len(ks) > 1:
            rep.violation('R2', loc(amod, az.assigns['NSTYPE_LUT']), f'{az.name}.NSTYPE_LUT', f'{sorted(map(str, ks))} share the attribute {v}',
                          f'the service types {sorted(map(str, ks))} list their sites under the same attribute id {v!r}: the sites of one are reported '
                          f'as sites of the other, and the attribute of its own kind is never produced, so a policy on it is never evaluated')
    # the ext / mirror sites are appended for every such service (site defaulted when unknown)
    rep.instance('R2', 'ns collector appends the site under the per-type attribute id')
    _, ns_contrib = contributions(prog, az, ns)
    ssl0 = [a.arg for a in ns.args.args if a.arg != 'self'][0]
    app = [c for c in ns_contrib if c.key is None and isinstance(c.key_expr, ast.Subscript) and ast.unparse(c.key_expr.value) == 'self.NSTYPE_LUT'
           and ctext(c.value) == f'{ssl0}.site']
    if not app:
        rep.violation('R2', loc(amod, ns), f'{az.name}._collect_attributes_from_ns_sliver', 'site not appended under the per-type id',
                      'externally routed / mirror services no longer contribute their site')

    # ---- R3 ----
    lg = prog.cls(LOGC)
    for cls in (az, lg):
        lut = prog.class_const(cls, 'METHOD_LUT')
        for k, v in lut.items():
            rep.instance('R3', f'{cls.name}.METHOD_LUT[{k}] -> _collect_attributes_from_{v}')
            if f'_collect_attributes_from_{v}' not in cls.all_method_names():
                rep.violation('R3', loc(cls.module, cls.assigns['METHOD_LUT']), f'{cls.name}.METHOD_LUT',
                              f'{k} -> {v}: no method _collect_attributes_from_{v}',
                              f'collect_resource_attributes raises AttributeError for sources of class {k}')
        cra = cls.methods.get('collect_resource_attributes')
        if cra is None or "'_collect_attributes_from_' + method_suffix" not in ast.unparse(cra):
            raise AnalysisError(f'{cls.name}.collect_resource_attributes: dispatch idiom not recognised')
        asm = cls.methods.get('_collect_attributes_from_asm')
        calls = [call_name(c) for c in ast.walk(asm) if isinstance(c, ast.Call)]
        rep.instance('R3', f'{cls.name}._collect_attributes_from_asm calls {[c for c in calls if c]}')
        if '_collect_attributes_from_topo' not in calls or 'serialize_graph' not in calls:
            rep.violation('R3', loc(cls.module, asm), f'{cls.name}._collect_attributes_from_asm', 'does not route through the topology path',
                          'collecting from the serialized model must rebuild the topology and use the same collector')

    # ---- R4 ----
    def expect(rule, cls, fq, contribs, sliver, key, value_ok, allowed, what, need_conds=()):
        """the attribute `key` gets a contribution whose value satisfies value_ok, under conditions that depend only on the
        `allowed` fields of the sliver (any further condition means some resources are silently left out)"""
        cs = [c for c in contribs if c.key == key or (c.key is None and key is None)]
        good = [c for c in cs if value_ok(c.value)]
        rep.instance(rule, f'{fq}: {key} <- {sorted({ctext(c.value) for c in cs})} under {sorted({ctext(n) for c in cs for n in c.conds})}')
        if not good:
            rep.violation(rule, loc(cls.module, cls.methods[fq.split(".")[-1]]), fq, f'{key} not fed from {what}',
                          f'attribute {key} must list {what} of every element; found {sorted({ctext(c.value) for c in cs}) or "nothing"}')
            return
        for c in cs:
            if not value_ok(c.value):
                rep.violation(rule, loc(cls.module, c.outcome.stmt), fq, f'{key} also fed from {ctext(c.value)}',
                              f'attribute {key} must list {what}; it is (also) fed from {ctext(c.value)}')
        for c in good:
            extra = set()
            for n in c.conds:
                extra |= cond_fields(n, sliver) - set(allowed)
            if extra:
                rep.violation(rule, loc(cls.module, c.outcome.stmt), fq, f'{key} recorded only under a condition on {sorted(extra)}',
                              f'{what} is recorded under {key} only when a condition on {sorted(extra)} holds: elements for which it does '
                              f'not hold are missing from the request although they carry that resource')
            for need in need_conds:
                if not any(need(n) for n in c.conds):
                    rep.violation(rule, loc(cls.module, c.outcome.stmt), fq, f'{key} recorded outside its type branch',
                                  f'{key} is updated for elements of other types as well')

    def tail_is(sliver, *tail):
        def ok(v):
            ch = attr_chain(v)
            return bool(ch) and ch[0] == sliver and tuple(ch[1:]) == tail
        return ok
    RK = {k_: prog.class_const(az, k_) for k_ in ('RESOURCE_CPU', 'RESOURCE_RAM', 'RESOURCE_DISK', 'RESOURCE_SITE', 'RESOURCE_COMPONENT', 'RESOURCE_BW',
                                                   'RESOURCE_TYPE', 'RESOURCE_FACILITY_PORT')}
    nsl0 = az.methods.get('_collect_attributes_from_node_sliver')
    sl = [a.arg for a in nsl0.args.args if a.arg != 'self'][0]
    nsl, ncon = contributions(prog, az, nsl0)
    fqn = f'{az.name}._collect_attributes_from_node_sliver'
    for kname, fld in (('RESOURCE_CPU', 'core'), ('RESOURCE_RAM', 'ram'), ('RESOURCE_DISK', 'disk')):
        expect('R4', az, fqn, ncon, sl, RK[kname], tail_is(sl, 'capacities', fld), {'capacities'}, f'{sl}.capacities.{fld}')
    expect('R4', az, fqn, ncon, sl, RK['RESOURCE_SITE'], tail_is(sl, 'site'), {'site'}, f'{sl}.site')

    def comp_type(v):
        return any(isinstance(x, ast.Call) and call_name(x) in ('get_type',) or (isinstance(x, ast.Attribute) and x.attr in ('resource_type', 'type'))
                   for x in ast.walk(v)) and not any(isinstance(x, ast.Name) and x.id == sl for x in ast.walk(v))
    expect('R4', az, fqn, ncon, sl, RK['RESOURCE_COMPONENT'], comp_type, {'attached_components_info'}, 'the type of every attached component')
    comp_loops = [l for l in ast.walk(nsl) if isinstance(l, ast.For) and isinstance(l.iter, ast.Call) and call_name(l.iter) in ('list_devices', 'values')
                  and any(isinstance(c, ast.Call) and call_name(c) in ('append', '_append_unique') for c in ast.walk(l))]
    rep.instance('R4', f'node collector: component loop over {[norm(l.iter, 60) for l in comp_loops]}')
    if not comp_loops:
        rep.violation('R4', loc(amod, nsl0), fqn, 'component types not collected', 'the type of every attached component must be listed')
    ssl = [a.arg for a in ns.args.args if a.arg != 'self'][0]
    fqs = f'{az.name}._collect_attributes_from_ns_sliver'
    expect('R4', az, fqs, ns_contrib, ssl, RK['RESOURCE_BW'], tail_is(ssl, 'capacities', 'bw'), {'capacities'}, f'{ssl}.capacities.bw')
    expect('R4', az, fqs, ns_contrib, ssl, RK['RESOURCE_SITE'], tail_is(ssl, 'site'), {'site'}, f'{ssl}.site')
    for cls in (az, lg):
        ctp = cls.methods.get('_collect_attributes_from_topo')
        tp_ = [a.arg for a in ctp.args.args if a.arg != 'self'][0]
        its = [ast.unparse(n.iter) for n in walk_no_nested(ctp) if isinstance(n, ast.For)] + \
              [ast.unparse(g.iter) for n in ast.walk(ctp) if isinstance(n, (ast.ListComp, ast.SetComp, ast.GeneratorExp, ast.DictComp)) for g in n.generators]
        for view in ('nodes', 'network_services', 'facilities'):
            okv = any(i.startswith(f'{tp_}.{view}') for i in its)
            rep.instance('R4', f'{cls.name} topology collector iterates {view}: {okv}')
            if not okv:
                rep.violation('R4', loc(cls.module, ctp), f'{cls.name}._collect_attributes_from_topo', f'{view} not visited',
                              f'the topology collector no longer visits the {view} of the topology')

    # ---- R6: a per-element collector never overwrites a shared attribute with values that differ between elements ----
    rep.rule('R6', 'per-element collectors do not overwrite a shared attribute with element-dependent values (order independence)', floor=1)
    for fq_, contribs in ((fqn, ncon), (fqs, ns_contrib)):
        by_key = {}
        for c in contribs:
            if c.op == 'assign':
                by_key.setdefault(c.key or ast.unparse(c.key_expr), []).append(c)
        for k_, cs in by_key.items():
            vals = sorted({ctext(c.value) for c in cs})
            uncond = [c for c in cs if not c.conds]
            rep.instance('R6', f'{fq_}: {k_} overwritten with {vals} ({len(uncond)} unconditional)')
            if len(vals) > 1 or uncond:
                rep.violation('R6', loc(amod, cs[0].outcome.stmt), fq_, f'{k_} overwritten per element with {vals}',
                              f'the request-wide attribute {k_} is assigned (not appended) once per element with a value that depends on '
                              f'the element ({vals}): the element visited last decides the result, so the same slice gives different '
                              f'requests depending on the order in which its elements are stored')

    # ---- R5 tallies ----
    lns0 = lg.methods.get('_collect_attributes_from_node_sliver')
    lmod = lg.module
    fq = f'{lg.name}._collect_attributes_from_node_sliver'
    lsl = [a.arg for a in lns0.args.args if a.arg != 'self'][0]
    lns, lcon = contributions(prog, lg, lns0)

    def is_type(tname):
        def ok(n):
            n = canon(n)
            return isinstance(n, ast.Compare) and len(n.ops) == 1 and isinstance(n.ops[0], ast.Eq) and \
                any(isinstance(x, ast.Attribute) and x.attr == tname and isinstance(x.value, ast.Name) and x.value.id == 'NodeType' for x in (n.left, n.comparators[0]))
        return ok
    one = lambda v: isinstance(v, ast.Constant) and v.value == 1
    TYPE_FIELDS = {'resource_type', 'get_type', 'type'}
    for tname, counter, vok, what in (('VM', 'vm_count', one, 'one per VM'), ('Switch', 'p4_count', one, 'one per switch'),
                                      ('Facility', 'facilities', lambda v: True, 'the name of every facility')):
        cs = [c for c in lcon if c.key == counter]
        rep.instance('R5', f'{fq}: {counter} updated under {sorted({ctext(n) for c in cs for n in c.conds})}')
        if not any(any(is_type(tname)(n) for n in c.conds) for c in cs):
            rep.violation('R5', loc(lmod, lns0), fq, f'no branch for NodeType.{tname}', f'{tname} nodes are not tallied')
            continue
        for c in cs:
            extra = set()
            for n in c.conds:
                extra |= cond_fields(n, lsl) - TYPE_FIELDS
            if extra or not vok(c.value):
                rep.violation('R5', loc(lmod, c.outcome.stmt), fq, f'{counter} not updated unconditionally in the {tname} branch',
                              f'the tally {counter} must be updated for every {tname} node; it is only updated under a further condition '
                              f'on {sorted(extra)}, so nodes without the optional data are not counted')
    core = [c for c in lcon if c.key == 'core_count']
    okc = bool(core) and all(isinstance(c.value, ast.Attribute) and c.value.attr == 'core' for c in core)
    sites = [c for c in lcon if c.key == 'sites']
    oks = bool(sites) and all(ctext(c.value) == f'{lsl}.site' and not (set().union(*[cond_fields(n, lsl) for n in c.conds]) - {'site'}) for c in sites)
    comp_calls = [c for c in find_calls(lns, '_collect_attributes_from_component_sliver', nested=True)]
    okk = bool(comp_calls) and any(isinstance(p_, ast.For) and isinstance(p_.iter, ast.Call) and call_name(p_.iter) in ('list_devices', 'values')
                                   for p_ in _ancestors(comp_calls[0], lns))
    for what, okv in (('core tally adds the cores of the capacity', okc), ('site tally adds the node site', oks),
                      ('component tally visits every attached component', okk)):
        rep.instance('R5', f'{fq}: {what}: {okv}')
        if not okv:
            rep.violation('R5', loc(lmod, lns0), fq, what, f'the accounting summary no longer satisfies: {what}')
    # component tally: the count of the component's type goes up by exactly one
    lcs0 = lg.methods.get('_collect_attributes_from_component_sliver')
    _, ccon = contributions(prog, lg, lcs0)
    stores = [c for c in ccon if c.key == 'components']

    def plus_one(v):
        return (isinstance(v, ast.BinOp) and isinstance(v.op, ast.Add) and any(one(x) for x in (v.left, v.right))) or one(v)
    rep.instance('R5', f'component tally: stores {[ctext(c.value) for c in stores]}')
    if not stores or not all(plus_one(c.value) and not c.conds for c in stores):
        rep.violation('R5', loc(lmod, lcs0), f'{lg.name}._collect_attributes_from_component_sliver', 'component count not incremented by one',
                      'every component must add one to the tally of its type')
    lsv0 = lg.methods.get('_collect_attributes_from_ns_sliver')
    _, scon = contributions(prog, lg, lsv0)
    direct = [c for c in scon if c.key == 'services']
    # the bandwidth part of the entry may be selected by a conditional expression; the append itself must not be conditional on
    # anything but that selection
    lssl = [a.arg for a in lsv0.args.args if a.arg != 'self'][0]
    always = bool(direct) and _covers_all_paths(direct)
    rep.instance('R5', f'service tally appends one entry per service unconditionally: {always}')
    if not always:
        rep.violation('R5', loc(lmod, lsv0), f'{lg.name}._collect_attributes_from_ns_sliver', 'service not tallied unconditionally',
                      'every service must be appended to the services tally')


def _ancestors(node, fn):
    p = getattr(node, '_parent', None)
    while p is not None and p is not fn:
        yield p
        p = getattr(p, '_parent', None)


def _covers_all_paths(contribs):
    """the contributions, taken together, happen on every path: their condition sets are either empty or form complementary
    pairs (c / not c) coming from a value selected by a conditional"""
    sets = [frozenset(ctext(n) for n in c.conds) for c in contribs]
    if any(not s_ for s_ in sets):
        return True
    # two contributions whose conditions are {c} and {not c}
    for a_ in contribs:
        for b_ in contribs:
            if len(a_.conds) == 1 and len(b_.conds) == 1:
                from ..normalize import negate
                if ctext(negate(a_.conds[0])) == ctext(b_.conds[0]):
                    return True
    return False


AC = 'fim/authz/attribute_collector.py'
LC = 'fim/logging/log_collector.py'
MUTANTS = [
    {'name': 'unpaired-pop-reintroduced', 'file': AC, 'rule': 'R1',
     'find': "            if sliver.resource_type == ServiceType.PortMirror and \\\n                    sliver.mirror_port in in_slice_ports:\n                return\n            if sliver.site not in self._attributes[resource_name]:\n                self._attributes[resource_name].append(sliver.site)\n",
     'replace': "            if sliver.site not in self._attributes[resource_name]:\n                self._attributes[resource_name].append(sliver.site)\n            if sliver.resource_type == ServiceType.PortMirror and \\\n                    sliver.mirror_port in in_slice_ports:\n                self._attributes[resource_name].pop()\n"},
    {'name': 'nstype-lut-row-dropped', 'file': AC, 'rule': 'R2',
     'find': '        ServiceType.FABNetv6Ext: "urn:fabric:xacml:attribute:resource-fabnetv6-ext-site"\n', 'replace': ''},
    {'name': 'attribute-type-row-dropped', 'file': AC, 'rule': 'R2',
     'find': '        RESOURCE_FACILITY_PORT: ("http://www.w3.org/2001/XMLSchema#string",\n                                 "urn:oasis:names:tc:xacml:3.0:attribute-category:resource"),\n', 'replace': ''},
    {'name': 'method-lut-wrong-suffix', 'file': AC, 'rule': 'R3', 'find': '        NetworkService: "ns",', 'replace': '        NetworkService: "service",'},
    {'name': 'cpu-fed-from-ram', 'file': AC, 'rule': 'R4',
     'find': 'self._attributes[self.RESOURCE_CPU].append(sliver.capacities.core)', 'replace': 'self._attributes[self.RESOURCE_CPU].append(sliver.capacities.ram)'},
    {'name': 'facilities-not-visited', 'file': AC, 'rule': 'R4',
     'find': '        for fac in topo.facilities.values():\n            self._attributes[self.RESOURCE_FACILITY_PORT].append(fac.name)\n', 'replace': ''},
    {'name': 'p4-count-under-capacities', 'file': LC, 'rule': 'R5',
     'find': "        elif sliver.resource_type == NodeType.Switch:\n            self._attributes['p4_count'] += 1",
     'replace': "        elif sliver.resource_type == NodeType.Switch:\n            if sliver.capacities:\n                self._attributes['p4_count'] += 1"},
]
TWINS = [
    {'name': 'lut-rows-reordered', 'file': AC,
     'find': '        ServiceType.PortMirror: "urn:fabric:xacml:attribute:resource-mirrorsite",\n        ServiceType.FABNetv4Ext: "urn:fabric:xacml:attribute:resource-fabnetv4-ext-site",\n',
     'replace': '        ServiceType.FABNetv4Ext: "urn:fabric:xacml:attribute:resource-fabnetv4-ext-site",\n        ServiceType.PortMirror: "urn:fabric:xacml:attribute:resource-mirrorsite",\n'},
]
