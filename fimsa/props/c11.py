"""
C11 -- authorization and accounting attributes cover every resource, in any order.

R1 no attribute list is popped without a dominating append in the same activation; the in-slice port set is
   complete before the first service is visited (order independence)
R2 attribute ids stored resolve to ATTRIBUTE_TYPES_AND_CATEGORIES; categories are categories of the request skeleton;
   NSTYPE_LUT agrees with the service-type set that guards it
R3 METHOD_LUT entries name existing collectors (both collectors); the ASM path reaches the topology path
R4 coverage: fields read by the node / service / topology collectors
R5 accounting tallies are incremented unconditionally inside their type branch
"""
import ast

from ..core import AnalysisError, norm, loc, walk_no_nested, attr_chain, call_name, receiver_name, find_calls
from ..cfg import CFG

AUTHZ = 'fim.authz.attribute_collector:ResourceAuthZAttributes'
LOGC = 'fim.logging.log_collector:LogCollector'


def attr_key(prog, cls, expr):
    """fold self.RESOURCE_X / resource_name variables to the attribute id string, or None"""
    try:
        return prog.const_eval(expr, cls.module, cls)
    except Exception:
        return None


def run(prog, rep):
    rep.extra['explanation'] = (
        'The two collectors are analysed for: pop/append pairing and set-completion-before-use (the two ways the '
        'result can depend on storage order), agreement of the attribute id / category / dispatch tables, the fields '
        'each collector reads, and unconditional tally increments. Completeness against a concrete slice is not decided.')
    rep.rule('R1', 'pop dominated by append; in-slice port set completed before services are visited', floor=2)
    rep.rule('R2', 'attribute id / category / NSTYPE tables agree', floor=25)
    rep.rule('R3', 'dispatch tables name existing collectors', floor=15)
    rep.rule('R4', 'collectors read the documented fields', floor=10)
    rep.rule('R5', 'tallies incremented unconditionally in their type branch', floor=5)

    az = prog.cls(AUTHZ)
    amod = az.module
    types = prog.class_const(az, 'ATTRIBUTE_TYPES_AND_CATEGORIES')
    nstype = prog.class_const(az, 'NSTYPE_LUT')

    # ---- R1 ----
    npop = 0
    for name, fn in az.methods.items():
        cfg = None
        for n in walk_no_nested(fn):
            if isinstance(n, ast.Call) and isinstance(n.func, ast.Attribute) and n.func.attr == 'pop' and \
                    isinstance(n.func.value, ast.Subscript) and ast.unparse(n.func.value.value) == 'self._attributes' \
                    and not n.args:
                npop += 1
                key = ast.unparse(n.func.value.slice)
                if cfg is None:
                    cfg = CFG(fn)
                dom = cfg.dominators()
                pop_nodes = [x for x in cfg.nodes if x.ast is not None and x.kind == 'stmt' and any(y is n for y in ast.walk(x.ast))]
                app_nodes = [x for x in cfg.nodes if x.ast is not None and x.kind == 'stmt' and
                             any(isinstance(y, ast.Call) and isinstance(y.func, ast.Attribute) and y.func.attr == 'append'
                                 and isinstance(y.func.value, ast.Subscript) and ast.unparse(y.func.value.slice) == key
                                 and ast.unparse(y.func.value.value) == 'self._attributes' for y in ast.walk(x.ast))]
                fq = f'{az.name}.{name}'
                rep.instance('R1', f'{fq}: {norm(n)} with {len(app_nodes)} append(s) on the same list')
                ok = any(a.id in dom.get(p.id, set()) for p in pop_nodes for a in app_nodes)
                if not ok:
                    rep.violation('R1', loc(amod, n), fq, norm(n),
                                  f'self._attributes[{key}] is popped on a path on which this call appended nothing: an entry '
                                  f'contributed by another service is removed, and the result depends on service order')
    rep.instance('R1', f'pops on attribute lists found: {npop}')
    # in-slice port set
    ct = az.methods.get('_collect_attributes_from_topo')
    if ct is None:
        raise AnalysisError('_collect_attributes_from_topo vanished')
    fq = f'{az.name}._collect_attributes_from_topo'
    set_names = [ast.unparse(n.targets[0]) for n in walk_no_nested(ct) if isinstance(n, ast.Assign)
                 and isinstance(n.value, ast.Call) and ast.unparse(n.value.func) == 'set']
    consumer_loops = [n for n in ct.body if isinstance(n, ast.For) and
                      any(isinstance(c, ast.Call) and call_name(c) == '_collect_attributes_from_ns' for c in ast.walk(n))]
    if len(consumer_loops) != 1:
        raise AnalysisError(f'{fq}: the loop that visits the services was not found at top level')
    cons = consumer_loops[0]
    cons_call = [c for c in ast.walk(cons) if isinstance(c, ast.Call) and call_name(c) == '_collect_attributes_from_ns'][0]
    passed = [ast.unparse(a) for a in cons_call.args[1:]] + [ast.unparse(k.value) for k in cons_call.keywords]
    for sname in set_names:
        if sname not in passed:
            continue
        adds = [n for n in ast.walk(ct) if isinstance(n, ast.Call) and isinstance(n.func, ast.Attribute)
                and n.func.attr in ('add', 'update') and ast.unparse(n.func.value) == sname]
        rep.instance('R1', f'{fq}: {sname} filled by {len(adds)} statement(s), consumed by the services loop')
        if not adds:
            rep.violation('R1', loc(amod, ct), fq, f'{sname} is never filled',
                          'the set of in-slice ports passed to the service collector is always empty')
        for a in adds:
            # the add must be in a top-level loop that ends before the consumer loop starts
            top = a
            while top._parent is not ct:
                top = top._parent
            if top is cons or top.lineno > cons.lineno:
                rep.violation('R1', loc(amod, a), fq, norm(a),
                              f'{sname} is still being filled while (or after) the services are visited: a port-mirror '
                              f'service stored before the service that owns the mirrored port is treated as mirroring a port '
                              f'outside the slice, so the result depends on the order in which services are stored')
        # the fill loop ranges over all interfaces of the topology
        fill_loops = [n for n in ct.body if isinstance(n, ast.For) and any(a in list(ast.walk(n)) for a in adds)]
        for fl in fill_loops:
            rep.instance('R1', f'{fq}: {sname} filled from {norm(fl.iter)}')
            if 'interface_list' not in ast.unparse(fl.iter) and 'interfaces' not in ast.unparse(fl.iter):
                rep.violation('R1', loc(amod, fl), fq, norm(fl.iter),
                              'the in-slice port set must be computed from all interfaces of the topology')
    if not any(s in passed for s in set_names):
        rep.violation('R1', loc(amod, cons_call), fq, norm(cons_call),
                      'the service collector is no longer given the set of in-slice ports')

    # ---- R2 ----
    for name, fn in az.methods.items():
        for n in walk_no_nested(fn):
            if isinstance(n, ast.Subscript) and ast.unparse(n.value) == 'self._attributes':
                k = n.slice
                if isinstance(k, ast.Name):
                    # local variable: resolve its assignment(s) in this function
                    vals = []
                    for a in walk_no_nested(fn):
                        if isinstance(a, ast.Assign) and any(isinstance(t, ast.Name) and t.id == k.id for t in a.targets):
                            if isinstance(a.value, ast.Subscript) and ast.unparse(a.value.value) == 'self.NSTYPE_LUT':
                                vals += list(nstype.values())
                            else:
                                v = attr_key(prog, az, a.value)
                                if v is not None:
                                    vals.append(v)
                    if not vals:
                        if name == 'transform_to_pdp_request':
                            continue
                        raise AnalysisError(f'{amod.relpath}:{n.lineno}: attribute key {norm(k)} does not resolve')
                else:
                    v = attr_key(prog, az, k)
                    if v is None:
                        if name in ('transform_to_pdp_request',):
                            continue
                        raise AnalysisError(f'{amod.relpath}:{n.lineno}: attribute key {norm(k)} does not resolve')
                    vals = [v]
                for v in vals:
                    rep.instance('R2', f'{az.name}.{name}: key {v}')
                    if v not in types:
                        rep.violation('R2', loc(amod, n), f'{az.name}.{name}', f'attribute id {v} has no type/category',
                                      f'attribute {v} is collected but ATTRIBUTE_TYPES_AND_CATEGORIES has no entry for it: '
                                      f'transform_to_pdp_request raises KeyError')
    # categories of the skeleton
    tp = az.methods.get('transform_to_pdp_request')
    cats = {c.value for n in ast.walk(tp) if isinstance(n, ast.Dict) for k, c in zip(n.keys, n.values)
            if isinstance(k, ast.Constant) and k.value == 'CategoryId' and isinstance(c, ast.Constant)}
    for k, v in types.items():
        rep.instance('R2', f'category of {k}')
        if not (isinstance(v, tuple) and len(v) == 2):
            raise AnalysisError('ATTRIBUTE_TYPES_AND_CATEGORIES entry is not a (type, category) pair')
        if v[1] not in cats:
            rep.violation('R2', loc(amod, az.assigns['ATTRIBUTE_TYPES_AND_CATEGORIES']), f'{az.name}.ATTRIBUTE_TYPES_AND_CATEGORIES',
                          f'{k}: category {v[1]} not in the request skeleton',
                          f'attributes of category {v[1]} are silently dropped from the request')
    # NSTYPE_LUT vs guarding set
    ns = az.methods.get('_collect_attributes_from_ns_sliver')
    guard_sets = [n for n in ast.walk(ns) if isinstance(n, ast.Compare) and isinstance(n.ops[0], ast.In)
                  and isinstance(n.comparators[0], ast.Set) and 'resource_type' in ast.unparse(n.left)]
    if len(guard_sets) != 1:
        raise AnalysisError('service-type guard set not found in _collect_attributes_from_ns_sliver')
    gset = {attr_chain(e)[-1] for e in guard_sets[0].comparators[0].elts}
    lut_keys = {k.name for k in nstype}
    rep.instance('R2', f'NSTYPE_LUT keys {sorted(lut_keys)} vs guard set {sorted(gset)}')
    if gset != lut_keys:
        rep.violation('R2', loc(amod, guard_sets[0]), f'{az.name}._collect_attributes_from_ns_sliver',
                      f'guard set {sorted(gset)} != NSTYPE_LUT keys {sorted(lut_keys)}',
                      'a service type in the guard set without a NSTYPE_LUT entry raises KeyError; one in the LUT but not '
                      'in the set never contributes its site')
    for k, v in nstype.items():
        rep.instance('R2', f'NSTYPE_LUT[{k}] = {v}')
        if v not in types:
            rep.violation('R2', loc(amod, az.assigns['NSTYPE_LUT']), f'{az.name}.NSTYPE_LUT', f'{k} -> {v} has no type/category',
                          f'the attribute id for {k} is not in ATTRIBUTE_TYPES_AND_CATEGORIES')
    # the ext / mirror sites are appended for every such service (site defaulted when unknown)
    rep.instance('R2', 'ns collector appends the site under the per-type attribute id')
    app = [n for n in ast.walk(ns) if isinstance(n, ast.Call) and call_name(n) == 'append' and
           'resource_name' in ast.unparse(n.func.value) and ast.unparse(n.args[0]) == 'sliver.site']
    if not app:
        rep.violation('R2', loc(amod, ns), f'{az.name}._collect_attributes_from_ns_sliver', 'site not appended under the per-type id',
                      'externally routed / mirror services no longer contribute their site')

    # ---- R3 ----
    lg = prog.cls(LOGC)
    for cls in (az, lg):
        lut = prog.class_const(cls, 'METHOD_LUT')
        for k, v in lut.items():
            rep.instance('R3', f'{cls.name}.METHOD_LUT[{k}] -> _collect_attributes_from_{v}')
            if f'_collect_attributes_from_{v}' not in cls.all_method_names():
                rep.violation('R3', loc(cls.module, cls.assigns['METHOD_LUT']), f'{cls.name}.METHOD_LUT',
                              f'{k} -> {v}: no method _collect_attributes_from_{v}',
                              f'collect_resource_attributes raises AttributeError for sources of class {k}')
        cra = cls.methods.get('collect_resource_attributes')
        if cra is None or "'_collect_attributes_from_' + method_suffix" not in ast.unparse(cra):
            raise AnalysisError(f'{cls.name}.collect_resource_attributes: dispatch idiom not recognised')
        asm = cls.methods.get('_collect_attributes_from_asm')
        calls = [call_name(c) for c in ast.walk(asm) if isinstance(c, ast.Call)]
        rep.instance('R3', f'{cls.name}._collect_attributes_from_asm calls {[c for c in calls if c]}')
        if '_collect_attributes_from_topo' not in calls or 'serialize_graph' not in calls:
            rep.violation('R3', loc(cls.module, asm), f'{cls.name}._collect_attributes_from_asm', 'does not route through the topology path',
                          'collecting from the serialized model must rebuild the topology and use the same collector')

    # ---- R4 ----
    def appends(fn):
        """[(attribute key text without self., value expr, call)] for self._attributes[K].append(V)"""
        out = []
        for c in ast.walk(fn):
            if isinstance(c, ast.Call) and call_name(c) == 'append' and isinstance(c.func.value, ast.Subscript) and \
                    ast.unparse(c.func.value.value) == 'self._attributes' and c.args:
                out.append((ast.unparse(c.func.value.slice).replace('self.', ''), c.args[0], c))
        return out

    def chain_tail(e, n):
        ch = attr_chain(e)
        return tuple(ch[-n:]) if ch and len(ch) >= n else None

    nsl = az.methods.get('_collect_attributes_from_node_sliver')
    sl = [a.arg for a in nsl.args.args if a.arg != 'self'][0]
    napp = appends(nsl)
    want = {'RESOURCE_CPU': ('capacities', 'core'), 'RESOURCE_RAM': ('capacities', 'ram'), 'RESOURCE_DISK': ('capacities', 'disk'),
            'RESOURCE_SITE': ('site',)}
    for key, tail in want.items():
        vals = [v for k, v, c in napp if k == key]
        okv = bool(vals) and all(chain_tail(v, len(tail)) == tail and attr_chain(v)[0] == sl for v in vals)
        rep.instance('R4', f'node collector: {key} <- {[norm(v) for v in vals]}')
        if not okv:
            rep.violation('R4', loc(amod, nsl), f'{az.name}._collect_attributes_from_node_sliver', f'{key} not fed from {sl}.{".".join(tail)}',
                          f'attribute {key} must list {".".join(tail)} of every node; found {[norm(v) for v in vals] or "nothing"}')
    comp = [(v, c) for k, v, c in napp if k == 'RESOURCE_COMPONENT']
    okc = False
    for v, c in comp:
        loop = c
        while loop is not None and not isinstance(loop, ast.For):
            loop = getattr(loop, '_parent', None)
        if loop is not None and isinstance(loop.iter, ast.Call) and call_name(loop.iter) == 'list_devices' and \
                any(isinstance(x, ast.Call) and call_name(x) == 'get_type' and receiver_name(x) == ast.unparse(loop.target) for x in ast.walk(v)):
            okc = True
    rep.instance('R4', f'node collector: RESOURCE_COMPONENT <- type of every attached component: {okc}')
    if not okc:
        rep.violation('R4', loc(amod, nsl), f'{az.name}._collect_attributes_from_node_sliver', 'component types not collected',
                      'the type of every attached component must be listed')
    ssl = [a.arg for a in ns.args.args if a.arg != 'self'][0]
    sapp = appends(ns)
    for key, tail in (('RESOURCE_BW', ('capacities', 'bw')), ('RESOURCE_SITE', ('site',))):
        vals = [v for k, v, c in sapp if k == key]
        okv = bool(vals) and all(chain_tail(v, len(tail)) == tail and attr_chain(v)[0] == ssl for v in vals)
        rep.instance('R4', f'service collector: {key} <- {[norm(v) for v in vals]}')
        if not okv:
            rep.violation('R4', loc(amod, ns), f'{az.name}._collect_attributes_from_ns_sliver', f'{key} not fed from {ssl}.{".".join(tail)}',
                          f'attribute {key} must list {".".join(tail)} of every service')
    for cls in (az, lg):
        ctp = cls.methods.get('_collect_attributes_from_topo')
        tp_ = [a.arg for a in ctp.args.args if a.arg != 'self'][0]
        its = [ast.unparse(n.iter) for n in ctp.body if isinstance(n, ast.For)]
        for view in ('nodes', 'network_services', 'facilities'):
            okv = any(i.startswith(f'{tp_}.{view}') for i in its)
            rep.instance('R4', f'{cls.name} topology collector iterates {view}: {okv}')
            if not okv:
                rep.violation('R4', loc(cls.module, ctp), f'{cls.name}._collect_attributes_from_topo', f'{view} not visited',
                              f'the topology collector no longer visits the {view} of the topology')

    # ---- R5 tallies ----
    lns = lg.methods.get('_collect_attributes_from_node_sliver')
    lmod = lg.module
    fq = f'{lg.name}._collect_attributes_from_node_sliver'
    chain = []
    cur = lns.body[0] if lns.body and isinstance(lns.body[0], ast.If) else None
    first_if = [s for s in lns.body if isinstance(s, ast.If) and 'resource_type' in ast.unparse(s.test)]
    if not first_if:
        raise AnalysisError(f'{fq}: type dispatch not found')
    cur = first_if[0]
    while cur is not None:
        chain.append(cur)
        cur = cur.orelse[0] if len(cur.orelse) == 1 and isinstance(cur.orelse[0], ast.If) else None
    want = {'VM': 'vm_count', 'Switch': 'p4_count', 'Facility': 'facilities'}

    def updates(stmt, counter):
        """does the statement update self._attributes[<counter>] (+= / .add / .append)?"""
        if isinstance(stmt, ast.AugAssign) and isinstance(stmt.target, ast.Subscript) and \
                ast.unparse(stmt.target.value) == 'self._attributes' and isinstance(stmt.target.slice, ast.Constant) and stmt.target.slice.value == counter:
            return True
        if isinstance(stmt, ast.Expr) and isinstance(stmt.value, ast.Call) and isinstance(stmt.value.func, ast.Attribute) and \
                stmt.value.func.attr in ('add', 'append') and isinstance(stmt.value.func.value, ast.Subscript) and \
                ast.unparse(stmt.value.func.value.value) == 'self._attributes' and isinstance(stmt.value.func.value.slice, ast.Constant) \
                and stmt.value.func.value.slice.value == counter:
            return True
        return False
    seen = set()
    for br in chain:
        ttxt = ast.unparse(br.test)
        for tname, counter in want.items():
            if f'NodeType.{tname}' in ttxt:
                seen.add(tname)
                direct = [st for st in br.body if updates(st, counter)]
                anywhere = [st for st in ast.walk(br) if isinstance(st, ast.stmt) and updates(st, counter)]
                rep.instance('R5', f'{fq}: {tname} branch updates {counter}: direct={len(direct)} total={len(anywhere)}')
                if not direct:
                    rep.violation('R5', loc(lmod, br), fq, f'{counter} not updated unconditionally in the {tname} branch',
                                  f'the tally {counter} must be updated for every {tname} node; it is '
                                  f'{"only updated under a further condition" if anywhere else "never updated"}, so nodes '
                                  f'without the optional data are not counted')
    for tname in want:
        if tname not in seen:
            rep.violation('R5', loc(lmod, lns), fq, f'no branch for NodeType.{tname}', f'{tname} nodes are not tallied')
    lsl = [a.arg for a in lns.args.args if a.arg != 'self'][0]
    core_upd = [st for st in ast.walk(lns) if isinstance(st, ast.stmt) and updates(st, 'core_count')]
    site_upd = [st for st in ast.walk(lns) if isinstance(st, ast.stmt) and updates(st, 'sites')]
    comp_calls = [c for c in find_calls(lns, '_collect_attributes_from_component_sliver', nested=True)]
    for what, okv in (('core tally adds the cores of the capacity', bool(core_upd) and ast.unparse(core_upd[0].value).endswith('.core')),
                      ('site tally adds the node site', bool(site_upd) and ast.unparse(site_upd[0].value.args[0]) == f'{lsl}.site'),
                      ('component tally visits every attached component', bool(comp_calls) and isinstance(comp_calls[0]._parent._parent, ast.For)
                       and call_name(comp_calls[0]._parent._parent.iter) == 'list_devices')):
        rep.instance('R5', f'{fq}: {what}: {okv}')
        if not okv:
            rep.violation('R5', loc(lmod, lns), fq, what, f'the accounting summary no longer satisfies: {what}')
    # component tally: the count of the component's type goes up by exactly one
    lcs = lg.methods.get('_collect_attributes_from_component_sliver')
    plus_one = [n for n in ast.walk(lcs) if isinstance(n, ast.BinOp) and isinstance(n.op, ast.Add) and
                any(isinstance(x, ast.Constant) and x.value == 1 for x in (n.left, n.right))] + \
               [n for n in ast.walk(lcs) if isinstance(n, ast.AugAssign) and isinstance(n.op, ast.Add) and isinstance(n.value, ast.Constant) and n.value.value == 1]
    stores = [n for n in ast.walk(lcs) if isinstance(n, (ast.Assign, ast.AugAssign)) and "['components']" in ast.unparse(n.targets[0] if isinstance(n, ast.Assign) else n.target)]
    rep.instance('R5', f'component tally: +1 expressions {len(plus_one)}, stores into the components tally {len(stores)}')
    if not plus_one or not stores:
        rep.violation('R5', loc(lmod, lcs), f'{lg.name}._collect_attributes_from_component_sliver', 'component count not incremented by one',
                      'every component must add one to the tally of its type')
    lsv = lg.methods.get('_collect_attributes_from_ns_sliver')
    direct = [st for st in lsv.body if updates(st, 'services')]
    rep.instance('R5', f'service tally appends one entry per service unconditionally: {bool(direct)}')
    if not direct:
        rep.violation('R5', loc(lmod, lsv), f'{lg.name}._collect_attributes_from_ns_sliver', 'service not tallied unconditionally',
                      'every service must be appended to the services tally')

AC = 'fim/authz/attribute_collector.py'
LC = 'fim/logging/log_collector.py'
MUTANTS = [
    {'name': 'unpaired-pop-reintroduced', 'file': AC, 'rule': 'R1',
     'find': "            if sliver.resource_type == ServiceType.PortMirror and \\\n                    sliver.mirror_port in in_slice_ports:\n                return\n            if sliver.site not in self._attributes[resource_name]:\n                self._attributes[resource_name].append(sliver.site)\n",
     'replace': "            if sliver.site not in self._attributes[resource_name]:\n                self._attributes[resource_name].append(sliver.site)\n            if sliver.resource_type == ServiceType.PortMirror and \\\n                    sliver.mirror_port in in_slice_ports:\n                self._attributes[resource_name].pop()\n"},
    {'name': 'nstype-lut-row-dropped', 'file': AC, 'rule': 'R2',
     'find': '        ServiceType.FABNetv6Ext: "urn:fabric:xacml:attribute:resource-fabnetv6-ext-site"\n', 'replace': ''},
    {'name': 'attribute-type-row-dropped', 'file': AC, 'rule': 'R2',
     'find': '        RESOURCE_FACILITY_PORT: ("http://www.w3.org/2001/XMLSchema#string",\n                                 "urn:oasis:names:tc:xacml:3.0:attribute-category:resource"),\n', 'replace': ''},
    {'name': 'method-lut-wrong-suffix', 'file': AC, 'rule': 'R3', 'find': '        NetworkService: "ns",', 'replace': '        NetworkService: "service",'},
    {'name': 'cpu-fed-from-ram', 'file': AC, 'rule': 'R4',
     'find': 'self._attributes[self.RESOURCE_CPU].append(sliver.capacities.core)', 'replace': 'self._attributes[self.RESOURCE_CPU].append(sliver.capacities.ram)'},
    {'name': 'facilities-not-visited', 'file': AC, 'rule': 'R4',
     'find': '        for fac in topo.facilities.values():\n            self._attributes[self.RESOURCE_FACILITY_PORT].append(fac.name)\n', 'replace': ''},
    {'name': 'p4-count-under-capacities', 'file': LC, 'rule': 'R5',
     'find': "        elif sliver.resource_type == NodeType.Switch:\n            self._attributes['p4_count'] += 1",
     'replace': "        elif sliver.resource_type == NodeType.Switch:\n            if sliver.capacities:\n                self._attributes['p4_count'] += 1"},
]
TWINS = [
    {'name': 'lut-rows-reordered', 'file': AC,
     'find': '        ServiceType.PortMirror: "urn:fabric:xacml:attribute:resource-mirrorsite",\n        ServiceType.FABNetv4Ext: "urn:fabric:xacml:attribute:resource-fabnetv4-ext-site",\n',
     'replace': '        ServiceType.FABNetv4Ext: "urn:fabric:xacml:attribute:resource-fabnetv4-ext-site",\n        ServiceType.PortMirror: "urn:fabric:xacml:attribute:resource-mirrorsite",\n'},
]
