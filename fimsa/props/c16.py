"""
C16 -- label, tag, name and data validation holds on every construction path.

R1 every application of a validator regex has full-match semantics (fullmatch, or pattern ending in \\Z)
R2 validator patterns: no unescaped wildcard; documented example matches its own pattern
R3 entry points (constructor, update, from_json, name setter) reach the validator before the store; `forgiving`
   is consulted only in the unknown-field handler
R4 validator tables are keyed by declared fields; direct stores to validated fields outside _set_fields copy the
   same field of another value
R5 size / validity tests precede the store and measure what is stored (JSONData, boot script, tags)
R6 the range validators (LAMBDA_VALIDATORS) order numeric values only (int(...), constants), never text
"""
import ast
import re
try:
    import re._parser as sre_parse      # 3.11+
except ImportError:                     # pragma: no cover
    import sre_parse

from ..core import AnalysisError, Unfoldable, norm, loc, walk_no_nested, attr_chain, call_name, func_params, kwarg
from ..cfg import CFG
from ..normalize import split_callee_choice, inline, local_env, expand, canon, ctext, conjuncts, branch_values, merge_outcomes, Unknown
from .. import flow

LABELS = 'fim.slivers.capacities_labels:Labels'
CAPS = 'fim.slivers.capacities_labels:Capacities'
TAGS = 'fim.slivers.tags:Tags'
BASE = 'fim.slivers.base_sliver:BaseSliver'
JSONDATA = 'fim.slivers.json_data:JSONData'
JSONFIELD = 'fim.slivers.capacities_labels:JSONField'


def regex_calls(fn):
    """Calls that apply a regular expression: re.match/search/fullmatch(p, s) and <x>.match/search/fullmatch(s)."""
    out = []
    for n in walk_no_nested(fn):
        if isinstance(n, ast.Call) and isinstance(n.func, ast.Attribute) and n.func.attr in ('match', 'search', 'fullmatch'):
            out.append(n)
    return out


def has_any(pattern):
    """does the parsed pattern contain an unescaped '.' (ANY)?"""
    def walk(sub):
        for op, av in sub:
            if str(op) == 'ANY':
                return True
            if isinstance(av, (list, tuple)):
                for x in av:
                    if isinstance(x, sre_parse.SubPattern) and walk(x):
                        return True
                    if isinstance(x, (list, tuple)):
                        for y in x:
                            if isinstance(y, sre_parse.SubPattern) and walk(y):
                                return True
            if isinstance(av, sre_parse.SubPattern) and walk(av):
                return True
        return False
    return walk(sre_parse.parse(pattern))


def _class_constant(cls, e):
    """`self.X` / `cls.X` / `<Class>.X` where X is assigned a literal in the class body (or a base): the fixed text an
    unset blob reads as is not caller data, whether it is written in place or named"""
    if isinstance(e, ast.Attribute) and isinstance(e.value, ast.Name) and \
            (e.value.id in ('self', 'cls') or e.value.id == cls.simple or any(c.simple == e.value.id for c in cls.mro())):
        _, v = cls.find_assign(e.attr)
        return isinstance(v, ast.Constant)
    return False


def run(prog, rep):
    rep.extra['explanation'] = (
        'Every regex application in the sliver package is located and required to have full-match semantics; the '
        'validator tables are folded to constants and each pattern is parsed with the stdlib regex parser (no ANY '
        'opcode; example matches); the constructors, update, from_json and setters are checked to route through the '
        'validating setter before the store; size checks are checked to measure the value that is stored. Whether a '
        'particular string belongs to a format is not decided.')
    rep.rule('R1', 'validator regex applied with full-match semantics', floor=3)
    rep.rule('R2', 'validator pattern has no unescaped wildcard and matches its documented example', floor=20)
    rep.rule('R3', 'entry point reaches the validator before the store; forgiving only in the unknown-field handler',
             floor=12)
    rep.rule('R4', 'validator table keys are declared fields; outside stores to validated fields are same-field copies',
             floor=20)
    rep.rule('R5', 'size/validity test precedes the store and measures the stored value', floor=6)

    labels = prog.cls(LABELS)
    lmod = labels.module
    validators = prog.class_const(labels, 'VALIDATORS')
    lambdas_expr = labels.assigns.get('LAMBDA_VALIDATORS')
    if not isinstance(lambdas_expr, ast.Dict):
        raise AnalysisError('Labels.LAMBDA_VALIDATORS is not a dict literal')
    lambda_keys = [k.value for k in lambdas_expr.keys if isinstance(k, ast.Constant)]

    # declared fields of Labels
    init = labels.methods.get('__init__')
    fields = []
    for n in ast.walk(init):
        if isinstance(n, ast.Assign):
            for t in n.targets:
                ch = attr_chain(t)
                if ch and len(ch) == 2 and ch[0] == 'self':
                    fields.append(ch[1])

    # ---- R1: every regex application in fim/slivers and fim/user ----
    for m, cls, fn in prog.all_functions():
        if not (m.name.startswith('fim.slivers') or m.name.startswith('fim.user')):
            continue
        for call in regex_calls(fn):
            f = call.func
            recv = ast.unparse(f.value)
            if recv == 're':
                pat_expr = call.args[0] if call.args else None
            else:
                # compiled pattern: resolve its definition textually through the class/module assigns
                pat_expr = None
                ch = attr_chain(f.value)
                owner = cls
                if ch and len(ch) == 2 and owner is not None:
                    target = prog.resolve_class_expr(ast.Name(id=ch[0], ctx=ast.Load()), m) if ch[0] not in ('self', 'cls') else owner
                    if target is not None:
                        _, e = target.find_assign(ch[1])
                        if isinstance(e, ast.Call) and ast.unparse(e.func) == 're.compile' and e.args:
                            pat_expr = e.args[0]
                            if isinstance(pat_expr, ast.Name):
                                _, e2 = target.find_assign(pat_expr.id)
                                pat_expr = e2 if e2 is not None else pat_expr
                if pat_expr is None:
                    # not a regex object we can identify (e.g. str.match does not exist); treat attribute named
                    # match on non-regex receivers as out of scope only if the receiver is clearly not a pattern
                    if 'pattern' not in recv.lower() and 'regex' not in recv.lower() and recv != 're':
                        # try: local variable assigned from re.compile in this function
                        for n in ast.walk(fn):
                            if isinstance(n, ast.Assign) and isinstance(n.value, ast.Call) and \
                                    ast.unparse(n.value.func) == 're.compile' and \
                                    any(ast.unparse(t) == recv for t in n.targets):
                                pat_expr = n.value.args[0]
                        if pat_expr is None:
                            # dict of compiled patterns etc: fall back to "any .match on something" being a regex use
                            pat_expr = f.value
            fq = (cls.name + '.' if cls else '') + fn.name
            ptxt = ast.unparse(pat_expr) if pat_expr is not None else recv
            full = f.attr == 'fullmatch'
            # pattern ending with \Z also gives full-match semantics with match()
            folded = None
            try:
                folded = prog.const_eval(pat_expr, m, cls) if pat_expr is not None else None
            except (Unfoldable, AnalysisError):
                folded = None
            if not full and f.attr == 'match':
                if isinstance(folded, str) and folded.endswith('\\Z'):
                    full = True
                elif '\\\\Z' in ptxt or "\\Z'" in ptxt or '\\Z"' in ptxt:
                    full = True
            rep.instance('R1', f'{fq}: {norm(call, 90)}', detail={'method': f.attr, 'pattern': ptxt[:80]})
            if not full:
                rep.violation('R1', loc(m, call), fq, norm(call, 100),
                              f'the validator pattern {ptxt[:60]} is applied with {f.attr}(), which does not require the '
                              f'whole string to match ("$" also matches before a trailing newline): a value such as '
                              f'"<valid>\\n" is accepted and stored')

    # ---- R2: pattern hygiene ----
    def check_pattern(name, pat, example, where_node, owner, mod):
        rep.instance('R2', f'{owner}: {name} = {pat[:50]!r}')
        try:
            if has_any(pat):
                rep.violation('R2', loc(mod, where_node), owner, f'{name}: unescaped "." in pattern',
                              f'the {name} pattern {pat!r} contains an unescaped "." (matches any character): a fixed '
                              f'separator can be replaced by anything')
        except re.error as e:
            rep.violation('R2', loc(mod, where_node), owner, f'{name}: pattern does not compile',
                          f'the {name} pattern does not compile: {e}')
            return
        for lo_, hi_ in odd_ranges(pat):
            rep.violation('R2', loc(mod, where_node), owner, f'{name}: character range {chr(lo_)!r}-{chr(hi_)!r}',
                          f'the {name} pattern {pat!r} contains the character range {chr(lo_)!r}-{chr(hi_)!r} (an unescaped "-" between two '
                          f'punctuation characters): it also admits {"".join(chr(c_) for c_ in range(lo_ + 1, hi_))!r}, characters the format does not list')
        if example is not None and isinstance(example, str) and ' ' not in example and re.fullmatch(r'[\w:./\-]+', example):
            if re.fullmatch(pat, example) is None:
                rep.violation('R2', loc(mod, where_node), owner, f'{name}: documented example does not match',
                              f'the documented example {example!r} of {name} does not match its own pattern {pat!r}')

    def odd_ranges(pat):
        """character ranges of the pattern whose end points are not both digits / both lower case / both upper case letters"""
        import re._parser as sre_parse
        import re._constants as sre_c
        try:
            tree = sre_parse.parse(pat)
        except re.error:
            return []
        out = []

        def kind(c):
            ch = chr(c)
            return 'd' if ch.isdigit() else 'l' if ch.islower() else 'u' if ch.isupper() else None

        def walk(items):
            for op, av in items:
                if op is sre_c.IN:
                    for o2, a2 in av:
                        if o2 is sre_c.RANGE:
                            lo, hi = a2
                            if kind(lo) is None or kind(lo) != kind(hi):
                                out.append((lo, hi))
                elif op in (sre_c.MAX_REPEAT, sre_c.MIN_REPEAT):
                    walk(av[2])
                elif op is sre_c.SUBPATTERN:
                    walk(av[3])
                elif op is sre_c.BRANCH:
                    for b_ in av[1]:
                        walk(b_)
        walk(tree)
        return out

    def unicode_digits(pat):
        """does the pattern use the category \\d (str patterns without re.ASCII: every Unicode decimal digit)?"""
        import re._parser as sre_parse
        import re._constants as sre_c
        try:
            tree = sre_parse.parse(pat)
        except re.error:
            return False
        if tree.state.flags & re.ASCII:
            return False
        found = []

        def walk(items):
            for op, av in items:
                if op is sre_c.IN:
                    for o2, a2 in av:
                        if o2 is sre_c.CATEGORY and a2 is sre_c.CATEGORY_DIGIT:
                            found.append(1)
                elif op is sre_c.CATEGORY and av is sre_c.CATEGORY_DIGIT:
                    found.append(1)
                elif op in (sre_c.MAX_REPEAT, sre_c.MIN_REPEAT):
                    walk(av[2])
                elif op is sre_c.SUBPATTERN:
                    walk(av[3])
                elif op is sre_c.BRANCH:
                    for b_ in av[1]:
                        walk(b_)
        walk(tree)
        return bool(found)
    vexpr = labels.assigns.get('VALIDATORS')
    lam_src = labels.assigns.get('LAMBDA_VALIDATORS')
    lam_keys = {}
    if isinstance(lam_src, ast.Dict):
        for k_, v_ in zip(lam_src.keys, lam_src.values):
            if isinstance(k_, ast.Constant):
                lam_keys[k_.value] = v_
    for k, v in validators.items():
        if not (isinstance(v, tuple) and len(v) == 2 and isinstance(v[0], str)):
            raise AnalysisError(f'Labels.VALIDATORS[{k!r}] is not a (pattern, example) pair')
        check_pattern(k, v[0], v[1], vexpr, 'Labels.VALIDATORS', lmod)
        # numeric formats are ASCII digits: \\d also matches Arabic-Indic, Devanagari, full-width ... digits, which int() converts,
        # so such a value passes the range test and is stored
        if unicode_digits(v[0]):
            rep.violation('R2', loc(lmod, vexpr), 'Labels.VALIDATORS', f'{k}: \\d admits non-ASCII digits',
                          f'the {k} pattern {v[0]!r} uses \\d, which for text patterns matches every Unicode decimal digit; int() accepts them too, '
                          f'so a value written in e.g. Arabic-Indic digits passes format and range checks and is stored although the documented '
                          f'format is ASCII digits')
    # a value that is range-checked through int() has a pattern: int() alone also accepts surrounding blanks, a sign, underscores
    for k, lam in sorted(lam_keys.items()):
        uses_int = any(isinstance(x, ast.Call) and isinstance(x.func, ast.Name) and x.func.id == 'int' for x in ast.walk(lam))
        rep.instance('R2', f'Labels.LAMBDA_VALIDATORS[{k!r}]: converts with int(): {uses_int}; has a format pattern: {k in validators}')
        if uses_int and k not in validators:
            rep.violation('R2', loc(lmod, lam), 'Labels.LAMBDA_VALIDATORS', f'{k}: range-checked through int() without a format pattern',
                          f'{k} has a range validator that converts the text with int() but no pattern in VALIDATORS: int() also accepts '
                          f'" 3", "+3", "0_3", "3\\n" and non-ASCII digits, so values outside the documented format are stored')
    base = prog.cls(BASE)
    name_classes = []
    for c in prog.subclasses(base):
        if 'NAME_REGEX' in c.assigns:
            pat = prog.class_const(c, 'NAME_REGEX')
            name_classes.append(c)
            check_pattern('NAME_REGEX', pat, None, c.assigns['NAME_REGEX'], c.name, c.module)
    tags = prog.cls(TAGS)
    check_pattern('TAG_PATTERN', prog.class_const(tags, 'TAG_PATTERN'), None, tags.assigns['TAG_PATTERN'], 'Tags', tags.module)
    # every concrete sliver class resolves a NAME_REGEX
    for c in prog.subclasses(base, strict=True):
        owner, e = c.find_assign('NAME_REGEX')
        is_abstract = any(isinstance(b, ast.FunctionDef) and any(ast.unparse(d) == 'abstractmethod' for d in b.decorator_list)
                          for b in c.node.body)
        rep.instance('R2', f'{c.name}: NAME_REGEX resolves to {owner.name if owner else None}')
        if owner is None and not is_abstract and c.simple not in ('BaseSliverWithDelegation',):
            rep.violation('R2', loc(c.module, c.node), c.name, 'no NAME_REGEX',
                          f'sliver class {c.name} defines no NAME_REGEX: set_name raises AttributeError instead of validating')

    # ---- R4: table keys are declared fields ----
    for k in validators:
        rep.instance('R4', f'Labels.VALIDATORS key {k}')
        if k not in fields:
            rep.violation('R4', loc(lmod, vexpr), 'Labels.VALIDATORS', f'key {k} is not a declared field',
                          f'validator table key {k!r} is not a field declared in Labels.__init__: the field it was meant '
                          f'for is stored unvalidated')
    for k in lambda_keys:
        rep.instance('R4', f'Labels.LAMBDA_VALIDATORS key {k}')
        if k not in fields:
            rep.violation('R4', loc(lmod, lambdas_expr), 'Labels.LAMBDA_VALIDATORS', f'key {k} is not a declared field',
                          f'range validator key {k!r} is not a declared Labels field')
    validated = set(validators) | set(lambda_keys)
    # outside stores to validated fields
    for m, cls, fn in prog.all_functions():
        if cls is labels:
            continue
        for n in walk_no_nested(fn):
            if isinstance(n, ast.Assign):
                for t in n.targets:
                    if isinstance(t, ast.Attribute) and t.attr in validated and not \
                            (isinstance(t.value, ast.Name) and t.value.id == 'self' and cls is not None and
                             not _holds_labels(cls)):
                        base_txt = ast.unparse(t.value)
                        if not ('lab' in base_txt.lower()):
                            continue
                        fq = (cls.name + '.' if cls else '') + fn.name
                        rep.instance('R4', f'{fq}: {norm(n)}')
                        same = isinstance(n.value, ast.Attribute) and n.value.attr == t.attr
                        if not same:
                            rep.violation('R4', loc(m, n), fq, norm(n),
                                          f'label field {t.attr} is stored directly, bypassing Labels._set_fields '
                                          f'validation, from a value that is not the same field of another Labels')

    # ---- R3: entry points ----
    jf = prog.cls(JSONFIELD)
    for c in prog.subclasses(jf, strict=True):
        fq = c.name
        ini = c.methods.get('__init__')
        if ini is not None:
            calls = [n for n in walk_no_nested(ini) if isinstance(n, ast.Call) and call_name(n) == '_set_fields']
            ok = any(any(k.arg is None for k in n.keywords) for n in calls)
            rep.instance('R3', f'{fq}.__init__ -> _set_fields(**kwargs)')
            if not ok:
                rep.violation('R3', loc(c.module, ini), f'{fq}.__init__', 'constructor bypasses _set_fields',
                              f'{fq}.__init__ no longer passes its keyword arguments through _set_fields: values are '
                              f'stored unvalidated')
        sf = c.methods.get('_set_fields')
        if sf is not None:
            # forgiving referenced only under `except AttributeError`
            for n in ast.walk(sf):
                if isinstance(n, ast.Name) and n.id == 'forgiving' and isinstance(n.ctx, ast.Load):
                    p = n
                    in_handler = False
                    while p is not None and p is not sf:
                        p = getattr(p, '_parent', None)
                        if isinstance(p, ast.ExceptHandler) and p.type is not None and \
                                ast.unparse(p.type) == 'AttributeError':
                            in_handler = True
                    rep.instance('R3', f'{fq}._set_fields: forgiving used at {norm(getattr(n, "_parent", n), 60)}')
                    if not in_handler and not _decides_no_store(prog, c, sf, n):
                        rep.violation('R3', loc(c.module, n), f'{fq}._set_fields', 'forgiving used outside the unknown-field handler',
                                      f'{fq}._set_fields consults `forgiving` outside the unknown-field handler: decoding '
                                      f'from text (which is forgiving) would skip or weaken validation')
    # JSONField.update and from_json route through _set_fields
    for mname in ('update', 'from_json'):
        fn = jf.methods.get(mname)
        if fn is None:
            raise AnalysisError(f'JSONField.{mname} vanished')
        calls = [n for n in walk_no_nested(fn) if isinstance(n, ast.Call) and call_name(n) == '_set_fields']
        rep.instance('R3', f'JSONField.{mname} -> _set_fields')
        if not calls:
            rep.violation('R3', loc(jf.module, fn), f'JSONField.{mname}', 'bypasses _set_fields',
                          f'JSONField.{mname} no longer routes the new values through _set_fields')
    upd = jf.methods['update']
    # update copies existing fields with __setattr__ (already validated) and new ones through _set_fields only
    for n in walk_no_nested(upd):
        if isinstance(n, ast.Call) and call_name(n) == '__setattr__':
            args = [ast.unparse(a) for a in n.args]
            loop = getattr(getattr(n, '_parent', None), '_parent', None)
            src = ast.unparse(loop.iter) if isinstance(loop, ast.For) else ''
            rep.instance('R3', f'JSONField.update: __setattr__({", ".join(args)}) over {src}')
            if 'kwargs' in src or any('kwargs' in a for a in args):
                rep.violation('R3', loc(jf.module, n), 'JSONField.update', norm(n),
                              'update stores caller-supplied values with __setattr__, bypassing validation')

    # Labels._set_fields: on every path to the store the value has gone through the regex and the range validator of its field
    sf0 = labels.methods.get('_set_fields')
    sf = inline(prog, labels, sf0)
    cfg = CFG(sf)
    dom = cfg.dominators()
    stores = [n for n in cfg.nodes if n.kind == 'stmt' and n.ast is not None and
              any(isinstance(c, ast.Call) and call_name(c) in ('__setattr__', 'setattr') for c in walk_no_nested(n.ast))]
    if not stores:
        raise AnalysisError('Labels._set_fields: field store not found')
    # a value the validators have rejected is never stored: no store is reachable from a rejection (through a handler that
    # swallows it)
    rejections = [n for n in cfg.nodes if n.kind == 'stmt' and isinstance(n.ast, ast.Raise) and n.ast.exc is not None and
                  not any(isinstance(p_, ast.ExceptHandler) for p_ in _stmt_ancestors(n.ast, sf))]
    for st_ in stores:
        # ... within the same iteration of the per-field loop (the store of the NEXT field is not the question)
        heads = {h.id for h in cfg.nodes if h.kind == 'test' and h.tag == 'for' and any(p_ is h.ast for p_ in _stmt_ancestors(st_.ast, sf))}
        swallowed = [r_ for r_ in rejections if cfg.paths_avoiding(r_, st_, heads)]
        rep.instance('R3', f'Labels._set_fields: store {norm(st_.ast, 50)} reachable after a rejection: {bool(swallowed)}')
        if swallowed:
            rep.violation('R3', loc(lmod, st_.ast), 'Labels._set_fields', f'{norm(st_.ast, 50)} after a swallowed rejection',
                          f'the field is stored on a path that starts at the rejection `{norm(swallowed[0].ast, 70)}`: a handler catches the '
                          f'validation error and the invalid value is kept (for instance when decoding from text, which is forgiving)')
    store = stores[0]
    more_stores = stores[1:]

    def derived(markers):
        """locals whose value derives from an expression mentioning one of the marker attributes (tuple unpacking, loop targets followed)"""
        names = set()
        changed = True

        def mentions(e):
            return any((isinstance(x, ast.Attribute) and x.attr in markers) or (isinstance(x, ast.Name) and x.id in names) for x in ast.walk(e))
        while changed:
            changed = False
            for n in walk_no_nested(sf):
                tgts, val = [], None
                if isinstance(n, ast.Assign):
                    tgts, val = n.targets, n.value
                elif isinstance(n, ast.For):
                    tgts, val = [n.target], n.iter
                if val is not None and mentions(val):
                    for t in tgts:
                        for x in ast.walk(t):
                            if isinstance(x, ast.Name) and x.id not in names:
                                names.add(x.id)
                                changed = True
        return names, mentions
    for table, what, kind in (('VALIDATORS', 'regex', 'regex'), ('LAMBDA_VALIDATORS', 'range', 'range')):
        names, mentions = derived({table})
        def resolved(t):
            # the test with single-assignment locals expanded, plus - for a local assigned more than once (two inlined helpers
            # that use the same name) - the value of its nearest assignment that dominates the test
            e = expand(t.ast, local_env(sf))
            out = [e]
            for nm in {x.id for x in ast.walk(e) if isinstance(x, ast.Name)}:
                defs = [d for d in cfg.nodes if d.kind == 'stmt' and isinstance(d.ast, ast.Assign) and len(d.ast.targets) == 1 and
                        isinstance(d.ast.targets[0], ast.Name) and d.ast.targets[0].id == nm and d.id in dom.get(t.id, set())]
                if defs:
                    out.append(max(defs, key=lambda d: len(dom.get(d.id, ()))).ast.value)
            return out
        guards = [t for t in cfg.nodes if t.kind == 'test' and t.tag == 'if' and
                  any(isinstance(x, ast.Attribute) and x.attr == table for e_ in resolved(t) for x in ast.walk(e_))]
        if kind == 'regex':
            apps = [c for c in walk_no_nested(sf) if isinstance(c, ast.Call) and isinstance(c.func, ast.Attribute) and c.func.attr in ('match', 'fullmatch', 'search')
                    and (mentions(c) or mentions(c.func.value))]
        else:
            apps = [c for c in walk_no_nested(sf) if isinstance(c, ast.Call) and (mentions(c.func)) and c.args
                    and not (isinstance(c.func, ast.Attribute) and c.func.attr in ('get', 'keys', 'items', 'values', 'format'))]
        app_nodes = {flow.node_of(cfg, c).id for c in apps if flow.node_of(cfg, c) is not None}
        # loops whose body applies the validator count as applying it to every element
        for l in cfg.nodes:
            if l.kind == 'test' and l.tag == 'for' and any(any(x is c for x in ast.walk(l.ast)) for c in apps):
                app_nodes.add(l.id)
        raises_ok = all(any(isinstance(x, ast.Raise) for p_ in _stmt_ancestors(c, sf) if isinstance(p_, (ast.If, ast.For)) for x in ast.walk(p_)) for c in apps)
        rep.instance('R3', f'Labels._set_fields: {what} validation: guard {[norm(g.ast, 50) for g in guards]}, {len(apps)} application(s)')
        if not guards or not apps or not raises_ok:
            rep.violation('R3', loc(lmod, sf0), 'Labels._set_fields', f'{what} validation incomplete',
                          f'the scalar or the list form of a label value is no longer checked against its {what} validator')
            continue
        g = guards[0]
        if any(g.id not in dom.get(s_.id, set()) for s_ in [store] + more_stores):
            rep.violation('R3', loc(lmod, store.ast), 'Labels._set_fields', 'store precedes validation',
                          'the field is stored before it is validated: a rejected value stays in the object')
            continue
        # from the "field has a validator" edge, no path reaches the store without applying the validator
        tr = [s_ for s_, ek in g.succ if ek == 't']
        fa = [s_ for s_, ek in g.succ if ek == 'f']
        positive = not (isinstance(canon(g.ast), ast.Compare) and isinstance(canon(g.ast).ops[0], (ast.NotIn,))) and \
            not (isinstance(canon(g.ast), ast.Compare) and isinstance(canon(g.ast).ops[0], ast.Is))
        start = (tr if positive else fa)
        if start and cfg.paths_avoiding(start[0], store, app_nodes):
            rep.violation('R3', loc(lmod, g.ast), 'Labels._set_fields', f'{what} validation incomplete',
                          f'for a field that has a {what} validator there is a path to the store on which the validator is not applied '
                          f'(the scalar or the list form of the value goes unchecked)')
    # R6: range validators order numbers, not text
    # R7: model-element property setters that keep a local copy store it only after the validating write succeeded
    # R8: "is this a field?" is decided on the declared fields, not by attribute lookup
    rep.rule('R8', 'the field setters decide whether a name is a field on the declared fields, not by attribute lookup (which also finds methods and class tables)', floor=7)
    clmod = prog.module('fim.slivers.capacities_labels')
    for cls8 in clmod.classes.values():
        sf8 = cls8.methods.get('_set_fields')
        if sf8 is None or not any(isinstance(x, ast.For) for x in walk_no_nested(sf8)):
            continue
        sf8i = inline(prog, cls8, sf8)
        loops8 = [l for l in walk_no_nested(sf8i) if isinstance(l, ast.For) and isinstance(l.iter, ast.Call) and call_name(l.iter) == 'items']
        for l8 in loops8:
            kvar = l8.target.elts[0].id if isinstance(l8.target, ast.Tuple) and isinstance(l8.target.elts[0], ast.Name) else None
            if kvar is None:
                continue
            probes8 = [c for c in ast.walk(l8) if isinstance(c, ast.Call) and call_name(c) in ('__getattribute__', 'getattr', 'hasattr') and
                       any(isinstance(a, ast.Name) and a.id == kvar for a in c.args)]
            decl8 = [c for c in ast.walk(l8) if isinstance(c, ast.Compare) and isinstance(c.left, ast.Name) and c.left.id == kvar and
                     isinstance(c.ops[0], (ast.In, ast.NotIn)) and
                     any(isinstance(x, ast.Attribute) and x.attr in ('__dict__', '__slots__', '__annotations__') or
                         (isinstance(x, ast.Call) and call_name(x) in ('list_fields', 'vars', 'fields')) for x in ast.walk(c.comparators[0]))]
            rep.instance('R8', f'{cls8.name}._set_fields: field test by attribute lookup: {len(probes8)}; by declared fields: {len(decl8)}')
            if probes8 and not decl8:
                rep.violation('R8', loc(clmod, probes8[0]), f'{cls8.name}._set_fields', f'{norm(probes8[0], 50)} decides whether `{kvar}` is a field',
                              f'any attribute name passes this test - methods (to_json, update, list_fields) and class tables (VALIDATORS, UNITS) '
                              f'too: {cls8.name}({{such a name}}=x) is accepted instead of rejected, the value is written into the model, dropped again '
                              f'when decoded, and it shadows the method on the object')

    # R9: results of capacity arithmetic bypass the non-negativity validator on purpose (C15); the place where a capacity value
    # enters a sliver is therefore where the domain has to be enforced
    rep.rule('R9', 'a sliver accepts a capacities value only if none of its fields is negative (what it stores must decode again)', floor=2)
    bs9 = prog.cls('fim.slivers.base_sliver:BaseSliver')
    for mname9 in ('set_capacities', 'set_capacity_allocations'):
        f9 = bs9.methods.get(mname9)
        if f9 is None:
            raise AnalysisError(f'BaseSliver.{mname9} vanished')
        guards9 = [n for n in walk_no_nested(f9) if isinstance(n, ast.Assert) or (isinstance(n, ast.If) and any(isinstance(x, ast.Raise) for x in ast.walk(n)))]
        ok9 = any(any(isinstance(x, ast.Call) and call_name(x) == 'negative_fields' for x in ast.walk(g.test)) or
                  any(isinstance(x, ast.Compare) and isinstance(x.ops[0], (ast.GtE, ast.Lt)) and any(isinstance(y, ast.Constant) and y.value == 0 for y in ast.walk(x))
                      for x in ast.walk(g.test)) for g in guards9)
        rep.instance('R9', f'BaseSliver.{mname9}: rejects a value with negative fields: {ok9}')
        if not ok9:
            rep.violation('R9', loc(bs9.module, f9), f'BaseSliver.{mname9}', 'accepts capacities with negative fields',
                          f'{mname9} stores any Capacities object; the difference of two capacities can have negative fields (by design, it is '
                          f'printable and comparable), and once such a value is on an element it is written to the model as e.g. {{"core": -2}}, '
                          f'which Capacities.from_json refuses: every later read of the element, and reloading the serialized topology, fails')

    rep.rule('R7', 'a model-element setter caches the new value only after the validating write to the model', floor=1)
    me = prog.cls('fim.user.model_element:ModelElement')
    for pname, acc in sorted(me.properties.items()):
        st_fn = acc.get('setter')
        if st_fn is None:
            continue
        stores = [a for a in walk_no_nested(st_fn) if isinstance(a, ast.Assign) and any(isinstance(t, ast.Attribute) and isinstance(t.value, ast.Name) and
                                                                                       t.value.id == 'self' for t in a.targets)]
        writes = [c for c in walk_no_nested(st_fn) if isinstance(c, ast.Call) and call_name(c) in ('set_property', 'set_properties')]
        if not stores or not writes:
            continue
        scfg = CFG(st_fn)
        for a in stores:
            an = flow.node_of(scfg, a)
            for w in writes:
                wn = flow.node_of(scfg, w)
                early = an is not None and wn is not None and an is not wn and scfg.paths_avoiding(an, wn, set())
                rep.instance('R7', f'ModelElement.{pname} setter: {norm(a, 40)} before {norm(w, 40)}: {early}')
                if early:
                    rep.violation('R7', loc(me.module, a), f'ModelElement.{pname}.setter', f'{norm(a, 50)} precedes the validating write',
                                  f'the setter stores the new value on the handle and only then calls {call_name(w)} (which validates and may raise): '
                                  f'after a rejected assignment the handle reports the invalid value although the model still holds the old one')
    rep.rule('R6', 'range validators compare numeric values', floor=5)

    def numeric(e):
        if isinstance(e, ast.Constant):
            return isinstance(e.value, (int, float)) and not isinstance(e.value, bool)
        if isinstance(e, ast.Call) and isinstance(e.func, ast.Name) and e.func.id in ('int', 'float', 'len', 'abs', 'ord', 'min', 'max', 'sum'):
            return True
        if isinstance(e, ast.BinOp):
            return numeric(e.left) and numeric(e.right)
        if isinstance(e, ast.UnaryOp) and isinstance(e.op, (ast.USub, ast.UAdd)):
            return numeric(e.operand)
        return False
    for k_, v_ in zip(lambdas_expr.keys, lambdas_expr.values):
        lam = [x.body for x in ast.walk(v_) if isinstance(x, ast.Lambda)]
        if not lam:
            # a named predicate (module-level function or static method) instead of an inline lambda
            pred = v_.elts[0] if isinstance(v_, (ast.Tuple, ast.List)) and v_.elts else v_
            fdef = None
            if isinstance(pred, ast.Name):
                fdef = lmod.functions.get(pred.id) or labels.methods.get(pred.id)
            elif isinstance(pred, ast.Attribute):
                fdef = labels.methods.get(pred.attr)
            if fdef is not None:
                lam = [ast.Module(body=list(fdef.body), type_ignores=[])]
        if not lam or not isinstance(k_, ast.Constant):
            raise AnalysisError('Labels.LAMBDA_VALIDATORS: entry is not (predicate, description)')
        # numeric temporaries of a named predicate (lo = int(...)) count as numbers
        num_locals = set()
        for a_ in ast.walk(lam[0]):
            if isinstance(a_, ast.Assign) and numeric(a_.value):
                num_locals |= {t.id for t in a_.targets if isinstance(t, ast.Name)}
            if isinstance(a_, ast.Assign) and isinstance(a_.targets[0], ast.Tuple) and isinstance(a_.value, (ast.Tuple, ast.GeneratorExp, ast.ListComp, ast.Call)):
                vals_ = a_.value.elts if isinstance(a_.value, ast.Tuple) else None
                if vals_ and all(numeric(x) for x in vals_):
                    num_locals |= {t.id for t in a_.targets[0].elts if isinstance(t, ast.Name)}
                elif isinstance(a_.value, (ast.GeneratorExp, ast.ListComp)) and numeric(a_.value.elt):
                    num_locals |= {t.id for t in a_.targets[0].elts if isinstance(t, ast.Name)}
                elif isinstance(a_.value, ast.Call) and isinstance(a_.value.func, ast.Name) and a_.value.func.id == 'map' and a_.value.args and \
                        isinstance(a_.value.args[0], ast.Name) and a_.value.args[0].id in ('int', 'float'):
                    num_locals |= {t.id for t in a_.targets[0].elts if isinstance(t, ast.Name)}
        consts_num = {n_ for n_, e_ in lmod.assigns.items() if isinstance(e_, ast.Constant) and isinstance(e_.value, (int, float)) and not isinstance(e_.value, bool)}
        consts_num |= {n_ for n_, e_ in lmod.assigns.items() if isinstance(e_, ast.BinOp) and numeric(e_)}
        cmps = [c for c in ast.walk(lam[0]) if isinstance(c, ast.Compare) and any(isinstance(o, (ast.Lt, ast.LtE, ast.Gt, ast.GtE)) for o in c.ops)]
        rep.instance('R6', f'LAMBDA_VALIDATORS[{k_.value!r}]: {len(cmps)} ordering comparison(s)')
        for c in cmps:
            bad = [o for o in [c.left] + c.comparators if not (numeric(o) or (isinstance(o, ast.Name) and o.id in (num_locals | consts_num)))]
            if bad:
                rep.violation('R6', loc(lmod, c), 'Labels.LAMBDA_VALIDATORS', f'{k_.value}: orders {norm(bad[0], 50)}',
                              f'the range validator of {k_.value!r} orders {norm(bad[0], 50)}, which is text, not a number: text is ordered '
                              f'character by character ("100" < "20"), so valid ranges are rejected and reversed ones accepted')
    # Capacities._set_fields: the non-negative int asserts precede the store
    caps = prog.cls(CAPS)
    csf0 = caps.methods.get('_set_fields')
    csf = inline(prog, caps, csf0)
    ccfg = CFG(csf)
    cdom = ccfg.dominators()
    cstores = [n for n in ccfg.nodes if n.kind == 'stmt' and n.ast is not None and any(isinstance(c, ast.Call) and call_name(c) in ('__setattr__', 'setattr')
                                                                                   for c in walk_no_nested(n.ast))]
    atests = [n for n in ccfg.nodes if n.kind == 'test' and n.tag == 'assert']

    def asserts_int(t):
        return any(isinstance(c, ast.Call) and isinstance(c.func, ast.Name) and c.func.id == 'isinstance' and len(c.args) == 2 and ast.unparse(c.args[1]) == 'int'
                   for c in ast.walk(t))

    def asserts_nonneg(t):
        for cj in [x for x in ast.walk(canon(t)) if isinstance(x, ast.Compare)]:
            if len(cj.ops) == 1 and isinstance(cj.ops[0], ast.LtE) and isinstance(cj.left, ast.Constant) and cj.left.value == 0:
                return True
        return False
    rep.instance('R3', f'Capacities._set_fields: asserts {[norm(a_.ast, 40) for a_ in atests]} before {len(cstores)} store(s)')
    int_ok = [a_ for a_ in atests if asserts_int(a_.ast)]
    nn_ok = [a_ for a_ in atests if asserts_nonneg(a_.ast)]
    if not int_ok or not nn_ok:
        rep.violation('R3', loc(caps.module, csf0), 'Capacities._set_fields', 'non-negative int assertion missing',
                      'Capacities no longer asserts that every value is a non-negative int')
    else:
        def cap_sink(st):
            if isinstance(st, ast.Expr) and isinstance(st.value, ast.Call) and call_name(st.value) in ('__setattr__', 'setattr') and len(st.value.args) >= 2:
                return st.value.args[-1]
            return None
        loops_ = [l for l in walk_no_nested(csf) if isinstance(l, ast.For) and any(cap_sink(x) is not None for x in ast.walk(l) if isinstance(x, ast.stmt))]
        if not loops_:
            raise AnalysisError('Capacities._set_fields: field loop not found')
        try:
            couts = branch_values(loops_[0].body, cap_sink, follow_loops=True)
        except Unknown as u:
            raise AnalysisError(f'Capacities._set_fields not analysable: {u}')
        for o in couts:
            vname = ctext(o.value)
            none_path = any(ctext(n) == f'{vname} is None' for n in o.cond_nodes)
            has_int = any(asserts_int(n) for n in o.cond_nodes)
            has_nn = any(asserts_nonneg(n) for n in o.cond_nodes)
            if not none_path and not (has_int and has_nn):
                rep.violation('R3', loc(caps.module, o.stmt), 'Capacities._set_fields', 'store precedes assertion',
                              'Capacities stores the value before asserting it is a non-negative int')

    # Tags: constructor checks each tag before appending; from_json goes through the constructor
    tinit = inline(prog, tags, tags.methods.get('__init__'))
    tenv = local_env(tinit)
    tcfg = CFG(tinit)
    tdom = tcfg.dominators()
    TAG_TESTS = {'_check', '_conforms', 'fullmatch'}
    appends = [n for n in walk_no_nested(tinit) if isinstance(n, ast.Call) and call_name(n) == 'append' and n.args]
    for ap in appends:
        what = ctext(ap.args[0], tenv)
        apn = flow.node_of(tcfg, ap)
        guards = []
        for n in tcfg.nodes:
            if n.ast is None or apn is None or n.id == apn.id or n.id not in tdom.get(apn.id, set()):
                continue
            if n.kind == 'stmt' or (n.kind == 'test' and n.tag == 'if'):
                for c in ast.walk(n.ast):
                    if isinstance(c, ast.Call) and call_name(c) in TAG_TESTS and any(ctext(a, tenv) == what for a in c.args):
                        # a test only counts when one of its arms rejects; a statement-level call raises by itself
                        if n.kind == 'stmt' or any(isinstance(x, ast.Raise) for x in ast.walk(getattr(n.ast, '_parent', n.ast))):
                            guards.append(call_name(c))
        rep.instance('R3', f'Tags.__init__: {norm(ap)} ({what}) dominated by {sorted(set(guards))}')
        if not guards:
            rep.violation('R3', loc(tags.module, ap), 'Tags.__init__', norm(ap),
                          'a tag is appended without being checked first')
    tfj = tags.methods.get('from_json')
    if not any(isinstance(n, ast.Call) and isinstance(n.func, ast.Name) and n.func.id == 'cls' for n in ast.walk(tfj)):
        rep.violation('R3', loc(tags.module, tfj), 'Tags.from_json', 'does not construct through cls(...)',
                      'Tags.from_json no longer builds the value through the checking constructor')
    rep.instance('R3', 'Tags.from_json -> cls(d)')
    chk = tags.methods.get('_check')
    chki = inline(prog, tags, chk)
    cparams = [p_ for p_ in func_params(chk) if p_ not in ('self', 'cls')]
    # isinstance(<the parameter>, str) - whatever the parameter is called - somewhere in the body with helpers inlined
    type_test = any(isinstance(n, ast.Call) and isinstance(n.func, ast.Name) and n.func.id == 'isinstance' and len(n.args) == 2 and
                    isinstance(n.args[0], ast.Name) and cparams and n.args[0].id == cparams[0] and
                    any(isinstance(x, ast.Name) and x.id == 'str' for x in ast.walk(n.args[1])) for n in ast.walk(chki))
    if not type_test or not any(isinstance(n, ast.Raise) for n in ast.walk(chk)):
        rep.violation('R3', loc(tags.module, chk), 'Tags._check', 'type/raise missing', 'Tags._check no longer rejects')

    # set_name: check before store; set_property/set_properties dispatch through the setters
    sn0 = base.methods.get('set_name')
    sn = inline(prog, base, sn0)
    ncfg = CFG(sn)
    ndom = ncfg.dominators()
    nstore = [n for n in ncfg.nodes if n.kind == 'stmt' and isinstance(n.ast, ast.Assign) and any(ast.unparse(t) == 'self.resource_name' for t in n.ast.targets)]
    napps = [c for c in regex_calls(sn)]
    nraise = [n for n in ncfg.nodes if n.kind == 'stmt' and n.tag == 'raise']
    rep.instance('R3', f'BaseSliver.set_name: {len(napps)} pattern application(s), store {norm(nstore[0].ast) if nstore else None}')
    okn = bool(nstore) and bool(napps) and bool(nraise)
    if okn:
        an = [flow.node_of(ncfg, c) for c in napps]
        okn = any(a_ is not None and a_.id in ndom.get(nstore[0].id, set()) for a_ in an) and not any(r.id in ndom.get(nstore[0].id, set()) for r in nraise)
    if not okn:
        rep.violation('R3', loc(base.module, sn0), 'BaseSliver.set_name', 'name stored before / without validation',
                      'set_name stores the name on a path on which it was not matched against NAME_REGEX of the sliver class (e.g. the match '
                      'is skipped under some condition): a name that this class must reject is accepted')
    for c in prog.subclasses(base, strict=True):
        if 'set_name' in c.methods:
            rep.violation('R3', loc(c.module, c.methods['set_name']), f'{c.name}.set_name', 'override of set_name',
                          f'{c.name} overrides set_name; the override is not known to validate the name')
    for mname in ('set_property', 'set_properties'):
        fn = inline(prog, base, base.methods.get(mname))
        denv = local_env(fn)
        disp = [c for c in walk_no_nested(fn) if isinstance(c, ast.Call) and call_name(c) in ('__getattribute__', 'getattr') and
                any(isinstance(x, ast.Constant) and isinstance(x.value, str) and x.value.startswith('set_') for a_ in c.args for x in ast.walk(expand(a_, denv)))]
        rep.instance('R3', f'BaseSliver.{mname} dispatches through set_<name>: {[norm(c, 60) for c in disp]}')
        if not disp:
            rep.violation('R3', loc(base.module, fn), f'BaseSliver.{mname}', 'does not dispatch through setters',
                          f'{mname} no longer dispatches through the set_<name> methods (validation lives there)')

    # ---- R5: sizes ----
    jd = prog.cls(JSONDATA)
    ji = jd.methods.get('__init__')
    if ji is None:
        raise AnalysisError('JSONData.__init__ vanished')
    ji0 = ji
    ji = inline(prog, jd, split_callee_choice(ji0))
    jenv = local_env(ji)
    jcfg = CFG(ji)
    jdom = jcfg.dominators()
    jstores = [n for n in jcfg.nodes if n.kind == 'stmt' and isinstance(n.ast, ast.Assign) and any(ast.unparse(t) == 'self._data' for t in n.ast.targets)
               and not isinstance(n.ast.value, ast.Constant) and not _class_constant(jd, n.ast.value)]
    if not jstores:
        raise AnalysisError('JSONData.__init__: no store of caller data into _data')

    def size_tests():
        """[(cfg node of the test, text of the measured expression)] for `MAX_SIZE < len(E)` tests that guard a raise"""
        out = []
        for t in jcfg.nodes:
            if t.kind != 'test' or t.tag != 'if':
                continue
            c = canon(expand(t.ast, jenv))
            for cj in conjuncts(c):
                if isinstance(cj, ast.Compare) and len(cj.ops) == 1 and isinstance(cj.ops[0], (ast.Lt, ast.LtE)):
                    l, r = cj.left, cj.comparators[0]
                    if any(isinstance(x, ast.Attribute) and x.attr == 'MAX_SIZE' for x in ast.walk(l)) and isinstance(r, ast.Call) and \
                            isinstance(r.func, ast.Name) and r.func.id == 'len' and r.args:
                        if any(isinstance(x, ast.Raise) for x in ast.walk(t.ast._parent)):
                            out.append((t, ctext(r.args[0])))
                            size_ops.append((t, type(cj.ops[0]).__name__))
        return out
    size_ops = []
    tests = size_tests()
    # the branches agree on where the limit lies: what one branch accepts and encodes, the other accepts when it is handed that text
    kinds = sorted({k for _, k in size_ops})
    rep.instance('R5', f'JSONData.__init__: size tests reject when MAX_SIZE {"/".join("<" if k == "Lt" else "<=" for k in kinds)} len(..) ({len(size_ops)} tests)')
    if len(kinds) > 1:
        odd = [t for t, k in size_ops if k == 'LtE']
        rep.violation('R5', loc(jd.module, odd[0].ast), 'JSONData.__init__', f'size tests disagree: {norm(odd[0].ast, 60)} rejects a length equal to the limit',
                      'one branch of the constructor rejects a text whose length equals MAX_SIZE while another accepts it: a value accepted '
                      'as an object and encoded to exactly MAX_SIZE characters is rejected when that encoding is decoded again')
    for sn_ in jstores:
        stored = sn_.ast.value
        stxt = ctext(stored, jenv)
        # the size test measures the stored text: before the store (same expression) or after it (self._data or the same expression)
        ok_size = False
        measured = []
        for t, mtxt in tests:
            before = t.id in jdom.get(sn_.id, set())
            after = sn_.id in jdom.get(t.id, set())
            measured.append(mtxt)
            if (before and mtxt == stxt) or (after and mtxt in ('self._data', stxt)):
                ok_size = True
        rep.instance('R5', f'JSONData.__init__: stores {stxt[:40]}, size tests measure {sorted(set(measured))}')
        if not tests or not any(t.id in jdom.get(sn_.id, set()) or sn_.id in jdom.get(t.id, set()) for t, _ in tests):
            rep.violation('R5', loc(jd.module, sn_.ast), 'JSONData.__init__', f'branch storing {stxt[:40]} has no size test',
                          f'the branch storing {stxt} into _data no longer compares its length with MAX_SIZE')
        elif not ok_size:
            rep.violation('R5', loc(jd.module, sn_.ast), 'JSONData.__init__', f'measures len of {sorted(set(measured))} but stores {stxt[:40]}',
                          f'the size limit is checked on another value than the text that is stored ({stxt}): the limit no '
                          f'longer bounds the stored encoding')
        # validity: a text taken as is must have been parsed; an encoding produced by json.dumps is valid by construction
        stored_x = expand(stored, jenv)
        encoded = any(isinstance(v_, ast.Call) and call_name(v_) == 'dumps' for v_ in (stored, stored_x))
        if not encoded:
            parses = [c for c in walk_no_nested(ji) if isinstance(c, ast.Call) and call_name(c) == 'loads' and c.args and ctext(c.args[0], jenv) == stxt]
            pn = [flow.node_of(jcfg, c) for c in parses]
            rep.instance('R5', f'JSONData.__init__: text {stxt[:30]} parsed before it is stored: {bool(pn)}')
            if not any(x is not None and x.id in jdom.get(sn_.id, set()) for x in pn):
                rep.violation('R5', loc(jd.module, sn_.ast), 'JSONData.__init__', 'no JSON validity test',
                              'a JSON string is stored without being parsed first')
    for c in prog.subclasses(jd, strict=True):
        rep.instance('R5', f'{c.name}.MAX_SIZE')
        owner, e = c.find_assign('MAX_SIZE')
        if owner is None:
            rep.violation('R5', loc(c.module, c.node), c.name, 'no MAX_SIZE', f'{c.name} defines no MAX_SIZE')
    sb0 = base.methods.get('set_boot_script')
    sb = inline(prog, base, sb0)
    bparam = [p_ for p_ in func_params(sb) if p_ != 'self'][0]

    def bs_sink(st):
        if isinstance(st, ast.Assign) and any(ast.unparse(t) == 'self.boot_script' for t in st.targets):
            return st.value
        return None
    try:
        bouts = branch_values(sb.body, bs_sink)
    except Unknown as u:
        raise AnalysisError(f'set_boot_script not analysable: {u}')

    def is_size(c):
        return isinstance(c, ast.Compare) and len(c.ops) == 1 and isinstance(c.ops[0], ast.Lt) and isinstance(c.left, ast.Call) and \
            isinstance(c.left.func, ast.Name) and c.left.func.id == 'len' and c.left.args and isinstance(c.left.args[0], ast.Name) and \
            c.left.args[0].id == bparam and any(isinstance(x, ast.Attribute) and x.attr == 'BOOST_SCRIPT_SIZE' for x in ast.walk(c.comparators[0]))

    def is_none(c):
        return ctext(c) == f'{bparam} is None'

    def implies_bound(c):
        """does condition c guarantee: the script is None or shorter than the limit?"""
        c = canon(c)
        if is_none(c) or is_size(c):
            return True
        if isinstance(c, ast.BoolOp) and isinstance(c.op, ast.And):
            return any(implies_bound(v) for v in c.values)
        if isinstance(c, ast.BoolOp) and isinstance(c.op, ast.Or):
            return all(implies_bound(v) for v in c.values)
        return False
    rep.instance('R5', f'BaseSliver.set_boot_script: {len(bouts)} path(s) to the store, conditions {[o.conds for o in bouts]}')
    if not bouts or not all(any(implies_bound(n) for n in o.cond_nodes) for o in bouts):
        rep.violation('R5', loc(base.module, sb0), 'BaseSliver.set_boot_script', 'size assertion missing or after the store',
                      'set_boot_script no longer asserts the script length before storing it')


def check_size_tests_agree(prog, rep, rule):
    """The size tests of the JSON blob constructor (text branch, object branch) agree on where the limit lies: what one branch
    accepts and encodes, the other accepts when it is handed that text. Shared with C03 (decode(encode(x)) is accepted)."""
    jd_ = prog.cls(JSONDATA)
    ji_ = jd_.methods.get('__init__')
    if ji_ is None:
        raise AnalysisError('JSONData.__init__ vanished')
    ji_ = inline(prog, jd_, split_callee_choice(ji_))
    env_ = local_env(ji_)
    ops = []
    for t in ast.walk(ji_):
        if not isinstance(t, ast.If) or not any(isinstance(x, ast.Raise) for x in ast.walk(t)):
            continue
        for cj in conjuncts(canon(expand(t.test, env_))):
            if isinstance(cj, ast.Compare) and len(cj.ops) == 1 and isinstance(cj.ops[0], (ast.Lt, ast.LtE, ast.Gt, ast.GtE)):
                l, r = cj.left, cj.comparators[0]
                has_max = lambda e: any(isinstance(x, ast.Attribute) and x.attr == 'MAX_SIZE' for x in ast.walk(e))
                has_len = lambda e: any(isinstance(x, ast.Call) and isinstance(x.func, ast.Name) and x.func.id == 'len' for x in ast.walk(e))
                if has_max(l) and has_len(r):
                    strict = isinstance(cj.ops[0], ast.Lt)            # MAX < len  : a length equal to the limit is accepted
                    nonstrict = isinstance(cj.ops[0], ast.LtE)
                elif has_len(l) and has_max(r):
                    strict = isinstance(cj.ops[0], ast.Gt)
                    nonstrict = isinstance(cj.ops[0], ast.GtE)
                else:
                    continue
                if strict or nonstrict:
                    ops.append((t, 'rejects above the limit' if strict else 'rejects at the limit'))
    kinds = sorted({k for _, k in ops})
    rep.instance(rule, f'JSONData.__init__: {len(ops)} size test(s): {kinds}')
    if len(ops) < 2:
        raise AnalysisError('JSONData.__init__: the two size tests were not recognised')
    if len(kinds) > 1:
        odd = [t for t, k in ops if k == 'rejects at the limit']
        rep.violation(rule, loc(jd_.module, odd[0]), 'JSONData.__init__', f'size tests disagree: {norm(odd[0].test, 60)} rejects a length equal to the limit',
                      'one branch of the constructor rejects a text whose length equals MAX_SIZE while another accepts it: a value accepted '
                      'as an object and encoded to exactly MAX_SIZE characters is rejected when that encoding is decoded again')


def _decides_no_store(prog, cls, sf, use):
    """The test that reads `forgiving` decides nothing about a store: from it, no field store of the same iteration of the
    per-field loop is reachable on either side (both sides leave the iteration: raise, or warn and go on to the next field).
    That is what the unknown-field handler does, written without an exception."""
    cfg = CFG(sf)
    stores = [n for n in cfg.nodes if n.kind == 'stmt' and n.ast is not None and
              any(isinstance(c, ast.Call) and call_name(c) in ('__setattr__', 'setattr') for c in walk_no_nested(n.ast))]
    un = flow.node_of(cfg, use)
    if un is None or un.kind != 'test' or not stores:
        return False
    heads = {h.id for h in cfg.nodes if h.kind == 'test' and h.tag == 'for'}
    return not any(cfg.paths_avoiding(un, st_, heads) for st_ in stores)


def _stmt_ancestors(node, fn):
    p = getattr(node, '_parent', None)
    while p is not None and p is not fn:
        yield p
        p = getattr(p, '_parent', None)


def _holds_labels(cls):
    return False


CL = 'fim/slivers/capacities_labels.py'
MUTANTS = [
    {'name': 'labels-field-probe-by-attribute-lookup', 'file': 'fim/slivers/capacities_labels.py', 'rule': 'R8', 'count': 7,
     'find': "                if k not in self.__dict__:\n                    # methods and class tables are attributes too, only declared fields can be set\n                    raise AttributeError(k)\n",
     'replace': "                self.__getattribute__(k)\n"},
    {'name': 'sliver-accepts-negative-capacities', 'file': 'fim/slivers/base_sliver.py', 'rule': 'R9',
     'find': "        assert(cap is None or all(v is None or v >= 0 for v in cap.__dict__.values()))\n        self.capacities = cap\n", 'replace': "        self.capacities = cap\n"},
    {'name': 'vlan-pattern-unicode-digits', 'file': CL, 'rule': 'R2', 'find': "        'vlan': (r'[0-9]{1,4}', \"1234\"),", 'replace': "        'vlan': (r'[\\d]{1,4}', \"1234\"),"},
    {'name': 'numa-pattern-dropped', 'file': CL, 'rule': 'R2', 'find': "        'numa': (r'-1|[0-9]', \"0\")\n", 'replace': ''},
    {'name': 'name-cached-before-validation', 'file': 'fim/user/model_element.py', 'rule': 'R7',
     'find': "            self.set_property('name', value)\n        self._name = value\n", 'replace': "            self._name = value\n            self.set_property('name', value)\n        self._name = value\n"},
    {'name': 'labels-scalar-fullmatch-to-match', 'file': CL, 'rule': 'R1',
     'find': 'matches = re.fullmatch(self.VALIDATORS[k][0], v)', 'replace': "matches = re.match('^' + self.VALIDATORS[k][0] + '$', v)"},
    {'name': 'tags-fullmatch-to-match', 'file': 'fim/slivers/tags.py', 'rule': 'R1',
     'find': 'Tags.compiled_pattern.fullmatch(tag)', 'replace': 'Tags.compiled_pattern.match(tag)'},
    {'name': 'name-fullmatch-to-match', 'file': 'fim/slivers/base_sliver.py', 'rule': 'R1',
     'find': 're.fullmatch(self.NAME_REGEX, resource_name)', 'replace': 're.match(self.NAME_REGEX, resource_name)'},
    {'name': 'bdf-dot-unescaped', 'file': CL, 'rule': 'R2', 'find': "{2}\\.[0-9a-fA-F]+'", 'replace': "{2}.[0-9a-fA-F]+'"},
    {'name': 'validator-key-misspelled', 'file': CL, 'rule': 'R4',
     'find': "        'usb_id': (r'[0-9a-f]{4}:[0-9a-f]{4}'", 'replace': "        'usbid': (r'[0-9a-f]{4}:[0-9a-f]{4}'"},
    {'name': 'validation-conditional-on-forgiving', 'file': CL, 'rule': 'R3',
     'find': '                if self.VALIDATORS.get(k, None) is not None:', 'replace': '                if not forgiving and self.VALIDATORS.get(k, None) is not None:'},
    {'name': 'update-bypasses-set-fields', 'file': CL, 'rule': 'R3',
     'find': '        inst._set_fields(**kwargs)\n        return inst', 'replace': '        for k, v in kwargs.items():\n            inst.__setattr__(k, v)\n        return inst'},
    {'name': 'boot-script-size-dropped', 'file': 'fim/slivers/base_sliver.py', 'rule': 'R5',
     'find': '(isinstance(boot_script, str) and len(boot_script) < self.BOOST_SCRIPT_SIZE))', 'replace': 'isinstance(boot_script, str))'},
]
TWINS = [
    {'name': 'Z-anchored-match', 'file': 'fim/slivers/tags.py',
     'find': 'TAG_PATTERN="^[\\\\w-]{1,255}$"\n    compiled_pattern = re.compile(TAG_PATTERN)',
     'replace': 'TAG_PATTERN="^[\\\\w-]{1,255}\\\\Z"\n    compiled_pattern = re.compile(TAG_PATTERN)'},
]
