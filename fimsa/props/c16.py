"""
C16 -- label, tag, name and data validation holds on every construction path.

R1 every application of a validator regex has full-match semantics (fullmatch, or pattern ending in \\Z)
R2 validator patterns: no unescaped wildcard; documented example matches its own pattern
R3 entry points (constructor, update, from_json, name setter) reach the validator before the store; `forgiving`
   is consulted only in the unknown-field handler
R4 validator tables are keyed by declared fields; direct stores to validated fields outside _set_fields copy the
   same field of another value
R5 size / validity tests precede the store and measure what is stored (JSONData, boot script, tags)
"""
import ast
import re
try:
    import re._parser as sre_parse      # 3.11+
except ImportError:                     # pragma: no cover
    import sre_parse

from ..core import AnalysisError, Unfoldable, norm, loc, walk_no_nested, attr_chain, call_name

LABELS = 'fim.slivers.capacities_labels:Labels'
CAPS = 'fim.slivers.capacities_labels:Capacities'
TAGS = 'fim.slivers.tags:Tags'
BASE = 'fim.slivers.base_sliver:BaseSliver'
JSONDATA = 'fim.slivers.json_data:JSONData'
JSONFIELD = 'fim.slivers.capacities_labels:JSONField'


def regex_calls(fn):
    """Calls that apply a regular expression: re.match/search/fullmatch(p, s) and <x>.match/search/fullmatch(s)."""
    out = []
    for n in walk_no_nested(fn):
        if isinstance(n, ast.Call) and isinstance(n.func, ast.Attribute) and n.func.attr in ('match', 'search', 'fullmatch'):
            out.append(n)
    return out


def has_any(pattern):
    """does the parsed pattern contain an unescaped '.' (ANY)?"""
    def walk(sub):
        for op, av in sub:
            if str(op) == 'ANY':
                return True
            if isinstance(av, (list, tuple)):
                for x in av:
                    if isinstance(x, sre_parse.SubPattern) and walk(x):
                        return True
                    if isinstance(x, (list, tuple)):
                        for y in x:
                            if isinstance(y, sre_parse.SubPattern) and walk(y):
                                return True
            if isinstance(av, sre_parse.SubPattern) and walk(av):
                return True
        return False
    return walk(sre_parse.parse(pattern))


def run(prog, rep):
    rep.extra['explanation'] = (
        'Every regex application in the sliver package is located and required to have full-match semantics; the '
        'validator tables are folded to constants and each pattern is parsed with the stdlib regex parser (no ANY '
        'opcode; example matches); the constructors, update, from_json and setters are checked to route through the '
        'validating setter before the store; size checks are checked to measure the value that is stored. Whether a '
        'particular string belongs to a format is not decided.')
    rep.rule('R1', 'validator regex applied with full-match semantics', floor=4)
    rep.rule('R2', 'validator pattern has no unescaped wildcard and matches its documented example', floor=20)
    rep.rule('R3', 'entry point reaches the validator before the store; forgiving only in the unknown-field handler',
             floor=12)
    rep.rule('R4', 'validator table keys are declared fields; outside stores to validated fields are same-field copies',
             floor=20)
    rep.rule('R5', 'size/validity test precedes the store and measures the stored value', floor=6)

    labels = prog.cls(LABELS)
    lmod = labels.module
    validators = prog.class_const(labels, 'VALIDATORS')
    lambdas_expr = labels.assigns.get('LAMBDA_VALIDATORS')
    if not isinstance(lambdas_expr, ast.Dict):
        raise AnalysisError('Labels.LAMBDA_VALIDATORS is not a dict literal')
    lambda_keys = [k.value for k in lambdas_expr.keys if isinstance(k, ast.Constant)]

    # declared fields of Labels
    init = labels.methods.get('__init__')
    fields = []
    for n in ast.walk(init):
        if isinstance(n, ast.Assign):
            for t in n.targets:
                ch = attr_chain(t)
                if ch and len(ch) == 2 and ch[0] == 'self':
                    fields.append(ch[1])

    # ---- R1: every regex application in fim/slivers and fim/user ----
    for m, cls, fn in prog.all_functions():
        if not (m.name.startswith('fim.slivers') or m.name.startswith('fim.user')):
            continue
        for call in regex_calls(fn):
            f = call.func
            recv = ast.unparse(f.value)
            if recv == 're':
                pat_expr = call.args[0] if call.args else None
            else:
                # compiled pattern: resolve its definition textually through the class/module assigns
                pat_expr = None
                ch = attr_chain(f.value)
                owner = cls
                if ch and len(ch) == 2 and owner is not None:
                    target = prog.resolve_class_expr(ast.Name(id=ch[0], ctx=ast.Load()), m) if ch[0] not in ('self', 'cls') else owner
                    if target is not None:
                        _, e = target.find_assign(ch[1])
                        if isinstance(e, ast.Call) and ast.unparse(e.func) == 're.compile' and e.args:
                            pat_expr = e.args[0]
                            if isinstance(pat_expr, ast.Name):
                                _, e2 = target.find_assign(pat_expr.id)
                                pat_expr = e2 if e2 is not None else pat_expr
                if pat_expr is None:
                    # not a regex object we can identify (e.g. str.match does not exist); treat attribute named
                    # match on non-regex receivers as out of scope only if the receiver is clearly not a pattern
                    if 'pattern' not in recv.lower() and 'regex' not in recv.lower() and recv != 're':
                        # try: local variable assigned from re.compile in this function
                        for n in ast.walk(fn):
                            if isinstance(n, ast.Assign) and isinstance(n.value, ast.Call) and \
                                    ast.unparse(n.value.func) == 're.compile' and \
                                    any(ast.unparse(t) == recv for t in n.targets):
                                pat_expr = n.value.args[0]
                        if pat_expr is None:
                            # dict of compiled patterns etc: fall back to "any .match on something" being a regex use
                            pat_expr = f.value
            fq = (cls.name + '.' if cls else '') + fn.name
            ptxt = ast.unparse(pat_expr) if pat_expr is not None else recv
            full = f.attr == 'fullmatch'
            # pattern ending with \Z also gives full-match semantics with match()
            folded = None
            try:
                folded = prog.const_eval(pat_expr, m, cls) if pat_expr is not None else None
            except (Unfoldable, AnalysisError):
                folded = None
            if not full and f.attr == 'match':
                if isinstance(folded, str) and folded.endswith('\\Z'):
                    full = True
                elif '\\\\Z' in ptxt or "\\Z'" in ptxt or '\\Z"' in ptxt:
                    full = True
            rep.instance('R1', f'{fq}: {norm(call, 90)}', detail={'method': f.attr, 'pattern': ptxt[:80]})
            if not full:
                rep.violation('R1', loc(m, call), fq, norm(call, 100),
                              f'the validator pattern {ptxt[:60]} is applied with {f.attr}(), which does not require the '
                              f'whole string to match ("$" also matches before a trailing newline): a value such as '
                              f'"<valid>\\n" is accepted and stored')

    # ---- R2: pattern hygiene ----
    def check_pattern(name, pat, example, where_node, owner, mod):
        rep.instance('R2', f'{owner}: {name} = {pat[:50]!r}')
        try:
            if has_any(pat):
                rep.violation('R2', loc(mod, where_node), owner, f'{name}: unescaped "." in pattern',
                              f'the {name} pattern {pat!r} contains an unescaped "." (matches any character): a fixed '
                              f'separator can be replaced by anything')
        except re.error as e:
            rep.violation('R2', loc(mod, where_node), owner, f'{name}: pattern does not compile',
                          f'the {name} pattern does not compile: {e}')
            return
        if example is not None and isinstance(example, str) and ' ' not in example and re.fullmatch(r'[\w:./\-]+', example):
            if re.fullmatch(pat, example) is None:
                rep.violation('R2', loc(mod, where_node), owner, f'{name}: documented example does not match',
                              f'the documented example {example!r} of {name} does not match its own pattern {pat!r}')

    vexpr = labels.assigns.get('VALIDATORS')
    for k, v in validators.items():
        if not (isinstance(v, tuple) and len(v) == 2 and isinstance(v[0], str)):
            raise AnalysisError(f'Labels.VALIDATORS[{k!r}] is not a (pattern, example) pair')
        check_pattern(k, v[0], v[1], vexpr, 'Labels.VALIDATORS', lmod)
    base = prog.cls(BASE)
    name_classes = []
    for c in prog.subclasses(base):
        if 'NAME_REGEX' in c.assigns:
            pat = prog.class_const(c, 'NAME_REGEX')
            name_classes.append(c)
            check_pattern('NAME_REGEX', pat, None, c.assigns['NAME_REGEX'], c.name, c.module)
    tags = prog.cls(TAGS)
    check_pattern('TAG_PATTERN', prog.class_const(tags, 'TAG_PATTERN'), None, tags.assigns['TAG_PATTERN'], 'Tags', tags.module)
    # every concrete sliver class resolves a NAME_REGEX
    for c in prog.subclasses(base, strict=True):
        owner, e = c.find_assign('NAME_REGEX')
        is_abstract = any(isinstance(b, ast.FunctionDef) and any(ast.unparse(d) == 'abstractmethod' for d in b.decorator_list)
                          for b in c.node.body)
        rep.instance('R2', f'{c.name}: NAME_REGEX resolves to {owner.name if owner else None}')
        if owner is None and not is_abstract and c.simple not in ('BaseSliverWithDelegation',):
            rep.violation('R2', loc(c.module, c.node), c.name, 'no NAME_REGEX',
                          f'sliver class {c.name} defines no NAME_REGEX: set_name raises AttributeError instead of validating')

    # ---- R4: table keys are declared fields ----
    for k in validators:
        rep.instance('R4', f'Labels.VALIDATORS key {k}')
        if k not in fields:
            rep.violation('R4', loc(lmod, vexpr), 'Labels.VALIDATORS', f'key {k} is not a declared field',
                          f'validator table key {k!r} is not a field declared in Labels.__init__: the field it was meant '
                          f'for is stored unvalidated')
    for k in lambda_keys:
        rep.instance('R4', f'Labels.LAMBDA_VALIDATORS key {k}')
        if k not in fields:
            rep.violation('R4', loc(lmod, lambdas_expr), 'Labels.LAMBDA_VALIDATORS', f'key {k} is not a declared field',
                          f'range validator key {k!r} is not a declared Labels field')
    validated = set(validators) | set(lambda_keys)
    # outside stores to validated fields
    for m, cls, fn in prog.all_functions():
        if cls is labels:
            continue
        for n in walk_no_nested(fn):
            if isinstance(n, ast.Assign):
                for t in n.targets:
                    if isinstance(t, ast.Attribute) and t.attr in validated and not \
                            (isinstance(t.value, ast.Name) and t.value.id == 'self' and cls is not None and
                             not _holds_labels(cls)):
                        base_txt = ast.unparse(t.value)
                        if not ('lab' in base_txt.lower()):
                            continue
                        fq = (cls.name + '.' if cls else '') + fn.name
                        rep.instance('R4', f'{fq}: {norm(n)}')
                        same = isinstance(n.value, ast.Attribute) and n.value.attr == t.attr
                        if not same:
                            rep.violation('R4', loc(m, n), fq, norm(n),
                                          f'label field {t.attr} is stored directly, bypassing Labels._set_fields '
                                          f'validation, from a value that is not the same field of another Labels')

    # ---- R3: entry points ----
    jf = prog.cls(JSONFIELD)
    for c in prog.subclasses(jf, strict=True):
        fq = c.name
        ini = c.methods.get('__init__')
        if ini is not None:
            calls = [n for n in walk_no_nested(ini) if isinstance(n, ast.Call) and call_name(n) == '_set_fields']
            ok = any(any(k.arg is None for k in n.keywords) for n in calls)
            rep.instance('R3', f'{fq}.__init__ -> _set_fields(**kwargs)')
            if not ok:
                rep.violation('R3', loc(c.module, ini), f'{fq}.__init__', 'constructor bypasses _set_fields',
                              f'{fq}.__init__ no longer passes its keyword arguments through _set_fields: values are '
                              f'stored unvalidated')
        sf = c.methods.get('_set_fields')
        if sf is not None:
            # forgiving referenced only under `except AttributeError`
            for n in ast.walk(sf):
                if isinstance(n, ast.Name) and n.id == 'forgiving' and isinstance(n.ctx, ast.Load):
                    p = n
                    in_handler = False
                    while p is not None and p is not sf:
                        p = getattr(p, '_parent', None)
                        if isinstance(p, ast.ExceptHandler) and p.type is not None and \
                                ast.unparse(p.type) == 'AttributeError':
                            in_handler = True
                    rep.instance('R3', f'{fq}._set_fields: forgiving used at {norm(getattr(n, "_parent", n), 60)}')
                    if not in_handler:
                        rep.violation('R3', loc(c.module, n), f'{fq}._set_fields', 'forgiving used outside the unknown-field handler',
                                      f'{fq}._set_fields consults `forgiving` outside the unknown-field handler: decoding '
                                      f'from text (which is forgiving) would skip or weaken validation')
    # JSONField.update and from_json route through _set_fields
    for mname in ('update', 'from_json'):
        fn = jf.methods.get(mname)
        if fn is None:
            raise AnalysisError(f'JSONField.{mname} vanished')
        calls = [n for n in walk_no_nested(fn) if isinstance(n, ast.Call) and call_name(n) == '_set_fields']
        rep.instance('R3', f'JSONField.{mname} -> _set_fields')
        if not calls:
            rep.violation('R3', loc(jf.module, fn), f'JSONField.{mname}', 'bypasses _set_fields',
                          f'JSONField.{mname} no longer routes the new values through _set_fields')
    upd = jf.methods['update']
    # update copies existing fields with __setattr__ (already validated) and new ones through _set_fields only
    for n in walk_no_nested(upd):
        if isinstance(n, ast.Call) and call_name(n) == '__setattr__':
            args = [ast.unparse(a) for a in n.args]
            loop = getattr(getattr(n, '_parent', None), '_parent', None)
            src = ast.unparse(loop.iter) if isinstance(loop, ast.For) else ''
            rep.instance('R3', f'JSONField.update: __setattr__({", ".join(args)}) over {src}')
            if 'kwargs' in src or any('kwargs' in a for a in args):
                rep.violation('R3', loc(jf.module, n), 'JSONField.update', norm(n),
                              'update stores caller-supplied values with __setattr__, bypassing validation')

    # Labels._set_fields: validators precede the store
    sf = labels.methods.get('_set_fields')
    tries = [n for n in ast.walk(sf) if isinstance(n, ast.Try)]
    if len(tries) != 1:
        raise AnalysisError('Labels._set_fields: expected exactly one try block')
    body = tries[0].body
    idx_store = None
    idx_regex = None
    idx_lambda = None
    for i, st in enumerate(body):
        txt = ast.unparse(st)
        if isinstance(st, ast.Expr) and isinstance(st.value, ast.Call) and call_name(st.value) == '__setattr__':
            idx_store = i
        if isinstance(st, ast.If) and 'self.VALIDATORS' in ast.unparse(st.test):
            idx_regex = i
            # both the list branch and the scalar branch must validate and raise
            raises = [x for x in ast.walk(st) if isinstance(x, ast.Raise)]
            rcalls = [x for x in ast.walk(st) if isinstance(x, ast.Call) and isinstance(x.func, ast.Attribute)
                      and x.func.attr in ('match', 'fullmatch', 'search')]
            rep.instance('R3', f'Labels._set_fields: regex validation block has {len(rcalls)} applications, {len(raises)} raises')
            if len(raises) < 2 or len(rcalls) < 2:
                rep.violation('R3', loc(lmod, st), 'Labels._set_fields', 'regex validation incomplete',
                              'the scalar or the list form of a label value is no longer checked against its pattern')
        if isinstance(st, ast.If) and 'self.LAMBDA_VALIDATORS' in ast.unparse(st.test):
            idx_lambda = i
            raises = [x for x in ast.walk(st) if isinstance(x, ast.Raise)]
            rep.instance('R3', f'Labels._set_fields: range validation block has {len(raises)} raises')
            if len(raises) < 2:
                rep.violation('R3', loc(lmod, st), 'Labels._set_fields', 'range validation incomplete',
                              'the scalar or the list form of a label value is no longer range-checked')
    if idx_store is None or idx_regex is None or idx_lambda is None:
        raise AnalysisError('Labels._set_fields: validation/store statements not found in the recognised shape')
    rep.instance('R3', f'Labels._set_fields: order regex={idx_regex} range={idx_lambda} store={idx_store}')
    if not (idx_regex < idx_store and idx_lambda < idx_store):
        rep.violation('R3', loc(lmod, body[idx_store]), 'Labels._set_fields', 'store precedes validation',
                      'the field is stored before it is validated: a rejected value stays in the object')
    # Capacities._set_fields: the non-negative int asserts precede the store
    caps = prog.cls(CAPS)
    csf = caps.methods.get('_set_fields')
    asserts = [n for n in ast.walk(csf) if isinstance(n, ast.Assert)]
    stores = [n for n in ast.walk(csf) if isinstance(n, ast.Call) and call_name(n) == '__setattr__']
    atxt = ' ; '.join(ast.unparse(a.test) for a in asserts)
    rep.instance('R3', f'Capacities._set_fields: asserts [{atxt}] before {len(stores)} store(s)')
    if 'isinstance(v, int)' not in atxt or '>= 0' not in atxt.replace('v>=0', 'v >= 0'):
        rep.violation('R3', loc(caps.module, csf), 'Capacities._set_fields', 'non-negative int assertion missing',
                      'Capacities no longer asserts that every value is a non-negative int')
    elif stores and asserts and max(a.lineno for a in asserts) > min(s.lineno for s in stores):
        rep.violation('R3', loc(caps.module, csf), 'Capacities._set_fields', 'store precedes assertion',
                      'Capacities stores the value before asserting it is a non-negative int')

    # Tags: constructor checks each tag before appending; from_json goes through the constructor
    tinit = tags.methods.get('__init__')
    appends = [n for n in ast.walk(tinit) if isinstance(n, ast.Call) and call_name(n) == 'append']
    for ap in appends:
        st = ap
        while not isinstance(st, ast.stmt):
            st = st._parent
        blk = st._parent.body if hasattr(st._parent, 'body') and st in st._parent.body else st._parent.orelse
        i = blk.index(st)
        prev_calls = [call_name(c) for s in blk[:i] for c in ast.walk(s) if isinstance(c, ast.Call)]
        rep.instance('R3', f'Tags.__init__: {norm(ap)} preceded by {[c for c in prev_calls if c]}')
        if '_check' not in prev_calls:
            rep.violation('R3', loc(tags.module, ap), 'Tags.__init__', norm(ap),
                          'a tag is appended without being checked first')
    tfj = tags.methods.get('from_json')
    if not any(isinstance(n, ast.Call) and isinstance(n.func, ast.Name) and n.func.id == 'cls' for n in ast.walk(tfj)):
        rep.violation('R3', loc(tags.module, tfj), 'Tags.from_json', 'does not construct through cls(...)',
                      'Tags.from_json no longer builds the value through the checking constructor')
    rep.instance('R3', 'Tags.from_json -> cls(d)')
    chk = tags.methods.get('_check')
    ctxt = ast.unparse(chk)
    if 'isinstance(tag, str)' not in ctxt or not any(isinstance(n, ast.Raise) for n in ast.walk(chk)):
        rep.violation('R3', loc(tags.module, chk), 'Tags._check', 'type/raise missing', 'Tags._check no longer rejects')

    # set_name: check before store; set_property/set_properties dispatch through the setters
    sn = base.methods.get('set_name')
    store_line = None
    check_line = None
    for n in ast.walk(sn):
        if isinstance(n, ast.Assign) and any(ast.unparse(t) == 'self.resource_name' for t in n.targets):
            store_line = n.lineno
        if isinstance(n, ast.Raise):
            check_line = n.lineno
    rep.instance('R3', f'BaseSliver.set_name: raise@{check_line} store@{store_line}')
    if store_line is None or check_line is None or check_line > store_line:
        rep.violation('R3', loc(base.module, sn), 'BaseSliver.set_name', 'name stored before / without validation',
                      'set_name stores the name before (or without) matching it against NAME_REGEX')
    for c in prog.subclasses(base, strict=True):
        if 'set_name' in c.methods:
            rep.violation('R3', loc(c.module, c.methods['set_name']), f'{c.name}.set_name', 'override of set_name',
                          f'{c.name} overrides set_name; the override is not known to validate the name')
    for mname in ('set_property', 'set_properties'):
        fn = base.methods.get(mname)
        txt = ast.unparse(fn)
        rep.instance('R3', f'BaseSliver.{mname} dispatches through set_<name>')
        if "'set_' +" not in txt and '"set_" +' not in txt:
            rep.violation('R3', loc(base.module, fn), f'BaseSliver.{mname}', 'does not dispatch through setters',
                          f'{mname} no longer dispatches through the set_<name> methods (validation lives there)')

    # ---- R5: sizes ----
    jd = prog.cls(JSONDATA)
    ji = jd.methods.get('__init__')
    if ji is None:
        raise AnalysisError('JSONData.__init__ vanished')
    # find the branches: each branch that stores self._data from caller data must compare len(<stored>) with MAX_SIZE
    def branch_info(stmts):
        stored = None
        measured = []
        order_ok = True
        store_line = None
        for st in stmts:
            for n in ast.walk(st):
                if isinstance(n, ast.Assign) and any(ast.unparse(t) == 'self._data' for t in n.targets):
                    stored = n.value
                    store_line = n.lineno
                if isinstance(n, ast.Compare) and 'MAX_SIZE' in ast.unparse(n):
                    for c in ast.walk(n):
                        if isinstance(c, ast.Call) and isinstance(c.func, ast.Name) and c.func.id == 'len' and c.args:
                            measured.append((ast.unparse(c.args[0]), n.lineno))
        return stored, measured, store_line
    top_if = [s for s in ji.body if isinstance(s, ast.If)]
    if len(top_if) != 1:
        raise AnalysisError('JSONData.__init__: expected one if/elif/else chain')
    chain = []
    cur = top_if[0]
    while True:
        chain.append((cur.test, cur.body))
        if len(cur.orelse) == 1 and isinstance(cur.orelse[0], ast.If):
            cur = cur.orelse[0]
        else:
            chain.append((None, cur.orelse))
            break
    for test, body in chain:
        stored, measured, store_line = branch_info(body)
        if stored is None:
            continue
        if isinstance(stored, ast.Constant):
            continue    # default "{}"
        stxt = ast.unparse(stored)
        rep.instance('R5', f'JSONData.__init__[{norm(test, 50) if test is not None else "else"}]: stores {stxt[:40]}, '
                           f'measures {[m for m, _ in measured]}')
        if not measured:
            rep.violation('R5', loc(jd.module, body[0]), 'JSONData.__init__', f'branch storing {stxt[:40]} has no size test',
                          f'the branch storing {stxt} into _data no longer compares its length with MAX_SIZE')
            continue
        for mtxt, mline in measured:
            # measured must be the stored string: either the same name (string branch) or self._data (object branch)
            if isinstance(stored, ast.Name):
                ok = mtxt == stored.id or mtxt == 'self._data'
                if ok and mtxt == stored.id and mline > store_line:
                    ok = True
            else:
                ok = mtxt == 'self._data' and mline >= store_line
            if not ok:
                rep.violation('R5', loc(jd.module, body[0]), 'JSONData.__init__',
                              f'measures len({mtxt}) but stores {stxt[:40]}',
                              f'the size limit is checked on len({mtxt}) while the stored text is {stxt}: the limit no '
                              f'longer bounds the stored encoding')
    # validity (json.loads) on the string branch
    if 'json.loads(data)' not in ast.unparse(ji):
        rep.violation('R5', loc(jd.module, ji), 'JSONData.__init__', 'no JSON validity test',
                      'a JSON string is stored without being parsed first')
    for c in prog.subclasses(jd, strict=True):
        rep.instance('R5', f'{c.name}.MAX_SIZE')
        owner, e = c.find_assign('MAX_SIZE')
        if owner is None:
            rep.violation('R5', loc(c.module, c.node), c.name, 'no MAX_SIZE', f'{c.name} defines no MAX_SIZE')
    sb = base.methods.get('set_boot_script')
    stxt = ast.unparse(sb)
    rep.instance('R5', 'BaseSliver.set_boot_script: size assertion before store')
    asserts = [n for n in ast.walk(sb) if isinstance(n, ast.Assert)]
    stores = [n for n in ast.walk(sb) if isinstance(n, ast.Assign)]
    if not asserts or 'len(boot_script)' not in ast.unparse(asserts[0]) or 'BOOST_SCRIPT_SIZE' not in ast.unparse(asserts[0]) \
            or (stores and asserts[0].lineno > stores[0].lineno):
        rep.violation('R5', loc(base.module, sb), 'BaseSliver.set_boot_script', 'size assertion missing or after the store',
                      'set_boot_script no longer asserts the script length before storing it')


def _holds_labels(cls):
    return False


CL = 'fim/slivers/capacities_labels.py'
MUTANTS = [
    {'name': 'labels-scalar-fullmatch-to-match', 'file': CL, 'rule': 'R1',
     'find': 'matches = re.fullmatch(self.VALIDATORS[k][0], v)', 'replace': "matches = re.match('^' + self.VALIDATORS[k][0] + '$', v)"},
    {'name': 'tags-fullmatch-to-match', 'file': 'fim/slivers/tags.py', 'rule': 'R1',
     'find': 'Tags.compiled_pattern.fullmatch(tag)', 'replace': 'Tags.compiled_pattern.match(tag)'},
    {'name': 'name-fullmatch-to-match', 'file': 'fim/slivers/base_sliver.py', 'rule': 'R1',
     'find': 're.fullmatch(self.NAME_REGEX, resource_name)', 'replace': 're.match(self.NAME_REGEX, resource_name)'},
    {'name': 'bdf-dot-unescaped', 'file': CL, 'rule': 'R2', 'find': "{2}\\.[0-9a-fA-F]+'", 'replace': "{2}.[0-9a-fA-F]+'"},
    {'name': 'validator-key-misspelled', 'file': CL, 'rule': 'R4',
     'find': "        'usb_id': (r'[0-9a-f]{4}:[0-9a-f]{4}'", 'replace': "        'usbid': (r'[0-9a-f]{4}:[0-9a-f]{4}'"},
    {'name': 'validation-conditional-on-forgiving', 'file': CL, 'rule': 'R3',
     'find': '                if self.VALIDATORS.get(k, None) is not None:', 'replace': '                if not forgiving and self.VALIDATORS.get(k, None) is not None:'},
    {'name': 'update-bypasses-set-fields', 'file': CL, 'rule': 'R3',
     'find': '        inst._set_fields(**kwargs)\n        return inst', 'replace': '        for k, v in kwargs.items():\n            inst.__setattr__(k, v)\n        return inst'},
    {'name': 'boot-script-size-dropped', 'file': 'fim/slivers/base_sliver.py', 'rule': 'R5',
     'find': '(isinstance(boot_script, str) and len(boot_script) < self.BOOST_SCRIPT_SIZE))', 'replace': 'isinstance(boot_script, str))'},
]
TWINS = [
    {'name': 'Z-anchored-match', 'file': 'fim/slivers/tags.py',
     'find': 'TAG_PATTERN="^[\\\\w-]{1,255}$"\n    compiled_pattern = re.compile(TAG_PATTERN)',
     'replace': 'TAG_PATTERN="^[\\\\w-]{1,255}\\\\Z"\n    compiled_pattern = re.compile(TAG_PATTERN)'},
]
