"""
C12 -- delegations and pools survive encoding and regrouping unchanged.

R1 guarded writes: delegation details only behind the PoolReference / type guards; the delegations table only behind a
   duplicate test evaluated on the live table and the type test; nobody else writes those fields
R2 to_json / from_json use the same key constants and handle all three formats; type <-> field <-> class agreement
R3 pool regrouping: generate writes and incorporate reads the same fields; the delegation index is rebuilt from scratch;
   conflicts are checked before anything is written to the graph; pool validation covers all four fields
"""
import ast

from ..core import AnalysisError, norm, loc, walk_no_nested, attr_chain, call_name
from ..cfg import CFG

DELS = 'fim.slivers.delegations'
ARM = 'fim.graph.resources.abc_arm:ABCARMPropertyGraph'


def run(prog, rep):
    rep.extra['explanation'] = (
        'Guard dominance of the two field writes on the CFG, who-may-write over the whole package, key-constant and '
        'format agreement between the delegation encoder and decoder, field agreement between the two directions of '
        'pool regrouping, unconditional index rebuild, check-before-write in the ARM annotation. The algebraic identity '
        'pools -> delegations -> pools is not decided.')
    rep.rule('R1', 'delegation field writes are guarded and confined', floor=4)
    rep.rule('R2', 'delegation encoder/decoder agree on keys, formats and types', floor=8)
    rep.rule('R3', 'pool regrouping agreement, index rebuild, check before write', floor=8)

    mod = prog.module(DELS)
    deleg = mod.classes.get('Delegation')
    delegs = mod.classes.get('Delegations')
    pools = mod.classes.get('Pools')
    pool = mod.classes.get('Pool')
    if not all((deleg, delegs, pools, pool)):
        raise AnalysisError('delegation classes vanished')

    # ---- R1 set_details ----
    sd = deleg.methods.get('set_details')
    cfg = CFG(sd)
    stores = [n for n in cfg.nodes if n.kind == 'stmt' and isinstance(n.ast, ast.Assign) and
              any(ast.unparse(t) == 'self.delegation_details' for t in n.ast.targets)]
    tests = [n for n in cfg.nodes if n.kind == 'test' and n.tag == 'if']
    ref_guard = [t for t in tests if 'PoolReference' in ast.unparse(t.ast)]
    type_guard = [t for t in tests if 'DelegationType.CAPACITY' in ast.unparse(t.ast) and 'DelegationType.LABEL' in ast.unparse(t.ast)]
    for st in stores:
        rep.instance('R1', f'Delegation.set_details: {norm(st.ast)}')
        if not ref_guard or not cfg.edge_dominates(ref_guard[0], 'f', st):
            rep.violation('R1', loc(mod, st.ast), 'Delegation.set_details', 'details stored without the PoolReference guard',
                          'details can be attached to a pool *reference* (which must carry none)')
        if not type_guard or not cfg.edge_dominates(type_guard[0], 'f', st):
            rep.violation('R1', loc(mod, st.ast), 'Delegation.set_details', 'details stored without the type guard',
                          'Capacities can be attached to a LABEL delegation or Labels to a CAPACITY delegation')
    if type_guard:
        t = ast.unparse(type_guard[0].ast).replace(' ', '')
        want1 = 'isinstance(caporlab,Labels)andself.type==DelegationType.CAPACITY'
        want2 = 'isinstance(caporlab,Capacities)andself.type==DelegationType.LABEL'
        if want1 not in t or want2 not in t:
            rep.violation('R1', loc(mod, type_guard[0].ast), 'Delegation.set_details', norm(type_guard[0].ast, 140),
                          'the type guard must reject Labels on CAPACITY and Capacities on LABEL')
    if not stores:
        raise AnalysisError('Delegation.set_details no longer stores delegation_details')

    # ---- R1 add_delegations ----
    ad = delegs.methods.get('add_delegations')
    loops = [n for n in ad.body if isinstance(n, ast.For)]
    if len(loops) != 1:
        raise AnalysisError('Delegations.add_delegations: loop not found')
    loop = loops[0]
    store = [n for n in ast.walk(loop) if isinstance(n, ast.Assign) and isinstance(n.targets[0], ast.Subscript)
             and ast.unparse(n.targets[0].value) == 'self.delegations']
    rep.instance('R1', f'Delegations.add_delegations: {norm(store[0]) if store else "?"}')
    if not store:
        rep.violation('R1', loc(mod, ad), 'Delegations.add_delegations', 'no store into self.delegations in the loop',
                      'delegations are not added one by one inside the checking loop')
    else:
        st = store[0]
        # duplicate guard: an `if <test>: raise` earlier in the same loop body whose test reads self.delegations
        pos = loop.body.index(st) if st in loop.body else len(loop.body)
        dup = [n for n in loop.body[:pos] if isinstance(n, ast.If) and any(isinstance(x, ast.Raise) for x in n.body)]
        live = [n for n in dup if 'self.delegations' in ast.unparse(n.test) and 'delegation_id' in ast.unparse(n.test)]
        typ = [n for n in dup if 'get_delegation_type()' in ast.unparse(n.test) or 'self.type' in ast.unparse(n.test)]
        typ_assert = [n for n in loop.body[:pos] if isinstance(n, ast.Assert) and 'get_delegation_type()' in ast.unparse(n.test)]
        if not live:
            rep.violation('R1', loc(mod, st), 'Delegations.add_delegations', 'duplicate test does not read the live table',
                          'the duplicate-id test preceding the store does not consult self.delegations itself (e.g. it uses '
                          'a snapshot taken before the loop): two delegations with the same id passed in one call are both '
                          'accepted and the second silently replaces the first')
        if not typ and not typ_assert:
            rep.violation('R1', loc(mod, st), 'Delegations.add_delegations', 'no type test before the store',
                          'a delegation of the other type can be added')
    # who may write
    for m, cls, fn in prog.all_functions():
        for n in walk_no_nested(fn):
            if isinstance(n, ast.Assign):
                for t in n.targets:
                    txt = ast.unparse(t)
                    hit = None
                    if isinstance(t, ast.Attribute) and t.attr == 'delegation_details':
                        hit = 'delegation_details'
                    if isinstance(t, ast.Subscript) and isinstance(t.value, ast.Attribute) and t.value.attr == 'delegations':
                        hit = 'delegations[...]'
                    if hit:
                        fq = (cls.name + '.' if cls else '') + fn.name
                        rep.instance('R1', f'write of {hit} in {fq}')
                        allowed = {'Delegation.__init__', 'Delegation.set_details', 'Delegations.add_delegations',
                                   'ABCADMPropertyGraph.rewrite_delegations'}
                        if fq not in allowed:
                            rep.violation('R1', loc(m, n), fq, norm(n),
                                          f'{fq} writes {hit} directly, bypassing the guards of set_details / add_delegations '
                                          f'(only rewrite_delegations may re-key one entry)')

    # ---- R2 encoder / decoder ----
    tj = delegs.methods.get('to_json')
    fj = delegs.methods.get('from_json')
    def field_consts(fn):
        return sorted({n.attr for n in ast.walk(fn) if isinstance(n, ast.Attribute) and
                       (n.attr.startswith('FIELD_') or n.attr == 'SINGLE_POOL_NAME')})
    wk, rk = field_consts(tj), field_consts(fj)
    rep.instance('R2', f'to_json constants {wk}; from_json constants {rk}')
    if wk != rk:
        rep.violation('R2', loc(mod, fj), 'Delegations.from_json', f'written {wk} read {rk}',
                      'the encoder and decoder of delegations do not use the same key constants')
    fmts = prog.enum_members(mod.classes['DelegationFormat'])
    for f in fmts:
        w = any(isinstance(n, ast.Compare) and f'DelegationFormat.{f}' in ast.unparse(n) for n in ast.walk(tj))
        r = any(isinstance(n, ast.Assign) and f'DelegationFormat.{f}' in ast.unparse(n.value) for n in ast.walk(fj))
        rep.instance('R2', f'format {f}: encoded={w} decoded={r}')
        if not w:
            rep.violation('R2', loc(mod, tj), 'Delegations.to_json', f'format {f} not encoded', f'{f} delegations are dropped on encode')
        if not r:
            rep.violation('R2', loc(mod, fj), 'Delegations.from_json', f'format {f} not decoded', f'{f} delegations cannot be decoded')
    # branch-wise keys of to_json
    want = {'SinglePool': {'FIELD_POOL_ID', 'SINGLE_POOL_NAME', 'FIELD_CAPACITIES', 'FIELD_LABELS'},
            'PoolDefinition': {'FIELD_POOL_ID', 'FIELD_CAPACITIES', 'FIELD_LABELS'},
            'PoolReference': {'FIELD_POOL'}}
    for n in ast.walk(tj):
        if isinstance(n, ast.If) and isinstance(n.test, ast.Compare):
            for f in fmts:
                if f'DelegationFormat.{f}' in ast.unparse(n.test):
                    got = {a.attr for s in n.body for a in ast.walk(s) if isinstance(a, ast.Attribute) and
                           (a.attr.startswith('FIELD_') or a.attr == 'SINGLE_POOL_NAME')}
                    rep.instance('R2', f'to_json[{f}] writes {sorted(got)}')
                    if got != want[f]:
                        rep.violation('R2', loc(mod, n), 'Delegations.to_json', f'{f}: writes {sorted(got)}',
                                      f'a {f} delegation must be encoded with exactly {sorted(want[f])}')
                    # pool name source
                    if f == 'PoolDefinition' and 'v.get_pool_name()' not in ast.unparse(n.body):
                        rep.violation('R2', loc(mod, n), 'Delegations.to_json', 'PoolDefinition: pool id not from get_pool_name()', 'pool name lost')
                    if f == 'PoolReference' and 'v.get_pool_name()' not in ast.unparse(n.body):
                        rep.violation('R2', loc(mod, n), 'Delegations.to_json', 'PoolReference: pool not from get_pool_name()', 'pool name lost')
    # type <-> field <-> class in both directions
    for fn, fname in ((tj, 'to_json'), (fj, 'from_json')):
        for n in ast.walk(fn):
            if isinstance(n, ast.If) and isinstance(n.test, ast.Compare) and 'DelegationType.CAPACITY' in ast.unparse(n.test) \
                    and isinstance(n.test.ops[0], ast.Eq):
                b = ast.unparse(n.body)
                o = ast.unparse(n.orelse)
                rep.instance('R2', f'{fname}: CAPACITY branch {norm(n.body[0], 80)}')
                if 'FIELD_CAPACITIES' not in b or 'FIELD_LABELS' not in o or 'FIELD_LABELS' in b:
                    rep.violation('R2', loc(mod, n), f'Delegations.{fname}', 'type/field pairing',
                                  'CAPACITY delegations must use the capacities field and LABEL delegations the labels field')
                if fname == 'from_json' and ('Capacities(' not in b or 'Labels(' not in o):
                    rep.violation('R2', loc(mod, n), 'Delegations.from_json', 'type/class pairing',
                                  'CAPACITY details must be rebuilt as Capacities and LABEL details as Labels')
    # from_json builds through the guarded API
    ftxt = ast.unparse(fj)
    rep.instance('R2', 'from_json builds through Delegation(...), set_details, add_delegations')
    for need in ('Delegation(atype=atype, delegation_id=k, aformat=format, pool_id=pool_id)', 'd.set_details(caporlab)', 'ds.add_delegations(d)'):
        if need not in ftxt:
            rep.violation('R2', loc(mod, fj), 'Delegations.from_json', f'missing {need}',
                          'decoding must rebuild each entry with its id, format and pool id through the guarded setters')

    # ---- R3 ----
    gen = pools.methods.get('generate_delegations_by_node_id')
    inc = pools.methods.get('incorporate_delegation')
    gtxt, itxt = ast.unparse(gen), ast.unparse(inc)
    pairs = [
        ('pool definition keyed by the delegation id', "aformat=DelegationFormat.PoolDefinition, pool_id=pool.get_pool_id()", gtxt),
        ('definition details from the pool', 'pd.set_details(pool.get_pool_details())', gtxt),
        ('definition placed on the defining node', 'node = pool.get_defined_on()', gtxt),
        ('reference on each node the pool applies to', 'for node in pool.get_defined_for()', gtxt),
        ('reference format / pool id', 'aformat=DelegationFormat.PoolReference, pool_id=pool.get_pool_id()', gtxt),
        ('both carry the delegation id', 'delegation_id=delegation_id', gtxt),
        ('incorporate: definition -> defined_on', 'p.set_defined_on(node_id)', itxt),
        ('incorporate: definition -> details', 'p.set_pool_details(d.get_details())', itxt),
        ('incorporate: reference -> defined_for', 'p.add_defined_for(node_id)', itxt),
        ('incorporate: delegation id recorded', 'p.set_delegation_id(delegation_id=d.get_delegation_id())', itxt),
        ('incorporate: pool looked up by name', 'self.get_pool_by_id(pool_id=d.get_pool_name())', itxt),
        ('incorporate: second definition rejected', 'if p.get_defined_on() is not None', itxt),
    ]
    for what, need, txt in pairs:
        rep.instance('R3', what)
        if need not in txt:
            fn = gen if txt is gtxt else inc
            rep.violation('R3', loc(mod, fn), f'Pools.{fn.name}', f'{what}: expected `{need}`',
                          f'pool regrouping no longer carries this field in both directions ({what})')
    if itxt.count('p.set_delegation_id(') < 2:
        rep.violation('R3', loc(mod, inc), 'Pools.incorporate_delegation', 'delegation id not recorded for both formats',
                      'the delegation id must be recorded from definitions and from references')
    # index rebuilt from scratch
    bi = pools.methods.get('build_index_by_delegation_id')
    first = bi.body[0] if not isinstance(bi.body[0], ast.Expr) else bi.body[1]
    rep.instance('R3', f'build_index_by_delegation_id starts with {norm(first)}')
    ok = isinstance(first, ast.Assign) and ast.unparse(first.targets[0]) == 'self.pools_by_delegation' and \
        ast.unparse(first.value) in ('{}', 'dict()')
    if not ok:
        rep.violation('R3', loc(mod, bi), 'Pools.build_index_by_delegation_id', 'index not reset unconditionally',
                      'the per-delegation index must be rebuilt from an empty dict on every call; otherwise re-indexing '
                      'after adding a pool or changing a delegation id lists pools twice or under a stale id')
    btxt = ast.unparse(bi)
    if 'pool.validate_pool()' not in btxt or 'for pool in self.pool_by_id.values()' not in btxt:
        rep.violation('R3', loc(mod, bi), 'Pools.build_index_by_delegation_id', 'does not validate and index every pool',
                      'every pool must be validated and indexed')
    vp = pool.methods.get('validate_pool')
    vtxt = ast.unparse(vp)
    for need in ('self.delegation_id is None', 'self.get_defined_on() is None', 'self.get_defined_for()', 'self.get_pool_details() is None'):
        rep.instance('R3', f'validate_pool tests {need}')
        if need not in vtxt:
            rep.violation('R3', loc(mod, vp), 'Pool.validate_pool', f'{need} not tested', 'an incomplete pool passes validation')
    # annotate: conflict check before any write
    arm = prog.cls(ARM)
    an = arm.methods.get('annotate_delegations_and_pools')
    raises = [n.lineno for n in ast.walk(an) if isinstance(n, ast.Raise)]
    writes = [n.lineno for n in ast.walk(an) if isinstance(n, ast.Call) and call_name(n) == 'update_node_property']
    rep.instance('R3', f'annotate_delegations_and_pools: raise lines {raises} write lines {writes}')
    if not raises or not writes or max(raises) > min(writes):
        rep.violation('R3', loc(arm.module, an), 'ABCARMPropertyGraph.annotate_delegations_and_pools', 'conflict check does not precede all writes',
                      'a node that has both a pool entry and a single delegation must be rejected before any property is written')
    atxt = ast.unparse(an)
    if 'PROP_CAPACITY_DELEGATIONS' not in atxt or 'PROP_LABEL_DELEGATIONS' not in atxt or 'DelegationType.CAPACITY' not in atxt:
        rep.violation('R3', loc(arm.module, an), 'ABCARMPropertyGraph.annotate_delegations_and_pools', 'type/property pairing',
                      'capacity delegations must be written to CapacityDelegations and label delegations to LabelDelegations')
    else:
        for n in ast.walk(an):
            if isinstance(n, ast.If) and 'DelegationType.CAPACITY' in ast.unparse(n.test) and isinstance(n.test.ops[0], ast.Eq):
                if 'PROP_CAPACITY_DELEGATIONS' not in ast.unparse(n.body) or 'PROP_LABEL_DELEGATIONS' not in ast.unparse(n.orelse):
                    rep.violation('R3', loc(arm.module, n), 'ABCARMPropertyGraph.annotate_delegations_and_pools', 'type/property pairing crossed',
                                  'capacity delegations must be written to CapacityDelegations and label delegations to LabelDelegations')


DF = 'fim/slivers/delegations.py'
MUTANTS = [
    {'name': 'pool-reference-guard-dropped', 'file': DF, 'rule': 'R1',
     'find': "        if self.format == DelegationFormat.PoolReference:\n            raise DelegationException(msg=f'Trying to add Labels or Capacities object to PoolReference delegation')\n", 'replace': ''},
    {'name': 'duplicate-guard-dropped', 'file': DF, 'rule': 'R1',
     'find': "            if self.delegations.get(delegation.delegation_id, None) is not None:\n                raise DelegationException(msg=f'Delegation with id {delegation.delegation_id} is already present')\n", 'replace': ''},
    {'name': 'reference-encoded-under-pool-id', 'file': DF, 'rule': 'R2',
     'find': '                inner_dict[ABCPropertyGraphConstants.FIELD_POOL] = v.get_pool_name()', 'replace': '                inner_dict[ABCPropertyGraphConstants.FIELD_POOL_ID] = v.get_pool_name()'},
    {'name': 'decode-labels-as-capacities', 'file': DF, 'rule': 'R2',
     'find': '                    caporlab = Labels(**caporlabdict)', 'replace': '                    caporlab = Capacities(**caporlabdict)'},
    {'name': 'reference-loses-delegation-id', 'file': DF, 'rule': 'R3',
     'find': '                p.add_defined_for(node_id)\n                p.set_delegation_id(delegation_id=d.get_delegation_id())', 'replace': '                p.add_defined_for(node_id)'},
    {'name': 'definition-on-defined-for', 'file': DF, 'rule': 'R3',
     'find': '                node = pool.get_defined_on()\n', 'replace': '                node = next(iter(pool.get_defined_for()))\n'},
]
TWINS = [
    {'name': 'duplicate-test-with-in', 'file': DF,
     'find': '            if self.delegations.get(delegation.delegation_id, None) is not None:', 'replace': '            if delegation.delegation_id in self.delegations:'},
]
