"""
C12 -- delegations and pools survive encoding and regrouping unchanged.

R1 guarded writes: delegation details only behind the PoolReference / type guards; the delegations table only behind a
   duplicate test evaluated on the live table and the type test; nobody else writes those fields
R2 to_json / from_json use the same key constants and handle all three formats; type <-> field <-> class agreement
R3 pool regrouping: generate writes and incorporate reads the same fields; the delegation index is rebuilt from scratch;
   conflicts are checked before anything is written to the graph; pool validation covers all four fields
"""
import ast

from ..core import AnalysisError, norm, loc, walk_no_nested, attr_chain, call_name, kwarg, find_calls, call_matches, receiver_name, assigned_from
from ..cfg import CFG
from ..core import func_params
from ..normalize import inline, branch_values, merge_outcomes, Unknown, ctext, canon, local_env, expand, builders, eval_test, value_under, _enclosing, conjuncts, truth_under, clone, split_target_ifexp

DELS = 'fim.slivers.delegations'
ARM = 'fim.graph.resources.abc_arm:ABCARMPropertyGraph'


class _Row:
    def __init__(self, outcome, value):
        self.stmt = outcome.stmt
        self.value = value


def check_decoder_rejections(prog, rep, rule):
    """Delegations.from_json, evaluated for the key sets an entry can carry: an entry holding the details field of the other
    delegation type next to its own, and a pool reference that carries details, must end in a rejection (a raise), whatever
    the branching style of the decoder."""
    mod = prog.module(DELS)
    delegs = mod.classes.get('Delegations')
    fj = delegs.methods.get('from_json')
    if fj is None:
        raise AnalysisError('Delegations.from_json vanished')
    fji = inline(prog, delegs, fj)
    loops = [l for l in walk_no_nested(fji) if isinstance(l, ast.For) and isinstance(l.target, ast.Tuple) and len(l.target.elts) == 2 and
             isinstance(l.iter, ast.Call) and call_name(l.iter) == 'items']
    if not loops:
        raise AnalysisError('Delegations.from_json: entry loop not found')
    loop = loops[0]
    ev = l_val = loop.target.elts[1].id
    fold = lambda e_: prog.const_eval(e_, mod, delegs)

    def sink(st):
        if isinstance(st, ast.Raise):
            return ast.Constant(value='reject')
        return None
    try:
        outs = branch_values(loop.body, sink, local_env(fji))
    except Unknown as u:
        raise AnalysisError(f'Delegations.from_json not analysable: {u}')
    FIELDS = {'pool_id': 'FIELD_POOL_ID', 'pool': 'FIELD_POOL', 'capacities': 'FIELD_CAPACITIES', 'labels': 'FIELD_LABELS'}
    fvals = {}
    for nm, const in FIELDS.items():
        try:
            fvals[prog.const_eval(ast.parse(f'ABCPropertyGraphConstants.{const}', mode='eval').body, mod, delegs)] = nm
        except Exception:
            raise AnalysisError(f'constant {const} does not fold')

    def subst(cond, present, atype):
        """the condition with the membership tests on the entry decided for the key set ``present``"""
        c2 = clone(cond)

        class _S(ast.NodeTransformer):
            def visit_Compare(self, n):
                self.generic_visit(n)
                if len(n.ops) == 1 and isinstance(n.ops[0], (ast.In, ast.NotIn)):
                    r = n.comparators[0]
                    if isinstance(r, ast.Call) and call_name(r) == 'keys' and not r.args:
                        r = r.func.value
                    if isinstance(r, ast.Name) and r.id == ev:
                        try:
                            fv = fold(n.left)
                        except Exception:
                            return n
                        if fv in fvals:
                            val = (fvals[fv] in present)
                            return ast.Constant(value=val if isinstance(n.ops[0], ast.In) else not val)
                return n
        return _S().visit(c2)
    cases = [('mixed content, capacity delegations', {'pool_id', 'capacities', 'labels'}, 'CAPACITY'),
             ('mixed content, label delegations', {'pool_id', 'capacities', 'labels'}, 'LABEL'),
             ('capacity details on a pool reference', {'pool', 'capacities'}, 'CAPACITY'),
             ('label details on a pool reference', {'pool', 'labels'}, 'LABEL'),
             ('label details on a pool reference, capacity delegations', {'pool', 'labels'}, 'CAPACITY'),
             ('capacity details on a pool reference, label delegations', {'pool', 'capacities'}, 'LABEL')]
    for what, present, atype in cases:
        bind = {'atype': prog.const_eval(ast.parse(f'DelegationType.{atype}', mode='eval').body, mod, delegs)}
        rejected = False
        for o in outs:
            allt = True
            for n_ in o.cond_nodes:
                try:
                    if not truth_under(subst(n_, present, atype), bind, fold):
                        allt = False
                        break
                except Unknown:
                    allt = False
                    break
                except Exception:
                    allt = False
                    break
            if allt:
                rejected = True
                break
        rep.instance(rule, f'Delegations.from_json: entry with keys {sorted(present)} decoded as {atype}: rejected={rejected}')
        if not rejected:
            rep.violation(rule, loc(mod, fj), 'Delegations.from_json', f'{what} accepted',
                          f'an entry with the keys {sorted(present)} is decoded as a {atype} delegation without being rejected: the extra content '
                          f'is silently dropped, although {what.split(",")[0]} must always be refused')


def check_delegation_codec(prog, rep, rule):
    """Encoder / decoder of a Delegations value agree (key constants, formats, type <-> field <-> class) and every decoded
    entry is determined within its own iteration. Shared with C13 (the partitioning writes per-id subsets through this codec)."""
    mod = prog.module(DELS)
    delegs = mod.classes.get('Delegations')
    if delegs is None:
        raise AnalysisError('Delegations class vanished')
    # ---- R2 encoder / decoder ----
    tj = delegs.methods.get('to_json')
    fj = delegs.methods.get('from_json')
    fmts = prog.enum_members(mod.classes['DelegationFormat'])
    # ---- the encoder as a table: (format, type) -> {key constant: value}, from the path-sensitive evaluation of to_json ----
    tji = inline(prog, delegs, tj)
    fji = inline(prog, delegs, fj)

    def const_name(e):
        return e.attr if isinstance(e, ast.Attribute) and (e.attr.startswith('FIELD_') or e.attr == 'SINGLE_POOL_NAME') else None

    def fmt_of_conds(conds):
        hit = [f for f in fmts for c in conds if isinstance(c, ast.Compare) and len(c.ops) == 1 and isinstance(c.ops[0], ast.Eq) and
               any(isinstance(x, ast.Attribute) and x.attr == f and ast.unparse(x.value) == 'DelegationFormat' for x in (c.left, c.comparators[0]))]
        return hit[0] if len(set(hit)) == 1 else None

    def type_of_conds(conds):
        for c in conds:
            if isinstance(c, ast.Compare) and len(c.ops) == 1 and isinstance(c.ops[0], (ast.Eq, ast.NotEq)):
                for x in (c.left, c.comparators[0]):
                    if isinstance(x, ast.Attribute) and ast.unparse(x.value) == 'DelegationType' and x.attr in ('CAPACITY', 'LABEL'):
                        pos = isinstance(c.ops[0], ast.Eq)
                        return x.attr if pos else ('LABEL' if x.attr == 'CAPACITY' else 'CAPACITY')
        return None
    dict_names = {n.targets[0].value.id for n in ast.walk(tji) if isinstance(n, ast.Assign) and isinstance(n.targets[0], ast.Subscript)
                  and isinstance(n.targets[0].value, ast.Name) and const_name(n.targets[0].slice)}

    def enc_sink(st):
        if isinstance(st, ast.Assign) and len(st.targets) == 1 and isinstance(st.targets[0], ast.Subscript) and \
                isinstance(st.targets[0].value, ast.Name) and st.targets[0].value.id in dict_names:
            return (st.targets[0].slice, st.value)
        return None
    try:
        enc = merge_outcomes(branch_values(tji.body, enc_sink, follow_loops=True))
    except Unknown as u:
        raise AnalysisError(f'Delegations.to_json not analysable: {u}')
    consts_cls = prog.cls('fim.graph.abc_property_graph_constants:ABCPropertyGraphConstants')
    field_name_of = {}
    for cn, ce in consts_cls.assigns.items():
        if cn.startswith('FIELD_') or cn == 'SINGLE_POOL_NAME':
            try:
                field_name_of[prog.const_eval(ce, consts_cls.module, consts_cls)] = cn
            except Exception:
                pass
    fold_d = lambda e_: prog.const_eval(e_, mod, delegs)
    tenv = local_env(tji)
    # the expressions the encoder discriminates on
    fmt_exprs = sorted({ctext(x) for o in enc for n in o.cond_nodes for x in ast.walk(n) if isinstance(x, ast.Call) and call_name(x) == 'get_format'})
    type_exprs = ['self.type']
    dtypes = prog.enum_members(mod.classes['DelegationType'])
    EM = lambda en, nm: prog.const_eval(ast.parse(f'{en}.{nm}', mode='eval').body, mod, delegs)
    table = {}
    for o in enc:
        for f in fmts:
            for t in dtypes:
                bind = {fe: EM('DelegationFormat', f) for fe in fmt_exprs}
                bind.update({te: EM('DelegationType', t) for te in type_exprs})
                try:
                    if not all(eval_test(canon(n), bind, fold_d) for n in o.cond_nodes
                               if any(ctext(x) in bind for x in ast.walk(n))):
                        continue
                    kval = value_under(o.target, bind, fold_d, tenv)
                except Unknown:
                    continue
                kname = field_name_of.get(kval)
                if kname is None:
                    continue
                v = o.value
                try:
                    vv = value_under(v, bind, fold_d)
                    if vv in field_name_of:
                        v = ast.Attribute(value=ast.Name(id='ABCPropertyGraphConstants', ctx=ast.Load()), attr=field_name_of[vv], ctx=ast.Load())
                except Unknown:
                    pass
                table.setdefault(f, []).append((kname, t, _Row(o, v)))
    want = {'SinglePool': {'FIELD_POOL_ID', 'FIELD_CAPACITIES', 'FIELD_LABELS'},
            'PoolDefinition': {'FIELD_POOL_ID', 'FIELD_CAPACITIES', 'FIELD_LABELS'},
            'PoolReference': {'FIELD_POOL'}}

    def is_call_on_entry(v, name):
        return isinstance(v, ast.Call) and call_name(v) == name and not v.args
    for f in fmts:
        rows = table.get(f, [])
        got = {k for k, t, o in rows}
        rep.instance(rule, f'to_json[{f}] writes {sorted(got)}')
        if got != want.get(f, set()):
            rep.violation(rule, loc(mod, tj), 'Delegations.to_json', f'{f}: writes {sorted(got)}',
                          f'a {f} delegation must be encoded with exactly {sorted(want.get(f, set()))}')
        for k, t, o in rows:
            v = o.value
            if k == 'FIELD_POOL_ID' and f == 'SinglePool' and const_name(v) != 'SINGLE_POOL_NAME':
                rep.violation(rule, loc(mod, o.stmt), 'Delegations.to_json', f'SinglePool: pool id written as {ctext(v)}',
                              'a single-resource delegation must be marked with SINGLE_POOL_NAME (the decoder recognises it by that value)')
            if k == 'FIELD_POOL_ID' and f == 'PoolDefinition' and not is_call_on_entry(v, 'get_pool_name'):
                rep.violation(rule, loc(mod, o.stmt), 'Delegations.to_json', 'PoolDefinition: pool id not from get_pool_name()', 'pool name lost')
            if k == 'FIELD_POOL' and not is_call_on_entry(v, 'get_pool_name'):
                rep.violation(rule, loc(mod, o.stmt), 'Delegations.to_json', 'PoolReference: pool not from get_pool_name()', 'pool name lost')
            if k in ('FIELD_CAPACITIES', 'FIELD_LABELS'):
                rep.instance(rule, f'to_json[{f}]: {k} written for type {t}')
                if t != ('CAPACITY' if k == 'FIELD_CAPACITIES' else 'LABEL'):
                    rep.violation(rule, loc(mod, o.stmt), 'Delegations.to_json', 'type/field pairing',
                                  'CAPACITY delegations must use the capacities field and LABEL delegations the labels field')
                if not is_call_on_entry(v, 'get_details_as_dict'):
                    rep.violation(rule, loc(mod, o.stmt), 'Delegations.to_json', f'{k} written as {ctext(v)}', 'the details of the entry are lost')
    written_consts = {k for rows in table.values() for k, t, o in rows} | {const_name(o.value) for rows in table.values() for k, t, o in rows if const_name(o.value)}
    read_consts = {n.attr for n in ast.walk(fji) if isinstance(n, ast.Attribute) and (n.attr.startswith('FIELD_') or n.attr == 'SINGLE_POOL_NAME')}
    rep.instance(rule, f'to_json constants {sorted(written_consts)}; from_json constants {sorted(read_consts)}')
    if written_consts != read_consts:
        rep.violation(rule, loc(mod, fj), 'Delegations.from_json', f'written {sorted(written_consts)} read {sorted(read_consts)}',
                      'the encoder and decoder of delegations do not use the same key constants')
    # ---- the decoder as a table: per entry, (format, pool id, details) decided within the iteration ----
    dloops = [l for l in walk_no_nested(fji) if isinstance(l, ast.For) and any(isinstance(c, ast.Call) and call_name(c) == 'Delegation' for c in ast.walk(l))]
    if len(dloops) != 1:
        raise AnalysisError('Delegations.from_json: loop over the decoded entries not found')
    dl = dloops[0]
    bound = {n.id for n in ast.walk(dl.target) if isinstance(n, ast.Name)} | set(func_params(fji))

    def dec_sink(st):
        for c in walk_no_nested(st):
            if isinstance(c, ast.Call) and call_name(c) == 'Delegation' and isinstance(c.func, ast.Name):
                return (ast.Tuple(elts=[kwarg(c, 'aformat') or ast.Constant(None), kwarg(c, 'pool_id') or ast.Constant(None)], ctx=ast.Load()),
                        ast.Constant(value='ctor'))
            if isinstance(c, ast.Call) and call_name(c) == 'set_details' and c.args:
                return (c.args[0], ast.Constant(value='details'))
        return None
    try:
        dec = split_target_ifexp(merge_outcomes(branch_values(dl.body, dec_sink)))
    except Unknown as u:
        raise AnalysisError(f'Delegations.from_json not analysable: {u}')
    seen_fmt = set()
    for o in dec:
        if o.vtext == "'ctor'":
            fe, pe = o.target.elts
            f = fe.attr if isinstance(fe, ast.Attribute) and ast.unparse(fe.value) == 'DelegationFormat' else None
            rep.instance(rule, f'from_json: entry built as format {ctext(fe)} with pool id {ctext(pe)}')
            stale = [n.id for x in (fe, pe) for n in ast.walk(x) if isinstance(n, ast.Name) and n.id not in bound and n.id[:1].islower()]
            if stale:
                rep.violation(rule, loc(mod, o.stmt), 'Delegations.from_json', f'entry built from {sorted(set(stale))}, not set in this iteration',
                              f'on this path the entry is built with {sorted(set(stale))} as left by an earlier entry (or by the code before '
                              f'the loop): the decoded delegation takes the format / pool name of whatever entry came before it, so the '
                              f'result depends on the order of the entries in the text')
                continue
            if f is None:
                rep.violation(rule, loc(mod, o.stmt), 'Delegations.from_json', f'format {ctext(fe)}', 'the format of a decoded entry is not one of the three formats')
                continue
            seen_fmt.add(f)
            okp = (f == 'SinglePool' and isinstance(pe, ast.Constant) and pe.value is None) or \
                  (f == 'PoolDefinition' and isinstance(pe, ast.Subscript) and const_name(pe.slice) == 'FIELD_POOL_ID') or \
                  (f == 'PoolReference' and isinstance(pe, ast.Subscript) and const_name(pe.slice) == 'FIELD_POOL')
            if not okp:
                rep.violation(rule, loc(mod, o.stmt), 'Delegations.from_json', f'{f}: pool id decoded as {ctext(pe)}',
                              f'a {f} entry must be rebuilt with ' + {'SinglePool': 'no pool name', 'PoolDefinition': 'the pool id field of the entry',
                                                                     'PoolReference': 'the pool field of the entry'}[f])
        else:
            d = o.target
            t = type_of_conds(o.cond_nodes)
            cls_ = call_name(d) if isinstance(d, ast.Call) else None
            fld = [const_name(x.slice) for x in ast.walk(d) if isinstance(x, ast.Subscript) and const_name(x.slice)]
            rep.instance(rule, f'from_json: details rebuilt as {cls_} from {fld} for type {t}')
            okd = (t == 'CAPACITY' and cls_ == 'Capacities' and fld == ['FIELD_CAPACITIES']) or (t == 'LABEL' and cls_ == 'Labels' and fld == ['FIELD_LABELS'])
            if not okd:
                rep.violation(rule, loc(mod, o.stmt), 'Delegations.from_json', 'type/class pairing',
                              'CAPACITY details must be rebuilt as Capacities from the capacities field and LABEL details as Labels from the labels field')
    for f in fmts:
        if f not in seen_fmt:
            rep.violation(rule, loc(mod, fj), 'Delegations.from_json', f'format {f} not decoded', f'{f} delegations cannot be decoded')
    # from_json builds through the guarded API
    floops = [l for l in walk_no_nested(fji) if isinstance(l, ast.For) and isinstance(l.iter, ast.Call) and call_name(l.iter) == 'items']
    if not floops or not isinstance(floops[0].target, ast.Tuple):
        raise AnalysisError('Delegations.from_json: loop over the decoded entries not found')
    kvar = floops[0].target.elts[0].id
    dctor = find_calls(floops[0], 'Delegation', nested=True)
    rep.instance(rule, f'from_json builds each entry with {norm(dctor[0], 100) if dctor else None}')
    ok = len(dctor) == 1 and call_matches(dctor[0], kwargs={'delegation_id': ('name', kvar), 'atype': ('name', None), 'aformat': ('name', None), 'pool_id': ('name', None)})
    sdet = find_calls(floops[0], 'set_details', nested=True)
    addc = find_calls(floops[0], 'add_delegations', nested=True)
    dvar_ = None
    for n in ast.walk(floops[0]):
        if isinstance(n, ast.Assign) and dctor and n.value is dctor[0]:
            dvar_ = n.targets[0].id
    ok = ok and dvar_ is not None and any(receiver_name(c) == dvar_ for c in sdet) and any(call_matches(c, args=[('name', dvar_)]) for c in addc)
    if not ok:
        rep.violation(rule, loc(mod, fj), 'Delegations.from_json', 'entry not rebuilt through Delegation(...), set_details, add_delegations',
                      'decoding must rebuild each entry with its id, format and pool id through the guarded setters')


def run(prog, rep):
    rep.extra['explanation'] = (
        'Guard dominance of the two field writes on the CFG, who-may-write over the whole package, key-constant and '
        'format agreement between the delegation encoder and decoder, field agreement between the two directions of '
        'pool regrouping, unconditional index rebuild, check-before-write in the ARM annotation. The algebraic identity '
        'pools -> delegations -> pools is not decided.')
    rep.rule('R1', 'delegation field writes are guarded and confined', floor=4)
    rep.rule('R2', 'delegation encoder/decoder agree on keys, formats and types', floor=8)
    rep.rule('R3', 'pool regrouping agreement, index rebuild, check before write', floor=8)
    rep.rule('R4', 'the decoder rejects mixed label/capacity content and details on a pool reference', floor=4)
    rep.rule('R5', 'a sliver stores a delegations value only in the slot of its own type (capacity / label)', floor=2)
    for cls5 in prog.module('fim.slivers.base_sliver').classes.values():
        for mname5, want5 in (('set_capacity_delegations', 'CAPACITY'), ('set_label_delegations', 'LABEL')):
            f5 = cls5.methods.get(mname5)
            if f5 is None:
                continue
            par5 = [a.arg for a in f5.args.args if a.arg != 'self']
            guards5 = [n for n in walk_no_nested(f5) if isinstance(n, ast.Assert) or
                       (isinstance(n, ast.If) and any(isinstance(x, ast.Raise) for x in ast.walk(n)))]
            named5 = {x.attr for g in guards5 for x in ast.walk(g.test) if isinstance(x, ast.Attribute) and isinstance(x.value, ast.Name) and
                      x.value.id == 'DelegationType'}
            reads_type5 = any(isinstance(x, ast.Attribute) and x.attr in ('type', 'atype') and isinstance(x.value, ast.Name) and par5 and x.value.id == par5[0]
                              for g in guards5 for x in ast.walk(g.test))
            ok5 = reads_type5 and named5 == {want5}
            rep.instance('R5', f'{cls5.name}.{mname5}: guard on the type of the value: {sorted(named5) if reads_type5 else None}')
            if not ok5:
                rep.violation('R5', loc(cls5.module, f5), f'{cls5.name}.{mname5}', f'accepts delegations of any type',
                              f'{mname5} stores whatever Delegations object it is handed; a {"LABEL" if want5 == "CAPACITY" else "CAPACITY"} set put into the '
                              f'{want5.lower()} slot is written to the model with the other kind of details, and every later read of the element fails '
                              f'when the property is decoded as {want5} delegations (mixing label and capacity content must be rejected)')

    mod = prog.module(DELS)
    deleg = mod.classes.get('Delegation')
    delegs = mod.classes.get('Delegations')
    pools = mod.classes.get('Pools')
    pool = mod.classes.get('Pool')
    if not all((deleg, delegs, pools, pool)):
        raise AnalysisError('delegation classes vanished')

    # ---- R1 set_details ----
    sd = deleg.methods.get('set_details')
    cfg = CFG(sd)
    stores = [n for n in cfg.nodes if n.kind == 'stmt' and isinstance(n.ast, ast.Assign) and
              any(ast.unparse(t) == 'self.delegation_details' for t in n.ast.targets)]
    tests = [n for n in cfg.nodes if n.kind == 'test' and n.tag == 'if']
    ref_guard = [t for t in tests if 'PoolReference' in ast.unparse(t.ast)]
    type_guard = [t for t in tests if 'DelegationType.CAPACITY' in ast.unparse(t.ast) and 'DelegationType.LABEL' in ast.unparse(t.ast)]
    for st in stores:
        rep.instance('R1', f'Delegation.set_details: {norm(st.ast)}')
        if not ref_guard or not cfg.edge_dominates(ref_guard[0], 'f', st):
            rep.violation('R1', loc(mod, st.ast), 'Delegation.set_details', 'details stored without the PoolReference guard',
                          'details can be attached to a pool *reference* (which must carry none)')
        if not type_guard or not cfg.edge_dominates(type_guard[0], 'f', st):
            rep.violation('R1', loc(mod, st.ast), 'Delegation.set_details', 'details stored without the type guard',
                          'Capacities can be attached to a LABEL delegation or Labels to a CAPACITY delegation')
    if type_guard:
        t = ast.unparse(type_guard[0].ast).replace(' ', '')
        want1 = 'isinstance(caporlab,Labels)andself.type==DelegationType.CAPACITY'
        want2 = 'isinstance(caporlab,Capacities)andself.type==DelegationType.LABEL'
        if want1 not in t or want2 not in t:
            rep.violation('R1', loc(mod, type_guard[0].ast), 'Delegation.set_details', norm(type_guard[0].ast, 140),
                          'the type guard must reject Labels on CAPACITY and Capacities on LABEL')
    if not stores:
        raise AnalysisError('Delegation.set_details no longer stores delegation_details')

    # ---- R1 add_delegations ----
    ad = delegs.methods.get('add_delegations')
    loops = [n for n in ad.body if isinstance(n, ast.For)]
    if len(loops) != 1:
        raise AnalysisError('Delegations.add_delegations: loop not found')
    loop = loops[0]
    store = [n for n in ast.walk(loop) if isinstance(n, ast.Assign) and isinstance(n.targets[0], ast.Subscript)
             and ast.unparse(n.targets[0].value) == 'self.delegations']
    rep.instance('R1', f'Delegations.add_delegations: {norm(store[0]) if store else "?"}')
    if not store:
        rep.violation('R1', loc(mod, ad), 'Delegations.add_delegations', 'no store into self.delegations in the loop',
                      'delegations are not added one by one inside the checking loop')
    else:
        st = store[0]
        # duplicate guard: an `if <test>: raise` earlier in the same loop body whose test reads self.delegations
        pos = loop.body.index(st) if st in loop.body else len(loop.body)
        dup = [n for n in loop.body[:pos] if isinstance(n, ast.If) and any(isinstance(x, ast.Raise) for x in n.body)]
        live = [n for n in dup if 'self.delegations' in ast.unparse(n.test) and 'delegation_id' in ast.unparse(n.test)]
        typ = [n for n in dup if 'get_delegation_type()' in ast.unparse(n.test) or 'self.type' in ast.unparse(n.test)]
        typ_assert = [n for n in loop.body[:pos] if isinstance(n, ast.Assert) and 'get_delegation_type()' in ast.unparse(n.test)]
        if not live:
            rep.violation('R1', loc(mod, st), 'Delegations.add_delegations', 'duplicate test does not read the live table',
                          'the duplicate-id test preceding the store does not consult self.delegations itself (e.g. it uses '
                          'a snapshot taken before the loop): two delegations with the same id passed in one call are both '
                          'accepted and the second silently replaces the first')
        if not typ and not typ_assert:
            rep.violation('R1', loc(mod, st), 'Delegations.add_delegations', 'no type test before the store',
                          'a delegation of the other type can be added')
    # who may write
    for m, cls, fn in prog.all_functions():
        for n in walk_no_nested(fn):
            if isinstance(n, ast.Assign):
                for t in n.targets:
                    txt = ast.unparse(t)
                    hit = None
                    if isinstance(t, ast.Attribute) and t.attr == 'delegation_details':
                        hit = 'delegation_details'
                    if isinstance(t, ast.Subscript) and isinstance(t.value, ast.Attribute) and t.value.attr == 'delegations':
                        hit = 'delegations[...]'
                    if hit:
                        fq = (cls.name + '.' if cls else '') + fn.name
                        rep.instance('R1', f'write of {hit} in {fq}')
                        allowed = {'Delegation.__init__', 'Delegation.set_details', 'Delegations.add_delegations',
                                   'ABCADMPropertyGraph.rewrite_delegations'}
                        if fq not in allowed:
                            rep.violation('R1', loc(m, n), fq, norm(n),
                                          f'{fq} writes {hit} directly, bypassing the guards of set_details / add_delegations '
                                          f'(only rewrite_delegations may re-key one entry)')

    check_delegation_codec(prog, rep, 'R2')
    check_decoder_rejections(prog, rep, 'R4')

    # ---- R3 ----
    gen = pools.methods.get('generate_delegations_by_node_id')
    inc = pools.methods.get('incorporate_delegation')
    if gen is None or inc is None:
        raise AnalysisError('Pools.generate_delegations_by_node_id / incorporate_delegation vanished')

    def fmt_of(call):
        v = kwarg(call, 'aformat')
        ch = attr_chain(v) if v is not None else None
        return ch[-1] if ch else None

    # --- generate: for each (delegation id, pool): one definition on the defining node, one reference per other node
    gen = inline(prog, pools, gen)
    outer = []
    del_var = None
    pool_loops = []
    for l in walk_no_nested(gen):
        if not isinstance(l, ast.For):
            continue
        if isinstance(l.iter, ast.Call) and call_name(l.iter) == 'items' and isinstance(l.target, ast.Tuple) and len(l.target.elts) == 2 \
                and all(isinstance(e, ast.Name) for e in l.target.elts):
            kv, vv = l.target.elts[0].id, l.target.elts[1].id
            inner = [x for x in ast.walk(l) if isinstance(x, ast.For) and x is not l and isinstance(x.target, ast.Name) and isinstance(x.iter, ast.Name) and x.iter.id == vv]
            if inner:
                outer, del_var, pool_loops = [l], kv, inner
                break
        elif isinstance(l.target, ast.Name):
            # iteration over the keys of the index, the pools looked up by key
            base = l.iter.func.value if isinstance(l.iter, ast.Call) and call_name(l.iter) == 'keys' else l.iter
            kv = l.target.id
            inner = [x for x in ast.walk(l) if isinstance(x, ast.For) and x is not l and isinstance(x.target, ast.Name) and isinstance(x.iter, ast.Subscript)
                     and ast.unparse(x.iter.value) == ast.unparse(base) and isinstance(x.iter.slice, ast.Name) and x.iter.slice.id == kv]
            if inner:
                outer, del_var, pool_loops = [l], kv, inner
                break
    if not outer:
        raise AnalysisError('generate_delegations_by_node_id: loop over the delegation index not found')
    if not pool_loops:
        raise AnalysisError('generate_delegations_by_node_id: loop over the pools of a delegation not found')
    pool_var = pool_loops[0].target.id
    ctor = find_calls(pool_loops[0], 'Delegation', nested=True)
    defs = [c for c in ctor if fmt_of(c) == 'PoolDefinition']
    refs = [c for c in ctor if fmt_of(c) == 'PoolReference']
    pool_id_pat = lambda e: isinstance(e, ast.Call) and call_name(e) == 'get_pool_id' and receiver_name(e) == pool_var
    checks = []
    checks.append(('one definition per pool, keyed by the delegation id, carrying the pool id',
                   len(defs) == 1 and call_matches(defs[0], kwargs={'delegation_id': ('name', del_var), 'pool_id': pool_id_pat})))
    checks.append(('one reference per node the pool applies to, keyed by the delegation id, carrying the pool id',
                   len(refs) == 1 and call_matches(refs[0], kwargs={'delegation_id': ('name', del_var), 'pool_id': pool_id_pat})))
    ref_loop = None
    if refs:
        p = refs[0]
        while p is not pool_loops[0]:
            p = p._parent
            if isinstance(p, ast.For):
                ref_loop = p
                break
    checks.append(('references range over the nodes the pool is defined for',
                   ref_loop is not None and isinstance(ref_loop.iter, ast.Call) and call_name(ref_loop.iter) == 'get_defined_for'
                   and receiver_name(ref_loop.iter) == pool_var))
    sd = [c for c in find_calls(pool_loops[0], 'set_details', nested=True)]
    checks.append(('definition details come from the pool',
                   len(sd) == 1 and sd[0].args and isinstance(sd[0].args[0], ast.Call) and call_name(sd[0].args[0]) == 'get_pool_details'
                   and receiver_name(sd[0].args[0]) == pool_var and (ref_loop is None or not any(x is sd[0] for x in ast.walk(ref_loop)))))
    # where each entry goes: the receiver of add_delegations, evaluated per path (present / absent in the result dictionary)
    gen_rets = [r.value.id for r in walk_no_nested(gen) if isinstance(r, ast.Return) and isinstance(r.value, ast.Name)]
    retv = gen_rets[-1] if gen_rets else None

    def add_sink(st):
        if isinstance(st, ast.Expr) and isinstance(st.value, ast.Call) and call_name(st.value) == 'add_delegations' and st.value.args:
            return (st.value.func.value, st.value.args[0])
        return None
    try:
        aouts = branch_values(pool_loops[0].body, add_sink, follow_loops=True, opaque=(retv,) if retv else ())
    except Unknown as u:
        raise AnalysisError(f'generate_delegations_by_node_id not analysable: {u}')
    def_ok = False
    for o in aouts:
        is_def = any(isinstance(c, ast.Call) and call_name(c) == 'Delegation' and fmt_of(c) == 'PoolDefinition' for c in ast.walk(o.value)) if o.value is not None else False
        recv = o.target
        keyed_on = [c for c in ast.walk(recv) if isinstance(c, ast.Call) and call_name(c) == 'get_defined_on' and receiver_name(c) == pool_var] + \
                   [n for n in o.cond_nodes for c in ast.walk(n) if isinstance(c, ast.Call) and call_name(c) == 'get_defined_on' and receiver_name(c) == pool_var]
        if is_def and keyed_on:
            def_ok = True
    checks.append(('definition is placed on the node the pool is defined on', def_ok))
    # get-or-create: a fresh Delegations object is stored into the result only for a node that has none yet
    goc_ok = True
    if retv:
        def store_sink(st):
            if isinstance(st, ast.Assign) and len(st.targets) == 1 and isinstance(st.targets[0], ast.Subscript) and \
                    isinstance(st.targets[0].value, ast.Name) and st.targets[0].value.id == retv:
                return (st.targets[0].slice, st.value)
            return None
        try:
            souts = branch_values(pool_loops[0].body, store_sink, follow_loops=True, opaque=(retv,))
        except Unknown as u:
            raise AnalysisError(f'generate_delegations_by_node_id not analysable: {u}')
        for o in souts:
            if not (isinstance(o.value, ast.Call) and call_name(o.value) == 'Delegations'):
                continue
            key_txt = ctext(o.target)
            rep.instance('R3', f'generate_delegations_by_node_id: {retv}[{key_txt}] created under {sorted(set(o.conds))[-3:]}')
            if f'{key_txt} not in {retv}' not in o.conds:
                goc_ok = False
    checks.append(('a per-node Delegations object is created only for a node that has none yet (get-or-create)', goc_ok))
    adds = find_calls(pool_loops[0], 'add_delegations', nested=True)
    checks.append(('definition and references are added to the per-node delegations', len(adds) >= 2))
    for what, ok in checks:
        rep.instance('R3', f'generate_delegations_by_node_id: {what}: {ok}')
        if not ok:
            rep.violation('R3', loc(mod, gen), 'Pools.generate_delegations_by_node_id', what,
                          f'turning pools into per-node delegations no longer satisfies: {what}')

    # --- incorporate: definition -> defined_on + details + delegation id; reference -> defined_for + delegation id
    ent_loops = [l for l in walk_no_nested(inc) if isinstance(l, ast.For) and isinstance(l.iter, ast.Call) and call_name(l.iter) in ('items', 'values')]
    if not ent_loops:
        raise AnalysisError('incorporate_delegation: loop over the delegation entries not found')
    el = ent_loops[0]
    dvar = el.target.elts[1].id if isinstance(el.target, ast.Tuple) else el.target.id
    pvars = assigned_from(inc, lambda v: isinstance(v, ast.Call) and call_name(v) == 'get_pool_by_id')
    lookups = find_calls(el, 'get_pool_by_id', nested=True)
    node_param = [a.arg for a in inc.args.kwonlyargs + inc.args.args if a.arg != 'self'][0]
    by_name = lookups and call_matches(lookups[0], args=[lambda e: isinstance(e, ast.Call) and call_name(e) == 'get_pool_name' and receiver_name(e) == dvar])
    pv = pvars[0] if pvars else None

    def on_pool(name):
        return [c for c in find_calls(el, name, nested=True) if receiver_name(c) == pv]

    def branch_of(call):
        """'def' if the call is under the PoolDefinition test, 'ref' if in its else branch, None otherwise"""
        p = call
        while p is not el:
            child = p
            p = p._parent
            if isinstance(p, ast.If) and 'PoolDefinition' in ast.unparse(p.test):
                return 'def' if child in p.body else 'ref'
        return None
    checks = [
        ('the pool is looked up by the pool name of the entry', bool(by_name)),
        ('single-pool entries are skipped', any(isinstance(n, ast.If) and 'SinglePool' in ast.unparse(n.test) and
                                                any(isinstance(x, ast.Continue) for x in n.body) for n in ast.walk(el))),
        ('a definition records the defining node', any(branch_of(c) == 'def' and call_matches(c, args=[('name', node_param)]) for c in on_pool('set_defined_on'))),
        ('a definition records the details of the entry',
         any(branch_of(c) == 'def' and c.args and isinstance(c.args[0], ast.Call) and call_name(c.args[0]) == 'get_details' and receiver_name(c.args[0]) == dvar
             for c in on_pool('set_pool_details'))),
        ('a reference adds the node to the nodes the pool applies to', any(branch_of(c) == 'ref' and call_matches(c, args=[('name', node_param)]) for c in on_pool('add_defined_for'))),
        ('definitions and references both record the delegation id of the entry',
         {branch_of(c) for c in on_pool('set_delegation_id')
          if any(isinstance(a, ast.Call) and call_name(a) == 'get_delegation_id' and receiver_name(a) == dvar for a in [k.value for k in c.keywords] + list(c.args))} >= {'def', 'ref'}),
        ('a second definition of the same pool is rejected',
         any(isinstance(n, ast.If) and any(isinstance(x, ast.Raise) for x in n.body) and
             any(isinstance(c, ast.Call) and call_name(c) == 'get_defined_on' and receiver_name(c) == pv for c in ast.walk(n.test)) for n in ast.walk(el))),
    ]
    for what, ok in checks:
        rep.instance('R3', f'incorporate_delegation: {what}: {ok}')
        if not ok:
            rep.violation('R3', loc(mod, inc), 'Pools.incorporate_delegation', what,
                          f'reading per-node delegations back into pools no longer satisfies: {what}')
    # index rebuilt from scratch
    bi = pools.methods.get('build_index_by_delegation_id')
    body = [st for st in bi.body if not (isinstance(st, ast.Expr) and isinstance(st.value, ast.Constant))]
    first = body[0]
    rep.instance('R3', f'build_index_by_delegation_id starts with {norm(first)}')
    idx_attr = None
    ok = isinstance(first, ast.Assign) and isinstance(first.targets[0], ast.Attribute) and ast.unparse(first.targets[0].value) == 'self' and \
        ((isinstance(first.value, ast.Dict) and not first.value.keys) or (isinstance(first.value, ast.Call) and call_name(first.value) in ('dict', 'defaultdict')))
    if ok:
        idx_attr = first.targets[0].attr
    if not ok:
        rep.violation('R3', loc(mod, bi), 'Pools.build_index_by_delegation_id', 'index not reset unconditionally',
                      'the per-delegation index must be rebuilt from an empty dict on every call; otherwise re-indexing '
                      'after adding a pool or changing a delegation id lists pools twice or under a stale id')
    loops = [l for l in walk_no_nested(bi) if isinstance(l, ast.For)]
    over_all = loops and 'pool_by_id' in ast.unparse(loops[0].iter)
    validates = loops and any(call_name(c) == 'validate_pool' for c in ast.walk(loops[0]) if isinstance(c, ast.Call))
    if not over_all or not validates:
        rep.violation('R3', loc(mod, bi), 'Pools.build_index_by_delegation_id', 'does not validate and index every pool',
                      'every pool must be validated and indexed')
    vp = pool.methods.get('validate_pool')
    guards = [n for n in walk_no_nested(vp) if isinstance(n, ast.If) and any(isinstance(x, ast.Raise) for x in n.body)]
    tested = ' ; '.join(ast.unparse(g.test) for g in guards)
    for what, keys in (('delegation id', ('delegation_id',)), ('defining node', ('get_defined_on', 'on_')),
                       ('nodes it applies to', ('get_defined_for', 'for_')), ('details', ('get_pool_details', 'pool_details'))):
        okf = any(k in tested for k in keys)
        rep.instance('R3', f'validate_pool rejects a pool without {what}: {okf}')
        if not okf:
            rep.violation('R3', loc(mod, vp), 'Pool.validate_pool', f'{what} not tested', 'an incomplete pool passes validation')
    # annotate: conflict check before any write
    arm = prog.cls(ARM)
    an = arm.methods.get('annotate_delegations_and_pools')
    raises = [n.lineno for n in ast.walk(an) if isinstance(n, ast.Raise)]
    writes = [n.lineno for n in ast.walk(an) if isinstance(n, ast.Call) and call_name(n) == 'update_node_property']
    rep.instance('R3', f'annotate_delegations_and_pools: raise lines {raises} write lines {writes}')
    if not raises or not writes or max(raises) > min(writes):
        rep.violation('R3', loc(arm.module, an), 'ABCARMPropertyGraph.annotate_delegations_and_pools', 'conflict check does not precede all writes',
                      'a node that has both a pool entry and a single delegation must be rejected before any property is written')
    ani = inline(prog, arm, an)
    aenv_ = local_env(ani)
    fold_a = lambda e_: prog.const_eval(e_, arm.module, arm)
    dt_exprs = sorted({ctext(x) for x in ast.walk(ani) if isinstance(x, ast.Call) and call_name(x) == 'get_type'})
    want_prop = {'CAPACITY': 'CapacityDelegations', 'LABEL': 'LabelDelegations'}
    wcalls = [c for c in ast.walk(ani) if isinstance(c, ast.Call) and call_name(c) == 'update_node_property']
    for tname, wprop in want_prop.items():
        bind = {te: prog.const_eval(ast.parse(f'DelegationType.{tname}', mode='eval').body, mod, delegs) for te in dt_exprs}
        got = set()
        for c in wcalls:
            _, conds_ = _enclosing(c, ani)
            try:
                if not all(eval_test(canon(expand(n, aenv_)), bind, fold_a) for n in conds_ if any(ctext(x) in bind for x in ast.walk(expand(n, aenv_)))):
                    continue
                got.add(value_under(kwarg(c, 'prop_name'), bind, fold_a, aenv_, ani))
            except Unknown:
                got.add('?')
        rep.instance('R3', f'annotate_delegations_and_pools: {tname} delegations written to {sorted(str(g) for g in got)}')
        if got != {wprop}:
            rep.violation('R3', loc(arm.module, an), 'ABCARMPropertyGraph.annotate_delegations_and_pools', f'type/property pairing: {tname} -> {sorted(str(g) for g in got)}',
                          'capacity delegations must be written to CapacityDelegations and label delegations to LabelDelegations')


DF = 'fim/slivers/delegations.py'
MUTANTS = [
    {'name': 'capacity-slot-accepts-any-delegations', 'file': 'fim/slivers/base_sliver.py', 'rule': 'R5',
     'find': "        assert(cdel is None or cdel.type == DelegationType.CAPACITY)\n", 'replace': ""},
    {'name': 'reference-with-details-accepted', 'file': 'fim/slivers/delegations.py', 'rule': 'R4',
     'find': "                if ABCPropertyGraphConstants.FIELD_CAPACITIES in v.keys() or ABCPropertyGraphConstants.FIELD_LABELS in v.keys():\n",
     'replace': "                if False:\n"},
    {'name': 'pool-reference-guard-dropped', 'file': DF, 'rule': 'R1',
     'find': "        if self.format == DelegationFormat.PoolReference:\n            raise DelegationException(msg=f'Trying to add Labels or Capacities object to PoolReference delegation')\n", 'replace': ''},
    {'name': 'duplicate-guard-dropped', 'file': DF, 'rule': 'R1',
     'find': "            if self.delegations.get(delegation.delegation_id, None) is not None:\n                raise DelegationException(msg=f'Delegation with id {delegation.delegation_id} is already present')\n", 'replace': ''},
    {'name': 'reference-encoded-under-pool-id', 'file': DF, 'rule': 'R2',
     'find': '                inner_dict[ABCPropertyGraphConstants.FIELD_POOL] = v.get_pool_name()', 'replace': '                inner_dict[ABCPropertyGraphConstants.FIELD_POOL_ID] = v.get_pool_name()'},
    {'name': 'decode-labels-as-capacities', 'file': DF, 'rule': 'R2',
     'find': '                    caporlab = Labels(**caporlabdict)', 'replace': '                    caporlab = Capacities(**caporlabdict)'},
    {'name': 'reference-loses-delegation-id', 'file': DF, 'rule': 'R3',
     'find': '                p.add_defined_for(node_id)\n                p.set_delegation_id(delegation_id=d.get_delegation_id())', 'replace': '                p.add_defined_for(node_id)'},
    {'name': 'definition-on-defined-for', 'file': DF, 'rule': 'R3',
     'find': '                node = pool.get_defined_on()\n', 'replace': '                node = next(iter(pool.get_defined_for()))\n'},
]
TWINS = [
    {'name': 'duplicate-test-with-in', 'file': DF,
     'find': '            if self.delegations.get(delegation.delegation_id, None) is not None:', 'replace': '            if delegation.delegation_id in self.delegations:'},
]
