"""
C14 -- combined broker model: merge is order-independent and unmerge is its inverse.

R1 merge never mutates the source model: mutating calls have the temporary clone or the combined model as receiver
R2 key agreement: delegations, structural info and contributor lists are keyed by the real model id (adm.graph_id)
R3 every property merge writes is handled by unmerge (plus the graph id)
R4 rollback deletes before re-homing; snapshot ids are generated per call (not in a default argument)
R5 only one side may speak for a resource: the both-sides guard precedes the write; the write-back flag covers both
   delegation kinds
R6 unmerge removes exactly the contributor: remove id from the list, delete when empty, else write back; delegations of
   that id removed
"""
import ast

from ..core import AnalysisError, norm, loc, walk_no_nested, attr_chain, call_name, kwarg
from ..flags import check_flag_scope
from ..core import Unfoldable, func_params
from ..normalize import inline, local_env, expand, canon, ctext, conjuncts, eval_test, Unknown, _enclosing, branch_values, merge_outcomes
from .. import flow
from ..cfg import CFG

CBM = 'fim.graph.resources.neo4j_cbm:Neo4jCBMGraph'
ABCCBM = 'fim.graph.resources.abc_cbm:ABCCBMPropertyGraph'
MUTATORS = {'update_node_property', 'unset_node_property', 'update_node_properties', 'update_nodes_property', 'delete_node',
            'add_node', 'add_link', 'merge_nodes', 'delete_graph', 'update_link_property', 'update_link_properties',
            'unset_link_property', 'rewrite_delegations'}


def run(prog, rep):
    rep.extra['explanation'] = (
        'merge_adm / unmerge_adm / snapshot / rollback are analysed for receiver purity, for the identity of the key used '
        'in the three places that record the contributing model, for coverage of merge\'s writes by unmerge, for the '
        'ordering of rollback and freshness of snapshot ids, and for the one-side-speaks guard and flag scope in the '
        'delegation update. The only implementation needs a Neo4j server, so none of this is executed by the suite. '
        'Order independence and merge/unmerge inversion as algebra are not decided.')
    rep.rule('R1', 'sources are never mutated by merge', floor=6)
    rep.rule('R2', 'contributor key is the real model id everywhere', floor=3)
    rep.rule('R3', 'properties written by merge are handled by unmerge', floor=3)
    rep.rule('R4', 'rollback order; snapshot id per call', floor=3)
    rep.rule('R5', 'one-side guard precedes write; flag scope', floor=2)
    rep.rule('R6', 'unmerge removes exactly the contributor', floor=4)

    cbm = prog.cls(CBM)
    mod = cbm.module
    ma = cbm.methods.get('merge_adm')
    um = cbm.methods.get('unmerge_adm')
    und = cbm.methods.get('_update_node_delegations')
    if ma is not None:
        # private methods split off merge_adm are read as part of it (the per-node delegation update stays a call)
        ma = inline(prog, cbm, ma, exclude=('_update_node_delegations',), depth=4)
    if not all((ma, um, und)):
        raise AnalysisError('merge_adm / unmerge_adm / _update_node_delegations vanished')
    src_param = [a.arg for a in ma.args.kwonlyargs + ma.args.args if a.arg != 'self'][0]

    def fold_name(e):
        try:
            v_ = prog.const_eval(e, mod, cbm) if e is not None else None
            return v_ if isinstance(v_, str) else None
        except Exception:
            return None

    # ---- R1 ----
    temp_vars = set()
    changed = True
    while changed:
        changed = False
        for n in walk_no_nested(ma):
            if isinstance(n, ast.Assign) and isinstance(n.targets[0], ast.Name) and n.targets[0].id not in temp_vars:
                names = {x.id for x in ast.walk(n.value) if isinstance(x, ast.Name)}
                is_clone = any(isinstance(c, ast.Call) and call_name(c) == 'clone_graph' for c in ast.walk(n.value))
                if is_clone or (names & temp_vars and isinstance(n.value, ast.Call)) or (isinstance(n.value, ast.Name) and n.value.id in temp_vars):
                    temp_vars.add(n.targets[0].id)
                    changed = True
    for c in walk_no_nested(ma):
        if isinstance(c, ast.Call) and isinstance(c.func, ast.Attribute) and c.func.attr in MUTATORS | {'_update_node_delegations'}:
            recv = ast.unparse(c.func.value)
            rep.instance('R1', f'merge_adm: {recv}.{c.func.attr}(...)')
            if recv == src_param or recv.startswith(src_param + '.'):
                rep.violation('R1', loc(mod, c), 'Neo4jCBMGraph.merge_adm', norm(c, 110),
                              f'merge applies {c.func.attr} to the source model `{src_param}`: merging must not alter the '
                              f'delegation model it reads from')
            elif recv not in temp_vars and recv != 'self':
                rep.violation('R1', loc(mod, c), 'Neo4jCBMGraph.merge_adm', norm(c, 110),
                              f'{c.func.attr} applied to `{recv}`, which is neither the temporary clone nor the combined model')
    # what is merged into the combined model is the re-keyed temporary clone, never the source itself
    for c in walk_no_nested(ma):
        if isinstance(c, ast.Call) and call_name(c) in ('_update_node_delegations', 'merge_nodes', 'find_matching_nodes'):
            other = kwarg(c, 'adm') or kwarg(c, 'other_graph') or (c.args[-1] if c.args else None)
            rep.instance('R1', f'merge_adm: {call_name(c)}(... {norm(other) if other is not None else None})')
            if not (isinstance(other, ast.Name) and other.id in temp_vars):
                rep.violation('R1', loc(mod, c), 'Neo4jCBMGraph.merge_adm', f'{call_name(c)} is given {norm(other) if other is not None else None}',
                              f'{call_name(c)} must work on the temporary clone whose delegations were re-keyed to the id of the contributing '
                              f'model; given the source model itself, its delegations are still keyed by their original key (and merge_nodes would '
                              f'contract nodes of the source): the combined model then depends on merge order and unmerge cannot remove them')
    clone = [c for c in walk_no_nested(ma) if isinstance(c, ast.Call) and call_name(c) == 'clone_graph']
    rep.instance('R1', f'merge_adm: works on {norm(clone[0], 80) if clone else "no clone"}')
    if not clone or ast.unparse(clone[0].func.value) != src_param:
        rep.violation('R1', loc(mod, ma), 'Neo4jCBMGraph.merge_adm', 'source not cloned', 'merge must work on a temporary clone of the source model')
    # the helper reads both sides but writes only self
    for c in walk_no_nested(und):
        if isinstance(c, ast.Call) and isinstance(c.func, ast.Attribute) and c.func.attr in MUTATORS:
            recv = ast.unparse(c.func.value)
            rep.instance('R1', f'_update_node_delegations: {recv}.{c.func.attr}(...)')
            if recv != 'self':
                rep.violation('R1', loc(mod, c), 'Neo4jCBMGraph._update_node_delegations', norm(c, 110), 'only the combined model may be written')

    # ---- R2 ----
    real = f'{src_param}.graph_id'
    sites = []
    for c in walk_no_nested(ma):
        if isinstance(c, ast.Call) and call_name(c) == 'rewrite_delegations':
            sites.append(('delegation key', kwarg(c, 'real_adm_id'), c))
        if isinstance(c, ast.Call) and call_name(c) == 'StructuralInfo':
            sites.append(('structural info of re-homed nodes', kwarg(c, 'adm_graph_ids'), c))
        if isinstance(c, ast.Call) and call_name(c) == 'append' and 'adm_graph_ids' in ast.unparse(c.func.value):
            sites.append(('contributor list of merged nodes', c.args[0] if c.args else None, c))
    kinds = {k for k, _, _ in sites}
    for k, v, c in sites:
        vt = ast.unparse(v) if v is not None else None
        rep.instance('R2', f'merge_adm: {k} <- {vt}')
        ok = vt in (real, f'[{real}]')
        if not ok:
            rep.violation('R2', loc(mod, c), 'Neo4jCBMGraph.merge_adm', f'{k} keyed by {vt}',
                          f'the {k} must record the id of the contributing model ({real}); a temporary or different id makes '
                          f'unmerge unable to find what this model contributed')
    # inside rewrite_delegations: every delegation value that was decoded is re-keyed and put back - between the decoding and the
    # write-back only a rejection (raise) may leave the path
    adm_cls = prog.cls('fim.graph.resources.abc_adm:ABCADMPropertyGraph')
    rw0 = adm_cls.methods.get('rewrite_delegations')
    if rw0 is None:
        raise AnalysisError('ABCADMPropertyGraph.rewrite_delegations vanished')
    # a helper that writes, called as the element of a generator handed to any() / all(): evaluation stops at the first
    # element that decides the result, and the helper is never called for the properties after it
    from ..normalize import resolve_helper
    lazy_ = []
    for c_ in ast.walk(rw0):
        if isinstance(c_, ast.Call) and isinstance(c_.func, ast.Name) and c_.func.id in ('any', 'all') and len(c_.args) == 1 and \
                isinstance(c_.args[0], ast.GeneratorExp):
            for h_ in ast.walk(c_.args[0].elt):
                if isinstance(h_, ast.Call):
                    rh_ = resolve_helper(prog, adm_cls, adm_cls.module, h_)
                    if rh_ is not None and any(isinstance(a_, (ast.Assign, ast.AugAssign)) and
                                               any(isinstance(t_, (ast.Subscript, ast.Attribute)) for t_ in (a_.targets if isinstance(a_, ast.Assign) else [a_.target]))
                                               for a_ in ast.walk(rh_[0])):
                        lazy_.append((c_, h_))
    rep.instance('R2', f'rewrite_delegations: writing helpers evaluated lazily inside any()/all(): {len(lazy_)}')
    for c_, h_ in lazy_:
        rep.violation('R2', loc(adm_cls.module, c_), 'ABCADMPropertyGraph.rewrite_delegations', f'{call_name(h_)}() inside {c_.func.id}(<generator>)',
                      f'`{c_.func.id}` stops at the first element that decides its result, so `{call_name(h_)}` - which re-keys and writes back '
                      f'one delegation property - is not called for the properties after it: a node that carries both a label and a capacity '
                      f'delegation keeps the aggregate model\'s key on the second one, and unmerge cannot find it')
    if lazy_:
        return
    rw = inline(prog, adm_cls, rw0)
    rcfg = CFG(rw)
    decs = [c for c in walk_no_nested(rw) if isinstance(c, ast.Call) and call_name(c) == 'from_json']
    backs = [n for n in walk_no_nested(rw) if isinstance(n, ast.Assign) and isinstance(n.targets[0], ast.Subscript) and
             any(isinstance(c, ast.Call) and call_name(c) == 'to_json' for c in ast.walk(n.value))]
    rekeys = [n for n in walk_no_nested(rw) if isinstance(n, ast.Assign) and any(isinstance(t, ast.Attribute) and t.attr == 'delegation_id' for t in n.targets)]
    if not decs or not backs or not rekeys:
        raise AnalysisError('rewrite_delegations: decode / re-key / write-back statements not recognised')
    dn_ = flow.node_of(rcfg, decs[0])
    for what_, stmts_ in (('re-keyed with the id of the model', rekeys), ('encoded back into the node properties', backs)):
        must = {flow.node_of(rcfg, x).id for x in stmts_ if flow.node_of(rcfg, x) is not None}
        heads = [nd for nd in rcfg.nodes if nd.kind == 'test' and nd.tag == 'for'] + [rcfg.exit]
        leak = [h for h in heads if dn_ is not None and any(rcfg.paths_avoiding(s_, h, must) for s_, _ in dn_.succ if s_.id not in must)]
        rep.instance('R2', f'rewrite_delegations: every decoded delegation value is {what_}: {not leak}')
        if leak:
            rep.violation('R2', loc(adm_cls.module, decs[0]), 'ABCADMPropertyGraph.rewrite_delegations', f'a decoded value can skip being {what_}',
                          f'after a delegation property has been decoded there is a path to the next property / node that is not a rejection and '
                          f'on which the value is not {what_}: such entries (for instance pool references, which carry no details of their own) '
                          f'keep the delegation id of the aggregate model instead of the id of the model, and unmerge cannot find them')

    # ... and the write-back flag of rewrite_delegations covers both delegation properties of a node (shared with C13)
    check_flag_scope(rep, 'R2', adm_cls.module, 'ABCADMPropertyGraph.rewrite_delegations', rw0,
                     'a node whose label delegations were re-keyed but whose capacity delegations were not (or the other way round) is never '
                     'written back: it keeps the delegation id of the aggregate model, get_delegations finds nothing under the model id and '
                     'unmerge leaves the delegation behind')
    # the contributor list that is extended is the one just read from the merged node, and that one is written back
    mloops = [l for l in walk_no_nested(ma) if isinstance(l, ast.For) and any(isinstance(c, ast.Call) and call_name(c) == 'merge_nodes' for c in ast.walk(l))]
    if mloops:
        ml = mloops[0]
        apps = [c for c in ast.walk(ml) if isinstance(c, ast.Call) and call_name(c) == 'append' and isinstance(c.func.value, ast.Attribute)
                and c.func.value.attr == 'adm_graph_ids' and isinstance(c.func.value.value, ast.Name)]
        decoded_here = {n.targets[0].id for n in ast.walk(ml) if isinstance(n, ast.Assign) and isinstance(n.targets[0], ast.Name) and
                        isinstance(n.value, ast.Call) and call_name(n.value) == 'from_json' and 'StructuralInfo' in ast.unparse(n.value.func)}
        written = [c for c in ast.walk(ml) if isinstance(c, ast.Call) and call_name(c) == 'update_node_property' and
                   fold_name(kwarg(c, 'prop_name')) == 'StructuralInfo']
        for c in apps:
            v = c.func.value.value.id
            wb = [w_ for w_ in written if isinstance(kwarg(w_, 'prop_val'), ast.Call) and call_name(kwarg(w_, 'prop_val')) == 'to_json' and
                  isinstance(kwarg(w_, 'prop_val').func.value, ast.Name) and kwarg(w_, 'prop_val').func.value.id == v]
            rep.instance('R2', f'merge_adm: contributor appended to {v}.adm_graph_ids; {v} decoded in this iteration: {v in decoded_here}; written back: {bool(wb)}')
            if v not in decoded_here or not wb:
                rep.violation('R2', loc(mod, c), 'Neo4jCBMGraph.merge_adm', f'contributor appended to {v}, which is not the structural info read from this node',
                              f'the contributor list extended for a merged node ({v}.adm_graph_ids) is not the one decoded from that node in this '
                              f'iteration (or is not the one written back): the node records the incoming model several times and loses the '
                              f'models that contributed to it before, so unmerge can no longer tell who contributed what')
        if not apps:
            rep.violation('R2', loc(mod, ml), 'Neo4jCBMGraph.merge_adm', 'contributor list of merged nodes not extended', 'merged nodes must record the contributing model')
    for k in ('delegation key', 'structural info of re-homed nodes', 'contributor list of merged nodes'):
        if k not in kinds:
            rep.violation('R2', loc(mod, ma), 'Neo4jCBMGraph.merge_adm', f'{k} not recorded', f'merge no longer records the {k}')

    # ---- R3 ----
    def fold_prop(e):
        try:
            v = prog.const_eval(e, mod, cbm)
            return v if isinstance(v, str) else None
        except Exception:
            return None

    def prop_sources(fn, name):
        """property names a local `name` ranges over: literal list of constants, or the keys of a class-level dict constant"""
        out = set()
        for l in ast.walk(fn):
            if isinstance(l, ast.For) and any(isinstance(x, ast.Name) and x.id == name for x in ast.walk(l.target)):
                it = l.iter
                # a table of rows (written in place, or a class / module level constant): the column `name` is unpacked from
                rows = it
                if isinstance(it, ast.Name) and it.id in mod.assigns:
                    rows = mod.assigns[it.id]
                elif isinstance(it, ast.Attribute) and isinstance(it.value, ast.Name) and it.value.id in ('self', 'cls', cbm.simple):
                    rows = cbm.find_assign(it.attr)[1] or it
                if isinstance(rows, (ast.List, ast.Tuple)) and rows.elts and isinstance(l.target, ast.Tuple) and \
                        all(isinstance(r_, (ast.List, ast.Tuple)) and len(r_.elts) == len(l.target.elts) for r_ in rows.elts):
                    idx = [i for i, t_ in enumerate(l.target.elts) if isinstance(t_, ast.Name) and t_.id == name]
                    if idx:
                        out |= {fold_prop(r_.elts[idx[0]]) for r_ in rows.elts}
                    continue
                if isinstance(it, (ast.List, ast.Tuple)):
                    out |= {fold_prop(e) for e in it.elts}
                else:
                    base = it.func.value if isinstance(it, ast.Call) and call_name(it) in ('items', 'keys') else it
                    try:
                        d = prog.const_eval(base, mod, cbm)
                        if isinstance(d, dict):
                            first = isinstance(l.target, ast.Name) or (isinstance(l.target, ast.Tuple) and isinstance(l.target.elts[0], ast.Name) and l.target.elts[0].id == name)
                            out |= {k for k in d.keys() if isinstance(k, str)} if first else set()
                        elif isinstance(d, (list, tuple, set)):
                            out |= {k for k in d if isinstance(k, str)}
                    except Exception:
                        pass
        return {x for x in out if x}

    def written_props(fns):
        out = set()
        for fn in fns:
            for c in ast.walk(fn):
                if isinstance(c, ast.Call) and call_name(c) in ('update_nodes_property', 'update_node_property'):
                    pn = kwarg(c, 'prop_name')
                    if pn is not None:
                        v = fold_prop(pn)
                        if v:
                            out.add(v)
                        elif isinstance(pn, ast.Name):
                            out |= prop_sources(fn, pn.id)
                if isinstance(c, ast.Assign) and isinstance(c.targets[0], ast.Subscript) and isinstance(c.targets[0].slice, ast.Name):
                    out |= prop_sources(fn, c.targets[0].slice.id)
        return out
    w = written_props([ma, und])
    um3 = inline(prog, cbm, um)      # what unmerge does may sit in private helpers
    h = written_props([um3])
    for n in ast.walk(um3):
        if isinstance(n, ast.Subscript):
            v = fold_prop(n.slice)
            if v:
                h.add(v)
            elif isinstance(n.slice, ast.Name):
                h |= prop_sources(um3, n.slice.id)
        if isinstance(n, ast.Call) and call_name(n) in ('unset_node_property', 'unset_nodes_property'):
            pn_ = kwarg(n, 'prop_name')
            if isinstance(pn_, ast.Name):
                h |= prop_sources(um3, pn_.id)
            elif pn_ is not None and fold_prop(pn_):
                h.add(fold_prop(pn_))
    for p in sorted(w):
        rep.instance('R3', f'merge writes {p}; unmerge handles it: {p in h or p == "GraphID"}')
        if p != 'GraphID' and p not in h:
            rep.violation('R3', loc(mod, um), 'Neo4jCBMGraph.unmerge_adm', f'{p} written by merge, not handled by unmerge',
                          f'merge writes property {p} but unmerge never touches it: merge followed by unmerge does not restore '
                          f'the previous combined model')

    # ---- R4 ----
    acb = prog.cls(ABCCBM)
    rb = acb.methods.get('rollback')
    sn = acb.methods.get('snapshot')
    if rb is None or sn is None:
        raise AnalysisError('snapshot/rollback vanished')
    dl = [c for c in walk_no_nested(rb) if isinstance(c, ast.Call) and call_name(c) == 'delete_graph']
    rh = [c for c in walk_no_nested(rb) if isinstance(c, ast.Call) and call_name(c) == 'update_nodes_property']
    rep.instance('R4', f'rollback: delete@{dl[0].lineno if dl else None} re-home@{rh[0].lineno if rh else None}')
    if not dl or not rh or dl[0].lineno > rh[0].lineno or ast.unparse(dl[0].func.value) != 'self':
        rep.violation('R4', loc(acb.module, rb), 'ABCCBMPropertyGraph.rollback', 'delete does not precede re-homing',
                      'rollback must delete the current combined model before the snapshot takes over its id, otherwise both '
                      'node sets end up under the same graph id')
    # the combined model is deleted only once the snapshot is known to exist
    if dl:
        _, dconds = _enclosing(dl[0], rb)
        exist_checked = any(isinstance(x, ast.Call) and call_name(x) in ('graph_exists', 'node_exists', 'list_all_node_ids', 'get_graph') for c_ in dconds for x in ast.walk(c_))
        rep.instance('R4', f'rollback: the snapshot is verified to exist before the combined model is deleted: {exist_checked}')
        if not exist_checked:
            rep.violation('R4', loc(acb.module, dl[0]), 'ABCCBMPropertyGraph.rollback', 'combined model deleted before the snapshot is known to exist',
                          'rollback deletes the combined model first and only then looks at the snapshot: with a snapshot id that is not (or no '
                          'longer - a snapshot is consumed by the rollback to it) in the store the re-homing fails and no combined model is left at all')
    # ... and every rollback that returns normally has put the snapshot in place (also when the combined model had been emptied)
    if rh:
        rcfg4 = CFG(rb)
        rhn = flow.node_of(rcfg4, rh[0])
        if rhn is None:
            raise AnalysisError('rollback: re-homing statement not found in the flow graph')
        skipped = rcfg4.paths_avoiding(rcfg4.entry, rcfg4.exit, {rhn.id})
        rep.instance('R4', f'rollback: the snapshot takes over the model id on every path that returns normally: {not skipped}')
        if skipped:
            rep.violation('R4', loc(acb.module, rh[0]), 'ABCCBMPropertyGraph.rollback', 're-homing of the snapshot can be skipped',
                          'rollback can return without having given the snapshot the id of the combined model (for instance when the combined '
                          'model is empty at that moment): nothing is restored and the snapshot is left behind under its own id')
    if rh:
        pv = kwarg(rh[0], 'prop_val')
        pn = kwarg(rh[0], 'prop_name')
        recv = ast.unparse(rh[0].func.value)
        cast = [n for n in walk_no_nested(rb) if isinstance(n, ast.Assign) and isinstance(n.value, ast.Call) and call_name(n.value) == 'cast_graph']
        ok = pv is not None and ast.unparse(pv) == 'self.graph_id' and pn is not None and ast.unparse(pn).endswith('GRAPH_ID') and \
            cast and recv == cast[0].targets[0].id and ast.unparse(kwarg(cast[0].value, 'graph_id')) == 'graph_id'
        rep.instance('R4', f'rollback: {norm(rh[0], 110)}')
        if not ok:
            rep.violation('R4', loc(acb.module, rh[0]), 'ABCCBMPropertyGraph.rollback', norm(rh[0], 120),
                          'the snapshot graph (cast from the given id) must be re-homed to this model\'s graph id')
    # snapshot id generated in the body
    for fn, cls in ((sn, acb),) + tuple((f, c) for m_, c, f in prog.all_functions() if c is not None and c.module is acb.module and f is not sn):
        for d in list(fn.args.defaults) + [x for x in fn.args.kw_defaults if x is not None]:
            if any(isinstance(x, ast.Call) and 'uuid' in ast.unparse(x.func) for x in ast.walk(d)):
                rep.violation('R4', loc(cls.module, d), f'{cls.name}.{fn.name}', f'default argument {norm(d)}',
                              'a "fresh" id in a default argument is evaluated once at import: every call gets the same id, so a '
                              'second snapshot silently replaces the first and rolling back to the older one restores the wrong state')
    ids = [n for n in walk_no_nested(sn) if isinstance(n, ast.Assign) and any(isinstance(x, ast.Call) and ast.unparse(x.func) == 'uuid.uuid4' for x in ast.walk(n.value))]
    cl = [c for c in walk_no_nested(sn) if isinstance(c, ast.Call) and call_name(c) == 'clone_graph']
    rep.instance('R4', f'snapshot: id {norm(ids[0]) if ids else "?"}; {norm(cl[0]) if cl else "?"}')
    ok = ids and cl and ast.unparse(kwarg(cl[0], 'new_graph_id')) == ids[0].targets[0].id and ast.unparse(cl[0].func.value) == 'self'
    rets = [n for n in walk_no_nested(sn) if isinstance(n, ast.Return)]
    ok = ok and rets and ast.unparse(rets[-1].value) == ids[0].targets[0].id
    if not ok:
        rep.violation('R4', loc(acb.module, sn), 'ABCCBMPropertyGraph.snapshot', 'snapshot id',
                      'a snapshot must clone the combined model to an id generated by uuid4() inside the call and return that id')

    # ---- R5 ----
    guards = [n for n in ast.walk(und) if isinstance(n, ast.If) and any(isinstance(x, ast.Raise) for x in n.body)]
    both = [g for g in guards if ast.unparse(g.test).count('is not None') == 2 and isinstance(g.test, ast.BoolOp) and isinstance(g.test.op, ast.And)]
    writes = [n for n in ast.walk(und) if isinstance(n, ast.Assign) and isinstance(n.targets[0], ast.Subscript) and 'node_props' in ast.unparse(n.targets[0].value)]
    rep.instance('R5', f'_update_node_delegations: both-sides guard {[norm(g.test, 90) for g in both]} before write {[norm(w_, 70) for w_ in writes]}')
    if not both or not writes or both[0].lineno > writes[0].lineno:
        rep.violation('R5', loc(mod, und), 'Neo4jCBMGraph._update_node_delegations', 'both-sides guard missing or after the write',
                      'when both the combined model and the merged model carry delegations for the node the merge must be refused '
                      'before anything is written')
    else:
        names = sorted(x.id for x in ast.walk(both[0].test) if isinstance(x, ast.Name))
        if len(set(names)) != 2:
            rep.violation('R5', loc(mod, both[0]), 'Neo4jCBMGraph._update_node_delegations', norm(both[0].test, 100), 'the guard must test both sides')
    check_flag_scope(rep, 'R5', mod, 'Neo4jCBMGraph._update_node_delegations', und,
                     'a label-only delegation that the merged model brings to a shared node is computed but never written back, '
                     'so the combined model depends on merge order')
    # the value written is the non-None side: a selection `X if X is not None else Y` / `Y if X is None else X`
    def picks_non_none(n):
        t = n.test
        if not (isinstance(t, ast.Compare) and len(t.ops) == 1 and isinstance(t.left, ast.Name) and
                isinstance(t.comparators[0], ast.Constant) and t.comparators[0].value is None):
            return False
        x = t.left.id
        if isinstance(t.ops[0], ast.IsNot):
            return isinstance(n.body, ast.Name) and n.body.id == x and not (isinstance(n.orelse, ast.Name) and n.orelse.id == x)
        if isinstance(t.ops[0], ast.Is):
            return isinstance(n.orelse, ast.Name) and n.orelse.id == x and not (isinstance(n.body, ast.Name) and n.body.id == x)
        return False
    sel = [n for n in ast.walk(und) if isinstance(n, ast.IfExp) and not any(isinstance(x, ast.Call) and call_name(x) == 'from_json' for x in ast.walk(n))]
    rep.instance('R5', f'_update_node_delegations: written value selected by {[norm(n, 80) for n in sel]}')
    if True:
        if True:
            ok = any(picks_non_none(n) for n in sel)
            if not ok:
                rep.violation('R5', loc(mod, und), 'Neo4jCBMGraph._update_node_delegations', 'written value', 'the non-empty side must be written')

    # the per-property loop of the delegation update is never left early: the write-back of what it collected follows the loop
    from ..lints import loops_left_early, stale_whole_node_writes
    for l_, x_ in loops_left_early(und):
        rep.instance('R5', f'_update_node_delegations: loop over {norm(l_.iter, 60)} left by {type(x_).__name__.lower()}')
        rep.violation('R5', loc(mod, x_), 'Neo4jCBMGraph._update_node_delegations', f'{type(x_).__name__.lower()} inside the loop over {norm(l_.iter, 50)}',
                      f'the loop over the delegation properties is left at the first property neither side speaks for: the other property is '
                      f'never examined and what was collected is not written back, so a shared node that carries only one of the two delegation '
                      f'properties loses it depending on which model is merged first')
    rep.instance('R5', f'_update_node_delegations: early exits from the property loop: {len(loops_left_early(und))}')
    # what is decoded for one delegation property is decided within that iteration: nothing decoded for the labels is still there
    # when the capacities are looked at
    from ..lints import iteration_values_carried
    carried = iteration_values_carried(und)
    rep.instance('R5', f'_update_node_delegations: values of one property carried into the next iteration: {[c_[0] for c_ in carried]}')
    for nm_, l_, rd_ in carried:
        rep.violation('R5', loc(mod, rd_), 'Neo4jCBMGraph._update_node_delegations', f'`{nm_}` read in the loop over {norm(l_.iter, 50)} without being set in that iteration',
                      f'`{nm_}` is decoded from the property of the current iteration only on some paths, and read on a path where this '
                      f'iteration has not set it: when the node has the first delegation property but not the second, the value decoded for the '
                      f'first one is taken for the second as well (label delegations written into the capacity property, or a merge refused '
                      f'because "both sides speak" although only one does)')
    # ---- R7: relationships are part of what a model contributes ----
    rep.rule('R7', 'unmerge can take away the relationships only the unmerged model contributed (contributor recorded on relationships, or relationships removed)', floor=1)
    umi = inline(prog, cbm, um)
    mai = inline(prog, cbm, ma)
    REL_REMOVERS = ('remove_edge', 'remove_edges_from', 'unlink', 'delete_link', 'remove_link', 'del_link', 'delete_relationship')
    removes_rel = [c for c in ast.walk(umi) if isinstance(c, ast.Call) and call_name(c) in REL_REMOVERS]
    cypher_del = [x for x in ast.walk(umi) if isinstance(x, ast.Constant) and isinstance(x.value, str) and 'delete r' in x.value.lower().replace('  ', ' ')]
    records_rel = [c for c in ast.walk(mai) if isinstance(c, ast.Call) and call_name(c) in ('update_link_property', 'update_link_properties')]
    rep.instance('R7', f'merge_adm records a contributor on relationships: {bool(records_rel)}; unmerge_adm removes relationships between nodes that stay: '
                       f'{bool(removes_rel or cypher_del)}')
    if not records_rel and not (removes_rel or cypher_del):
        rep.violation('R7', loc(mod, um), 'Neo4jCBMGraph.unmerge_adm', 'relationships contributed by one model only are never removed',
                      'unmerge_adm deletes the nodes whose contributor list becomes empty and nothing else; a relationship that only the unmerged '
                      'model contributed, between two nodes that stay because other models contributed them too (two adjacent stitch nodes), has '
                      'no record of its contributor and is still there after the unmerge: merge followed by unmerge does not restore the '
                      'previous combined model')
    # ---- R8: the node merge of the in-memory backend leaves none of networkx's bookkeeping on the links (shared with C05) ----
    rep.rule('R8', 'merge_nodes removes the contraction bookkeeping from every link of the merged node', floor=1)
    from .c05 import contraction_removed_from_all_edges
    from .. import nxgraph as nxg_
    nxpg_ = prog.cls(nxg_.NXPG)
    mn_ = nxpg_.methods.get('merge_nodes')
    if mn_ is None:
        raise AnalysisError('NetworkXPropertyGraph.merge_nodes vanished')
    mni_ = inline(prog, nxpg_, mn_)
    cn_ = [c for c in ast.walk(mni_) if isinstance(c, ast.Call) and call_name(c) == 'contracted_nodes']
    no_store_ = any(k.arg == 'store_contraction_as' and isinstance(k.value, ast.Constant) and k.value.value is None for c in cn_ for k in c.keywords)
    ok8 = no_store_ or contraction_removed_from_all_edges(mni_)
    rep.instance('R8', f'NetworkXPropertyGraph.merge_nodes: contraction attribute removed from every link of the merged node: {ok8}')
    if not ok8:
        rep.violation('R8', loc(nxpg_.module, mn_), 'NetworkXPropertyGraph.merge_nodes', 'contraction attribute left on (some of) the merged links',
                      'nx.contracted_nodes leaves a `contraction` attribute (a dict keyed by internal ids) on every link both nodes had in common; '
                      'unless it is removed from all links of the merged node, the combined model carries a property no model contributed: the '
                      'result depends on merge order, unmerge does not restore the previous model, and serialization fails')

    # ---- R6 ----
    utxt = ast.unparse(um)
    gid = [a.arg for a in um.args.kwonlyargs + um.args.args if a.arg != 'self'][0]
    umi = inline(prog, cbm, um)
    uenv_ = local_env(umi)

    def contrib_remove(c):
        # <node's contributor list>.remove(..): the list named in place or through a local (also inside an inlined helper)
        return isinstance(c, ast.Call) and call_name(c) == 'remove' and isinstance(c.func, ast.Attribute) and \
            ('adm_graph_ids' in ast.unparse(c.func.value) or 'adm_graph_ids' in ctext(c.func.value, uenv_))
    rm = [c for c in ast.walk(umi) if contrib_remove(c)]
    rep.instance('R6', f'unmerge: {norm(rm[0]) if rm else "?"}')
    if not rm or not rm[0].args or gid not in (ast.unparse(rm[0].args[0]), ctext(rm[0].args[0], uenv_)):
        rep.violation('R6', loc(mod, um), 'Neo4jCBMGraph.unmerge_adm', 'contributor not removed from the list', 'unmerge must remove the given model id from each node\'s contributor list')
    umi = inline(prog, cbm, um)
    for w_, pv_, o_ in stale_whole_node_writes(umi):
        rep.violation('R6', loc(mod, w_), 'Neo4jCBMGraph.unmerge_adm', f'whole-node write-back of a property dictionary read before {call_name(o_)}',
                      f'`{pv_}` was read from the node before `{norm(o_, 70)}` changed the node; writing the whole dictionary back afterwards '
                      f'restores the old values (here: the contributor list that still names the unmerged model), so the node is never '
                      f'recognised as contributed by nobody and merge followed by unmerge does not restore the model')
    rep.instance('R6', f'unmerge: whole-node write-backs of stale dictionaries: {len(stale_whole_node_writes(umi))}')
    uloops = [l for l in walk_no_nested(umi) if isinstance(l, ast.For) and any(contrib_remove(c) for c in ast.walk(l))]
    if not uloops:
        raise AnalysisError('unmerge_adm: loop over the nodes of the combined model not found')
    ul = uloops[0]
    si_vars = tuple(n.targets[0].id for n in ast.walk(ul) if isinstance(n, ast.Assign) and isinstance(n.targets[0], ast.Name) and isinstance(n.value, ast.Call)
                    and call_name(n.value) == 'from_json' and 'StructuralInfo' in ast.unparse(n.value.func))

    def u_sink(st):
        if isinstance(st, ast.Expr) and isinstance(st.value, ast.Call):
            c = st.value
            if call_name(c) == 'append' and isinstance(c.func.value, ast.Name):
                return (c.func.value, ast.Constant(value='collect-for-deletion'))
            if call_name(c) in ('update_node_property', 'unset_node_property'):
                pn = kwarg(c, 'prop_name')
                return (pn, ast.Constant(value='write:' + (fold_name(pn) or 'delegations')))
        return None
    try:
        uouts = merge_outcomes(branch_values(ul.body, u_sink, follow_loops=True, opaque=si_vars))
    except Unknown as u:
        raise AnalysisError(f'unmerge_adm not analysable: {u}')
    ids_txt = [f'{v}.adm_graph_ids' for v in si_vars]
    def conds_of(kind):
        return [set(o.conds) for o in uouts if o.vtext == repr(kind)]
    dele = conds_of('collect-for-deletion')
    wsi = conds_of('write:StructuralInfo')
    wdel = [set(o.conds) for o in uouts if o.vtext.startswith("'write:") and 'StructuralInfo' not in o.vtext]
    rep.instance('R6', f'unmerge: deleted under {[sorted(c) for c in dele]}; contributor list written back under {[sorted(c) for c in wsi]}')
    ok = bool(dele) and bool(wsi) and all(any(f'{gid} in {i}' in c for i in ids_txt) and any(f'not {i}' in c for i in ids_txt) for c in dele) and \
        all(any(f'{gid} in {i}' in c for i in ids_txt) and any(i in c for i in ids_txt) for c in wsi)
    if not ok:
        rep.violation('R6', loc(mod, um), 'Neo4jCBMGraph.unmerge_adm', 'empty-list handling',
                      'a node whose contributor list becomes empty must be deleted; otherwise the shortened list must be written back')
    rep.instance('R6', f'unmerge: delegation clean-up reached under {[sorted(c) for c in wdel]}')
    for c in wdel:
        dep = [t for t in c if any(t in (f'{gid} in {i}', f'{gid} not in {i}', i, f'not {i}') for i in ids_txt)]
        if dep:
            rep.violation('R6', loc(mod, um), 'Neo4jCBMGraph.unmerge_adm', f'delegation clean-up depends on {sorted(dep)}',
                          'the delegations of the unmerged model are only removed from a node under a condition on its contributor list: on '
                          'nodes that stay in the combined model (other models still contribute) the delegation entry of the unmerged model '
                          'is left behind, so unmerge is not the inverse of merge')
    dn = [c for c in ast.walk(um) if isinstance(c, ast.Call) and call_name(c) == 'delete_node']
    rep.instance('R6', f'unmerge: deletes {norm(dn[0]._parent._parent.iter) if dn and isinstance(dn[0]._parent._parent, ast.For) else "?"}')
    del_lists = {c.func.value.id for c in ast.walk(ul) if isinstance(c, ast.Call) and call_name(c) == 'append' and isinstance(c.func.value, ast.Name)}
    if not dn or not isinstance(dn[0]._parent._parent, ast.For) or ast.unparse(dn[0]._parent._parent.iter) not in del_lists or \
            not (dn[0].keywords and ast.unparse(dn[0].keywords[0].value) == ast.unparse(dn[0]._parent._parent.target)):
        rep.violation('R6', loc(mod, um), 'Neo4jCBMGraph.unmerge_adm', 'deletion loop', 'the collected nodes must be deleted')
    rbid = [c for c in ast.walk(umi) if isinstance(c, ast.Call) and call_name(c) == 'remove_by_id']
    rep.instance('R6', f'unmerge: {norm(rbid[0]) if rbid else "?"}')
    if not rbid or not rbid[0].args or gid not in (ast.unparse(rbid[0].args[0]), ctext(rbid[0].args[0], uenv_)):
        rep.violation('R6', loc(mod, um), 'Neo4jCBMGraph.unmerge_adm', 'delegations of the model not removed', 'delegations keyed by the unmerged model id must be removed')
    # what unmerge leaves behind when the last delegation of a node is gone must read back as "no delegations"
    dcls = prog.module('fim.slivers.delegations').classes['Delegations']
    dfj = inline(prog, dcls, dcls.methods['from_json'])
    jparam = [p_ for p_ in func_params(dfj) if p_ not in ('cls', 'atype')][0]
    absent_guards = [n for n in dfj.body if isinstance(n, ast.If) and any(isinstance(x, ast.Return) and (x.value is None or (isinstance(x.value, ast.Constant) and x.value.value is None))
                                                                          for x in n.body)]
    if not absent_guards:
        raise AnalysisError('Delegations.from_json: absent-value guard not found')

    def reads_back_absent(value):
        fold = lambda e: prog.const_eval(e, dcls.module, dcls)
        try:
            return bool(eval_test(canon(absent_guards[0].test), {jparam: value}, fold))
        except Unknown:
            return None
    def json_readers_absent(value):
        """names of the get_node_json_property_as_object implementations that do NOT read ``value`` as "property absent"
        (they hand it to json.loads, which fails on anything that is not JSON)"""
        bad = []
        for spec_ in ('fim.graph.neo4j_property_graph:Neo4jPropertyGraph', 'fim.graph.networkx_property_graph:NetworkXPropertyGraph'):
            try:
                rc_ = prog.cls(spec_)
            except Exception:
                continue
            rf_ = rc_.methods.get('get_node_json_property_as_object')
            if rf_ is None:
                continue
            guards_ = [n for n in walk_no_nested(rf_) if isinstance(n, ast.If) and any(isinstance(x, ast.Return) and (x.value is None or (isinstance(x.value, ast.Constant) and x.value.value is None)) for x in n.body)]
            fold_ = lambda e, _c=rc_: prog.const_eval(e, _c.module, _c)
            absent = False
            for g in guards_:
                names_ = [x.id for x in ast.walk(g.test) if isinstance(x, ast.Name) and x.id != 'self']
                for nm in set(names_):
                    try:
                        if eval_test(canon(g.test), {nm: value}, fold_):
                            absent = True
                    except Unknown:
                        pass
                    except Exception:
                        pass
            if not absent:
                bad.append(rc_.name)
        return bad
    for c in ast.walk(um):
        if isinstance(c, ast.Call) and call_name(c) == 'unset_node_property':
            pn = kwarg(c, 'prop_name')
            names = {fold_prop(pn)} if pn is not None and fold_prop(pn) else (prop_sources(um, pn.id) if isinstance(pn, ast.Name) else set())
            if names & {'LabelDelegations', 'CapacityDelegations'}:
                rep.instance('R6', 'unmerge: delegation property removed (unset) once the model\'s delegations are removed')
        if isinstance(c, ast.Call) and call_name(c) == 'update_node_property':
            pn, pv = kwarg(c, 'prop_name'), kwarg(c, 'prop_val')
            names = {fold_prop(pn)} if pn is not None and fold_prop(pn) else (prop_sources(um, pn.id) if isinstance(pn, ast.Name) else set())
            if not names & {'LabelDelegations', 'CapacityDelegations'}:
                continue
            ok_ = isinstance(pv, ast.Constant) and isinstance(pv.value, str) and reads_back_absent(pv.value) is True
            if ok_:
                bad_readers = json_readers_absent(pv.value)
                if bad_readers:
                    rep.violation('R6', loc(mod, c), 'Neo4jCBMGraph.unmerge_adm', f'delegation property left as {norm(pv, 30)} instead of being removed',
                                  f'the property is written as {norm(pv, 30)}: Delegations.from_json reads that as "no delegations", but '
                                  f'{" and ".join(bad_readers)}.get_node_json_property_as_object (used by get_delegations) hands it to json.loads and '
                                  f'raises; the node differs from its state before the merge (property present) and from a rollback to a snapshot')
            rep.instance('R6', f'unmerge: delegation property left as {norm(pv)} once the model\'s delegations are removed; reads back as absent: {ok_}')
            if not ok_:
                rep.violation('R6', loc(mod, c), 'Neo4jCBMGraph.unmerge_adm', f'delegation property rewritten as {norm(pv, 60)}',
                              f'after the delegations of the unmerged model are removed nothing is left on the node (anything else is rejected just '
                              f'above), and the property is written as {norm(pv, 60)}: unless that is a value Delegations.from_json reads back as '
                              f'"no delegations" (None, empty text), the node still looks delegated to merge - merging the same or another model '
                              f'that delegates on this node then fails with "delegations from both CBM and ADM", i.e. unmerge is not the inverse of merge')
    # guard: only nodes to which the model contributed are touched
    def member_tests(n):
        # the test itself, or (guard clause: `if id not in list: <leave>`) its negation; the list named in place or by a local
        for cj in conjuncts(canon(n.test)):
            yield ctext(cj)
            yield ctext(cj, uenv_)
        t_ = n.test
        if isinstance(t_, ast.Compare) and len(t_.ops) == 1 and isinstance(t_.ops[0], ast.NotIn) and n.orelse:
            pos = ast.Compare(left=t_.left, ops=[ast.In()], comparators=t_.comparators)
            yield ctext(pos)
            yield ctext(pos, uenv_)
    # locals that merely name a node's contributor list (they are mutated by .remove, so copy propagation leaves them alone)
    ids_alias = [a_.targets[0].id for a_ in ast.walk(umi) if isinstance(a_, ast.Assign) and len(a_.targets) == 1 and
                 isinstance(a_.targets[0], ast.Name) and ast.unparse(a_.value) in ids_txt]
    ing = [n for n in ast.walk(umi) if isinstance(n, ast.If) and any(t_ in [f'{gid} in {i}' for i in ids_txt + ids_alias] for t_ in member_tests(n))]
    if not ing:
        rep.violation('R6', loc(mod, um), 'Neo4jCBMGraph.unmerge_adm', 'membership guard', 'only nodes the model contributed to may be changed')


CF = 'fim/graph/resources/neo4j_cbm.py'
MUTANTS = [
    {'name': 'rollback-deletes-before-checking-snapshot', 'file': 'fim/graph/resources/abc_cbm.py', 'rule': 'R4',
     'find': "        if not cbm_temp.graph_exists():\n            raise PropertyGraphQueryException(graph_id=graph_id, node_id=None,\n                                              msg=\"Unable to roll back, no such snapshot\")\n",
     'replace': ""},
    {'name': 'unmerge-leaves-empty-text', 'file': 'fim/graph/resources/neo4j_cbm.py', 'rule': 'R6',
     'find': "                    self.unset_node_property(node_id=node, prop_name=del_prop)\n",
     'replace': "                    self.update_node_property(node_id=node, prop_name=del_prop, prop_val='')\n"},
    {'name': 'structural-info-stamped-on-source', 'file': CF, 'rule': 'R1',
     'find': '        temp_adm_graph.update_nodes_property(prop_name=self.PROP_STRUCTURAL_INFO,\n                                             prop_val=si.to_json())',
     'replace': '        adm.update_nodes_property(prop_name=self.PROP_STRUCTURAL_INFO,\n                                  prop_val=si.to_json())'},
    {'name': 'delegations-keyed-by-temporary-id', 'file': CF, 'rule': 'R2',
     'find': 'temp_adm_graph.rewrite_delegations(real_adm_id=adm.graph_id)', 'replace': 'temp_adm_graph.rewrite_delegations(real_adm_id=temp_adm_graph_id)'},
    {'name': 'contributor-appended-with-temp-id', 'file': CF, 'rule': 'R2',
     'find': 'si.adm_graph_ids.append(adm.graph_id)', 'replace': 'si.adm_graph_ids.append(temp_adm_graph.graph_id)'},
    {'name': 'rollback-rehome-before-delete', 'file': 'fim/graph/resources/abc_cbm.py', 'rule': 'R4',
     'find': '        # delete self\n        self.delete_graph()\n        # clone other graph into self\n        # renumber cbm temp to be the original graph id\n        cbm_temp.update_nodes_property(prop_name=ABCPropertyGraphConstants.GRAPH_ID,\n                                       prop_val=self.graph_id)',
     'replace': '        cbm_temp.update_nodes_property(prop_name=ABCPropertyGraphConstants.GRAPH_ID,\n                                       prop_val=self.graph_id)\n        self.delete_graph()'},
    {'name': 'both-sides-guard-dropped', 'file': CF, 'rule': 'R5',
     'find': "            if adm_delegations is not None and cbm_delegations is not None:\n                raise PropertyGraphQueryException(graph_id=self.graph_id, node_id=node_id,\n                                                  msg=f'This node contains delegations from both CBM and ADM graph,'\n                                                      f'which is not allowed.')\n",
     'replace': ''},
    {'name': 'unmerge-removes-nothing-from-delegations', 'file': CF, 'rule': 'R6',
     'find': '                    delegations.remove_by_id(graph_id)\n', 'replace': ''},
]
TWINS = [
    {'name': 'real-id-through-local', 'file': CF,
     'find': '        si = StructuralInfo(adm_graph_ids=[adm.graph_id])\n        temp_adm_graph.update_nodes_property',
     'replace': '        si = StructuralInfo(adm_graph_ids=[adm.graph_id])\n        _unused = None\n        temp_adm_graph.update_nodes_property'},
]
