"""
C13 -- partitioning an aggregate model yields sound per-delegation models.

R1 the original is never mutated: every mutating graph call in generate_adms/_update_delegations_on_node has a clone
   (or the graph parameter) as receiver
R2 the delegation rewrite ranges over all nodes x both delegation types, independently of the keep set, with the
   per-id subset as value; DELEGATION_TYPE_TO_PROP is exhaustive
R3 every keep set is seeded with the stitch nodes and afterwards only grows; remove set = all nodes - keep set
R4 the three connection-point traces use schema pairs and cover link+peer, service+node owner, service+component owner
R5 partial callee: unset of a delegation property only where the node is known to carry it
R6 re-keying changes only the key and writes back whenever any delegation property changed (flag scope)
"""
import ast

from ..core import AnalysisError, norm, loc, walk_no_nested, attr_chain, call_name, kwarg
from ..schema import containment_schema
from ..flags import check_flag_scope
from ..normalize import unroll_const_loops, value_under, clone, inline, local_env, expand, canon, ctext, conjuncts, branch_values, merge_outcomes, Unknown, _enclosing
from .. import flow
from ..cfg import CFG
from . import c12

def _is_empty_collection(v):
    if isinstance(v, (ast.List, ast.Set, ast.Tuple, ast.Dict)) and not (getattr(v, 'elts', None) or getattr(v, 'keys', None)):
        return True
    return isinstance(v, ast.Call) and isinstance(v.func, ast.Name) and v.func.id in ('list', 'set', 'dict') and not v.args and not v.keywords


def overwritten_accumulators(fn, rep, rule, fq):
    """[(name, loop, assignment)]: locals initialised as an empty collection before a loop, read after that loop, and inside the
    loop rebound by a plain assignment that does not mention them, with no accumulating operation on them in the loop."""
    out = []

    def blocks(node):
        for field in ('body', 'orelse', 'finalbody'):
            b = getattr(node, field, None)
            if isinstance(b, list) and b and isinstance(b[0], ast.stmt):
                yield b
        for h in getattr(node, 'handlers', []) or []:
            yield h.body
    stack = [fn]
    while stack:
        node = stack.pop()
        for blk in blocks(node):
            for i, st in enumerate(blk):
                stack.append(st)
                if not isinstance(st, (ast.For, ast.While)):
                    continue
                inits = {}
                for prev in blk[:i]:
                    if isinstance(prev, ast.Assign) and len(prev.targets) == 1 and isinstance(prev.targets[0], ast.Name) and _is_empty_collection(prev.value):
                        inits[prev.targets[0].id] = prev
                for var in inits:
                    plain = [a for a in ast.walk(st) if isinstance(a, ast.Assign) and any(isinstance(t, ast.Name) and t.id == var for t in a.targets)
                             and not any(isinstance(x, ast.Name) and x.id == var for x in ast.walk(a.value))]
                    accum = [c for c in ast.walk(st) if (isinstance(c, ast.Call) and isinstance(c.func, ast.Attribute) and isinstance(c.func.value, ast.Name)
                                                        and c.func.value.id == var and c.func.attr in ('add', 'append', 'update', 'extend', 'setdefault', 'insert'))
                             or (isinstance(c, ast.AugAssign) and isinstance(c.target, ast.Name) and c.target.id == var)
                             or (isinstance(c, ast.Subscript) and isinstance(c.ctx, ast.Store) and isinstance(c.value, ast.Name) and c.value.id == var)]
                    read_after = any(isinstance(x, ast.Name) and x.id == var and isinstance(x.ctx, ast.Load) for later in blk[i + 1:] for x in ast.walk(later))
                    rep.instance(rule, f'{fq}: {var} (empty before the loop over {norm(st.iter, 40) if isinstance(st, ast.For) else "while"}): '
                                       f'accumulated={len(accum)} reassigned={len(plain)} read after the loop={read_after}')
                    # "keep the best so far" (the reassignment is guarded by a test on the variable itself) is a selection, not an accumulation
                    def guarded_by_itself(a):
                        p_ = getattr(a, '_parent', None)
                        while p_ is not None and p_ is not st:
                            if isinstance(p_, ast.If) and any(isinstance(x, ast.Name) and x.id == var for x in ast.walk(p_.test)):
                                return True
                            p_ = getattr(p_, '_parent', None)
                        return False
                    plain = [a for a in plain if not guarded_by_itself(a)]
                    if plain and not accum and read_after:
                        out.append((var, st, plain[0]))
    return out


ARM = 'fim.graph.resources.abc_arm:ABCARMPropertyGraph'
ADM = 'fim.graph.resources.abc_adm:ABCADMPropertyGraph'
MUTATORS = {'update_node_property', 'unset_node_property', 'update_node_properties', 'update_nodes_property', 'delete_node',
            'add_node', 'add_link', 'merge_nodes', 'delete_graph', 'update_link_property', 'update_link_properties',
            'unset_link_property', 'rewrite_delegations'}


def _ancestors(node, fn):
    out = []
    p = getattr(node, '_parent', None)
    while p is not None and p is not fn:
        out.append(p)
        p = getattr(p, '_parent', None)
    return out


def run(prog, rep):
    rep.extra['explanation'] = (
        'generate_adms and its helpers are analysed for receiver purity (only clones are mutated), for the ranges and '
        'guards of the delegation-rewrite loops, for monotone construction of the keep sets from the stitch nodes, for '
        'agreement of the connection-point traces with the containment schema, for the presence precondition of unset, '
        'and re-keying for key-only change and write-back flag scope. Sub-model equality is not decided.')
    rep.rule('R1', 'only clones are mutated', floor=3)
    rep.rule('R2', 'rewrite ranges over all nodes x both types, independent of the keep set', floor=4)
    rep.rule('R3', 'keep sets seeded with stitch nodes, only grow; remove = all - keep', floor=4)
    rep.rule('R4', 'traces use schema pairs and cover link/peer/service/owners', floor=3)
    rep.rule('R5', 'unset only where the property is present', floor=1)
    rep.rule('R6', 're-keying changes only the key; write-back flag scope', floor=3)

    arm = prog.cls(ARM)
    mod = arm.module
    ga = arm.methods.get('generate_adms')
    ud = arm.methods.get('_update_delegations_on_node')
    if ga is None or ud is None:
        raise AnalysisError('generate_adms / _update_delegations_on_node vanished')
    # helpers split off generate_adms are read as part of it (the rewrite helper itself and the catalogue stay calls)
    ga = inline(prog, arm, ga, exclude=('_update_delegations_on_node', 'catalog_delegations'), depth=4)
    # ... and loops over class-level constant tuples (e.g. the classes that can own a service) row by row
    ga = unroll_const_loops(prog, arm, ga)

    # only aliases (locals naming an attribute / an element of a container) are expanded, not computed values
    def _alias(v):
        # `d.get(k)` / `d.get(k, None)` names the element d[k] (None standing for "absent", which is how the rules read it)
        if isinstance(v, ast.Call) and isinstance(v.func, ast.Attribute) and v.func.attr == 'get' and not v.keywords and \
                (len(v.args) == 1 or (len(v.args) == 2 and isinstance(v.args[1], ast.Constant) and v.args[1].value is None)):
            return ast.Subscript(value=v.func.value, slice=v.args[0], ctx=ast.Load())
        return v
    genv = {k: _alias(v) for k, v in local_env(ga).items() if isinstance(_alias(v), (ast.Name, ast.Attribute, ast.Subscript))}
    # the locals the rules talk about, by the role they play (how they are produced), under canonical names
    roles = {}
    for n in walk_no_nested(ga):
        if isinstance(n, ast.Assign) and len(n.targets) == 1 and isinstance(n.value, ast.Call):
            cn_ = call_name(n.value)
            tg = n.targets[0]
            if cn_ == 'catalog_delegations' and isinstance(tg, ast.Tuple) and len(tg.elts) == 3 and all(isinstance(e, ast.Name) for e in tg.elts):
                for e, c_ in zip(tg.elts, ('unique_delegation_ids', 'keep_nodes_sets', 'delegations_by_node')):
                    roles[e.id] = c_
            elif cn_ == 'get_stitch_nodes' and isinstance(tg, ast.Name):
                roles[tg.id] = 'stitch_nodes'
        if isinstance(n, ast.Assign) and len(n.targets) == 1 and isinstance(n.targets[0], ast.Name) and isinstance(n.value, ast.DictComp) and \
                isinstance(n.value.value, ast.Call) and ast.unparse(n.value.value.func).endswith('DelegationInfo'):
            roles[n.targets[0].id] = 'delegations_info'
    if len(set(roles.values())) < 5:
        raise AnalysisError(f'generate_adms: the catalogue / stitch / per-delegation info locals were not found (found {sorted(roles.values())})')

    class _Roles(ast.NodeTransformer):
        def visit_Name(self, node):
            if node.id in roles:
                return ast.copy_location(ast.Name(id=roles[node.id], ctx=node.ctx), node)
            return node

    def RN(e):
        return _Roles().visit(clone(e))

    def U(e):
        return ast.unparse(RN(e))
    T = lambda e: ctext(RN(expand(e, genv))) if e is not None else None

    # ---- R1 ----
    for fn in (ga, ud):
        fq = f'ABCARMPropertyGraph.{fn.name}'
        for c in walk_no_nested(fn):
            if isinstance(c, ast.Call) and isinstance(c.func, ast.Attribute) and c.func.attr in MUTATORS:
                recv = ast.unparse(c.func.value)
                rep.instance('R1', f'{fq}: {recv}.{c.func.attr}(...)')
                ok = recv.endswith('.graph') or recv == 'graph' or recv.endswith('_graph') or recv == 'clone'
                if recv == 'self' or not ok:
                    rep.violation('R1', loc(mod, c), fq, norm(c, 110),
                                  f'{c.func.attr} is applied to `{recv}` - partitioning must only change the per-delegation '
                                  f'clones, the original aggregate model has to stay untouched')
    for c in walk_no_nested(ga):
        if isinstance(c, ast.Call) and call_name(c) == '_update_delegations_on_node':
            g = kwarg(c, 'graph')
            rep.instance('R1', f'generate_adms: helper called with graph={norm(g) if g is not None else None}')
            if g is None or T(g) == 'self' or not T(g).endswith('.graph'):
                rep.violation('R1', loc(mod, c), 'ABCARMPropertyGraph.generate_adms', norm(c, 110),
                              'the delegation rewrite is applied to the original model instead of the clone of this delegation id')
    # clone per delegation id
    clones = [c for c in walk_no_nested(ga) if isinstance(c, ast.Call) and call_name(c) == 'clone_graph']
    rep.instance('R1', f'generate_adms: {[norm(c, 90) for c in clones]}')
    if not clones or ast.unparse(clones[0].func.value) != 'self':
        rep.violation('R1', loc(mod, ga), 'ABCARMPropertyGraph.generate_adms', 'no clone of self per delegation', 'each partition must start as a clone of the original')

    # ---- R2 ----
    dtypes = prog.enum_members('fim.slivers.delegations:DelegationType')
    d2p = prog.class_const(arm, 'DELEGATION_TYPE_TO_PROP')
    keys = {k.name for k in d2p}
    rep.instance('R2', f'DELEGATION_TYPE_TO_PROP keys {sorted(keys)} vs DelegationType {sorted(dtypes)}')
    for t in dtypes:
        if t not in keys:
            rep.violation('R2', loc(mod, arm.assigns['DELEGATION_TYPE_TO_PROP']), 'ABCARMPropertyGraph.DELEGATION_TYPE_TO_PROP', f'no entry for {t}',
                          f'{t} delegations are never rewritten')
    want_props = {'LABEL': 'LabelDelegations', 'CAPACITY': 'CapacityDelegations'}
    for k, v in d2p.items():
        if want_props.get(k.name) != v:
            rep.violation('R2', loc(mod, arm.assigns['DELEGATION_TYPE_TO_PROP']), 'ABCARMPropertyGraph.DELEGATION_TYPE_TO_PROP', f'{k.name} -> {v}',
                          'delegation type mapped to the wrong graph property')
    # the rewrite loops: outer over delegation ids, then nodes, then types
    call_sites = [c for c in walk_no_nested(ga) if isinstance(c, ast.Call) and call_name(c) == '_update_delegations_on_node']
    if len(call_sites) != 1:
        raise AnalysisError('generate_adms: rewrite call site not found')
    cs = call_sites[0]
    loops = []
    p = cs
    while p is not ga:
        p = p._parent
        if isinstance(p, ast.For):
            loops.append(p)
    iters = [ast.unparse(l.iter) for l in loops]
    rep.instance('R2', f'generate_adms: rewrite nested in loops over {iters}')
    if len(loops) < 3:
        rep.violation('R2', loc(mod, cs), 'ABCARMPropertyGraph.generate_adms', f'rewrite loops {iters}', 'the rewrite must range over delegation ids, nodes and types')
    else:
        type_loop, node_loop, id_loop = loops[0], loops[1], loops[2]
        members = {attr_chain(e)[-1] for e in type_loop.iter.elts} if isinstance(type_loop.iter, (ast.List, ast.Tuple)) else \
            (set(dtypes) if ast.unparse(type_loop.iter) == 'DelegationType' else set())
        if members != set(dtypes):
            rep.violation('R2', loc(mod, type_loop), 'ABCARMPropertyGraph.generate_adms', f'type loop over {ast.unparse(type_loop.iter)}',
                          'the rewrite must cover every delegation type')
        if ast.unparse(node_loop.iter) != 'self.node_ids':
            rep.violation('R2', loc(mod, node_loop), 'ABCARMPropertyGraph.generate_adms', f'node loop over {ast.unparse(node_loop.iter)}',
                          'the rewrite must cover every node of the model')
        if U(id_loop.iter) != 'unique_delegation_ids':
            rep.violation('R2', loc(mod, id_loop), 'ABCARMPropertyGraph.generate_adms', f'id loop over {ast.unparse(id_loop.iter)}',
                          'one partition per delegation id')
        # skip conditions inside the node loop may only depend on the delegations of the node
        node_var = ast.unparse(node_loop.target)
        type_var = ast.unparse(type_loop.target)
        not_catalogued = (f'{type_var} not in delegations_by_node[{node_var}]', f'delegations_by_node[{node_var}][{type_var}] is None')

        def under_not_catalogued(stmt):
            _, conds_ = _enclosing(stmt, node_loop)
            return any(ctext(cj) in not_catalogued for c_ in conds_ for cj in conjuncts(canon(RN(expand(c_, genv)))))
        for n in ast.walk(node_loop):
            if isinstance(n, ast.If) and any(isinstance(x, ast.Continue) for x in n.body):
                t = T(n.test)
                rep.instance('R2', f'generate_adms: skip condition {norm(n.test, 100)}')
                # a skip that sits under "nothing is catalogued for this type" narrows that skip and is the same kind of reason
                if ('delegations_by_node' not in t and not under_not_catalogued(n)) or 'keep_nodes' in t or 'remove_nodes' in t:
                    rep.violation('R2', loc(mod, n), 'ABCARMPropertyGraph.generate_adms', norm(n.test, 120),
                                  'a node is skipped by the delegation rewrite for a reason other than "it carries no delegation '
                                  '(of this type)": nodes that are kept only because they are traced later (link peers, owning '
                                  'services and their owners) keep the delegation entries of every other delegation id')
        # value and arguments of the rewrite call
        val = kwarg(cs, 'prop_val')
        pn = kwarg(cs, 'prop_name')
        g = kwarg(cs, 'graph')
        nid = kwarg(cs, 'node_id')
        vdef = None
        if isinstance(val, ast.Name):
            for n in ast.walk(node_loop):
                if isinstance(n, ast.Assign) and any(isinstance(t, ast.Name) and t.id == val.id for t in n.targets):
                    if isinstance(n.value, ast.Constant) and n.value.value is None:
                        # "no entries" may be written only where nothing is catalogued for this node and type
                        if n is not node_loop and any(n is x for x in ast.walk(node_loop)) and not under_not_catalogued(n) and \
                                any(isinstance(x, ast.stmt) and x is n for b in ast.walk(node_loop) for x in getattr(b, 'body', []) if isinstance(b, ast.If)):
                            rep.violation('R2', loc(mod, n), 'ABCARMPropertyGraph.generate_adms', norm(n),
                                          'the entries of a catalogued (node, type) pair are replaced by None')
                        continue
                    vdef = n.value
        rep.instance('R2', f'generate_adms: rewrite value {norm(vdef) if vdef is not None else norm(val)}')
        node_var = ast.unparse(node_loop.target)
        type_var = ast.unparse(type_loop.target)
        id_var = ast.unparse(id_loop.target)
        want_val = f'delegations_by_node[{node_var}][{type_var}].return_delegations_for_id({id_var})'
        if vdef is None or T(vdef) != want_val:
            rep.violation('R2', loc(mod, cs), 'ABCARMPropertyGraph.generate_adms', f'rewrite value {norm(vdef) if vdef is not None else norm(val)}',
                          f'the value written must be the entries of this node and type for this delegation id ({want_val})')
        pdef = None
        if isinstance(pn, ast.Name):
            for n in ast.walk(node_loop):
                if isinstance(n, ast.Assign) and any(isinstance(t, ast.Name) and t.id == pn.id for t in n.targets):
                    pdef = n.value
        if pdef is None or T(pdef) not in (f'self.DELEGATION_TYPE_TO_PROP[{type_var}]', f'ABCARMPropertyGraph.DELEGATION_TYPE_TO_PROP[{type_var}]'):
            rep.violation('R2', loc(mod, cs), 'ABCARMPropertyGraph.generate_adms', f'rewrite property {norm(pdef) if pdef is not None else norm(pn)}',
                          'the property written must be the one of the current delegation type')
        if T(g) != f'delegations_info[{id_var}].graph' or T(nid) != node_var:
            rep.violation('R2', loc(mod, cs), 'ABCARMPropertyGraph.generate_adms', f'rewrite target {norm(g)} / {norm(nid)}',
                          'the rewrite must address the current node in the clone of the current delegation id')

    # ---- R5 ----
    unsets = [c for c in walk_no_nested(ud) if isinstance(c, ast.Call) and call_name(c) == 'unset_node_property']
    rep.instance('R5', f'_update_delegations_on_node: {len(unsets)} unset call(s); caller guarantees presence')
    if unsets:
        # the caller must skip (node, type) pairs for which the original carries no delegation property: every path to the
        # rewrite call leaves a test through an edge that establishes "catalogued for this node and type" or "the raw
        # property is present on this node"
        ok = False
        if len(loops) >= 2:
            tv = ast.unparse(loops[0].target)
            nv = ast.unparse(loops[1].target)
            # locals holding the raw properties of the current node
            raw = set()
            for n in ast.walk(loops[1]):
                if isinstance(n, ast.Assign) and isinstance(n.value, ast.Call) and call_name(n.value) == 'get_node_properties' and \
                        T(kwarg(n.value, 'node_id') or (n.value.args[0] if n.value.args else None)) == nv:
                    for t_ in n.targets:
                        raw |= {e.id for e in (t_.elts[1:] if isinstance(t_, ast.Tuple) else [t_]) if isinstance(e, ast.Name)}
            pname = kwarg(cs, 'prop_name')
            ptxts = {ctext(pname), T(pname)} if pname is not None else set()
            pos = {f'{tv} in delegations_by_node[{nv}]', f'delegations_by_node[{nv}][{tv}] is not None'}
            neg = {f'{tv} not in delegations_by_node[{nv}]', f'delegations_by_node[{nv}][{tv}] is None'}

            def establishes(e):
                """'t' / 'f' / None: the edge of test `e` on which the property is known to be on the node"""
                c_ = canon(RN(expand(e, genv)))
                cjs = [ctext(x) for x in conjuncts(c_)]
                if any(x in pos for x in cjs):
                    return 't'
                if len(cjs) == 1 and cjs[0] in neg:
                    return 'f'
                if isinstance(e, ast.Compare) and len(e.ops) == 1 and isinstance(e.comparators[0], ast.Name) and e.comparators[0].id in raw and \
                        (ctext(e.left) in ptxts or T(e.left) in ptxts):
                    return 't' if isinstance(e.ops[0], ast.In) else 'f' if isinstance(e.ops[0], ast.NotIn) else None
                return None
            gcfg = CFG(ga)
            cnodes = [x for x in gcfg.nodes if x.ast is not None and x.kind == 'stmt' and any(y is cs for y in ast.walk(x.ast))]
            cut = {}
            for t_ in gcfg.nodes:
                if t_.kind == 'test' and t_.ast is not None and any(t_.ast is x or getattr(x, 'test', None) is t_.ast for x in ast.walk(loops[1])):
                    ek = establishes(t_.ast)
                    if ek:
                        cut[t_.id] = ek
                        rep.instance('R5', f'generate_adms: presence established on the {ek!r} edge of `{norm(t_.ast, 90)}`')
            if cnodes and cut:
                seen = {gcfg.entry.id}
                stack = [gcfg.entry]
                while stack:
                    n_ = stack.pop()
                    for s_, ek in n_.succ:
                        if cut.get(n_.id) == ek:
                            continue
                        if s_.id not in seen:
                            seen.add(s_.id)
                            stack.append(s_)
                ok = cnodes[0].id not in seen and cnodes[0].id in gcfg.reachable()
        if not ok:
            rep.violation('R5', loc(mod, cs), 'ABCARMPropertyGraph.generate_adms', 'unset reachable for an absent property',
                          'unset_node_property raises on the NetworkX backend when the property is absent; the rewrite reaches it '
                          'for a node that carries delegations of the other type only, so generate_adms fails for such models')

    # ---- R3 ----
    gtxt = ast.unparse(ga)
    stitch = [n for n in walk_no_nested(ga) if isinstance(n, ast.Assign) and isinstance(n.value, ast.Call) and call_name(n.value) == 'get_stitch_nodes']
    rep.instance('R3', f'generate_adms: {norm(stitch[0]) if stitch else "stitch nodes not collected"}')
    svar = 'stitch_nodes' if stitch else None
    keep_init = [k.value for c in ast.walk(ga) if isinstance(c, ast.Call) and ast.unparse(c.func).endswith('DelegationInfo')
                 for k in c.keywords if k.arg == 'keep_nodes']
    rep.instance('R3', f'generate_adms: keep_nodes initialised as {norm(keep_init[0]) if keep_init else "?"}')
    comp_keys = [ast.unparse(c.key) for c in ast.walk(ga) if isinstance(c, ast.DictComp) and isinstance(c.value, ast.Call) and
                 ast.unparse(c.value.func).endswith('DelegationInfo')]
    if not svar or not keep_init or not comp_keys or svar not in U(keep_init[0]) or 'union' not in U(keep_init[0]) or \
            f'keep_nodes_sets[{comp_keys[0]}]' not in U(keep_init[0]):
        rep.violation('R3', loc(mod, ga), 'ABCARMPropertyGraph.generate_adms', 'keep set not seeded with delegated nodes and stitch nodes',
                      'every partition must keep the nodes delegated to its id and all stitching elements')
    for n in walk_no_nested(ga):
        if isinstance(n, ast.Call) and isinstance(n.func, ast.Attribute) and ast.unparse(n.func.value).endswith('.keep_nodes'):
            rep.instance('R3', f'generate_adms: keep_nodes.{n.func.attr}(...)')
            if n.func.attr not in ('update', 'add', 'union'):
                rep.violation('R3', loc(mod, n), 'ABCARMPropertyGraph.generate_adms', norm(n, 90), 'the keep set may only grow after its initialisation')
        if isinstance(n, ast.Assign) and any(ast.unparse(t).endswith('.keep_nodes') for t in n.targets):
            rep.violation('R3', loc(mod, n), 'ABCARMPropertyGraph.generate_adms', norm(n, 90), 'the keep set is replaced after its initialisation')
    rm_assign = [n for n in walk_no_nested(ga) if isinstance(n, ast.Assign) and any(ast.unparse(t).endswith('.remove_nodes') for t in n.targets)]
    rm_diff = [n for n in walk_no_nested(ga) if isinstance(n, ast.Call) and isinstance(n.func, ast.Attribute) and
               n.func.attr == 'difference_update' and ast.unparse(n.func.value).endswith('.remove_nodes')]
    rep.instance('R3', f'generate_adms: remove set {[norm(n, 80) for n in rm_assign]} minus {[norm(n.args[0], 60) for n in rm_diff]}')
    ok = rm_assign and ast.unparse(rm_assign[-1].value) == 'set(self.node_ids)' and rm_diff and ast.unparse(rm_diff[0].args[0]).endswith('.keep_nodes')
    if not ok:
        rep.violation('R3', loc(mod, ga), 'ABCARMPropertyGraph.generate_adms', 'remove set is not all nodes minus the keep set',
                      'exactly the nodes outside the keep set must be deleted from the clone')
    dels = [c for c in walk_no_nested(ga) if isinstance(c, ast.Call) and call_name(c) == 'delete_node']
    if not dels or not isinstance(dels[0]._parent._parent, ast.For) or not ast.unparse(dels[0]._parent._parent.iter).endswith('.remove_nodes'):
        rep.violation('R3', loc(mod, ga), 'ABCARMPropertyGraph.generate_adms', 'deletion loop', 'the remove set must be deleted from the clone')

    # ---- R4 ----
    schema = containment_schema(prog)
    traces = [c for c in walk_no_nested(ga) if isinstance(c, ast.Call) and call_name(c) == 'get_first_and_second_neighbor']
    got = []
    for c in traces:
        pairs = schema.pairs_of_call(c, arm)
        got.append(tuple(pairs))
        rep.instance('R4', f'generate_adms trace {pairs}')
        for rel, label in pairs:
            if rel is None or label is None or not schema.has_pair(rel, label):
                rep.violation('R4', loc(mod, c), 'ABCARMPropertyGraph.generate_adms', f'trace step ({rel}, {label})',
                              'the trace uses a (relationship, class) pair that no model writer creates')
        if ast.unparse(c.func.value) != 'self':
            pass
        # keep set is updated with both elements of each pair
    want = {(('connects', 'Link'), ('connects', 'ConnectionPoint')), (('connects', 'NetworkService'), ('has', 'NetworkNode')),
            (('connects', 'NetworkService'), ('has', 'Component'))}
    for w in want:
        if w not in set(got):
            rep.violation('R4', loc(mod, ga), 'ABCARMPropertyGraph.generate_adms', f'trace {w} missing',
                          'a kept interface must bring its link and peer, its owning service and that service\'s owner into the partition')
    full_env = local_env(ga)

    def _trace_element(c):
        # the argument is the element of a loop over the result of a trace call
        if not (c.args and isinstance(c.args[0], ast.Name)):
            return False
        for l in [p_ for p_ in _ancestors(c, ga) if isinstance(p_, ast.For)]:
            if isinstance(l.target, ast.Name) and l.target.id == c.args[0].id:
                it = l.iter
                if isinstance(it, ast.Name):
                    # the nearest preceding assignment of the iterated local
                    defs = [a for a in walk_no_nested(ga) if isinstance(a, ast.Assign) and any(isinstance(t, ast.Name) and t.id == it.id for t in a.targets)
                            and a.lineno <= l.lineno]
                    it = defs[-1].value if defs else it
                return isinstance(it, ast.Call) and call_name(it) == 'get_first_and_second_neighbor'
        return False
    upd_pairs = [c for c in walk_no_nested(ga) if isinstance(c, ast.Call) and isinstance(c.func, ast.Attribute) and c.func.attr == 'update'
                 and ast.unparse(c.func.value).endswith('.keep_nodes') and _trace_element(c)]
    # an element remembered for the next round of traces is a connection point: pair[i] is the i-th hop of the trace it comes from
    for c in walk_no_nested(ga):
        if isinstance(c, ast.Call) and isinstance(c.func, ast.Attribute) and c.func.attr == 'add' and c.args and isinstance(c.args[0], ast.Subscript) and \
                isinstance(c.args[0].value, ast.Name) and isinstance(c.args[0].slice, ast.Constant) and isinstance(c.args[0].slice.value, int):
            pv, idx_ = c.args[0].value.id, c.args[0].slice.value
            for l in [p_ for p_ in _ancestors(c, ga) if isinstance(p_, ast.For) and isinstance(p_.target, ast.Name) and p_.target.id == pv]:
                it = l.iter
                if isinstance(it, ast.Name):
                    defs = [a for a in walk_no_nested(ga) if isinstance(a, ast.Assign) and any(isinstance(t, ast.Name) and t.id == it.id for t in a.targets)
                            and a.lineno <= l.lineno]
                    it = defs[-1].value if defs else it
                if isinstance(it, ast.Call) and call_name(it) == 'get_first_and_second_neighbor':
                    prs = schema.pairs_of_call(it, arm)
                    lab = prs[idx_][1] if 0 <= idx_ < len(prs) else None
                    rep.instance('R4', f'generate_adms: {norm(c, 50)} remembers hop {idx_} of trace {prs}: a {lab}')
                    if lab != 'ConnectionPoint':
                        rep.violation('R4', loc(mod, c), 'ABCARMPropertyGraph.generate_adms', f'{norm(c, 50)} remembers the {lab} of the trace, not the peer interface',
                                      f'the elements remembered from the interface-link-interface trace are the starting points of the owner traces '
                                      f'(service and its owner); hop {idx_} of {prs} is a {lab}, so the peer interface\'s service and owner are never '
                                      f'traced and are deleted from the partition')
    # the peers remembered by the interface-link-interface trace are starting points of the owner traces: the collection
    # an owner trace iterates is, whenever that loop is entered, already extended by the remembered peers
    remembered = set()
    for c in walk_no_nested(ga):
        if isinstance(c, ast.Call) and isinstance(c.func, ast.Attribute) and c.func.attr == 'add' and isinstance(c.func.value, ast.Name) and c.args and \
                isinstance(c.args[0], ast.Subscript) and isinstance(c.args[0].value, ast.Name):
            for l in [p_ for p_ in _ancestors(c, ga) if isinstance(p_, ast.For) and isinstance(p_.target, ast.Name) and p_.target.id == c.args[0].value.id]:
                it = l.iter
                if isinstance(it, ast.Name):
                    defs = [a for a in walk_no_nested(ga) if isinstance(a, ast.Assign) and any(isinstance(t, ast.Name) and t.id == it.id for t in a.targets)
                            and a.lineno <= l.lineno]
                    it = defs[-1].value if defs else it
                if isinstance(it, ast.Call) and call_name(it) == 'get_first_and_second_neighbor' and \
                        tuple(schema.pairs_of_call(it, arm))[:1] == (('connects', 'Link'),):
                    remembered.add(c.func.value.id)
    if remembered:
        tcfg = CFG(ga)
        tdom = tcfg.dominators()
        owner_loops = []
        for c in traces:
            if tuple(schema.pairs_of_call(c, arm))[:1] == (('connects', 'NetworkService'),):
                fl = [p_ for p_ in _ancestors(c, ga) if isinstance(p_, ast.For)]
                # the loop whose element the trace starts from
                start = kwarg(c, 'node_id') or (c.args[0] if c.args else None)
                for l in fl:
                    if isinstance(start, ast.Name) and isinstance(l.target, ast.Name) and l.target.id == start.id and not any(l is x for x in owner_loops):
                        owner_loops.append(l)
        for l in owner_loops:
            names_in_iter = {x.id for x in ast.walk(l.iter) if isinstance(x, ast.Name)}
            heads = [x for x in tcfg.nodes if x.ast is l and x.kind == 'test']
            ok_ = bool(names_in_iter & remembered)
            for st in walk_no_nested(ga):
                merged = None
                if isinstance(st, ast.Expr) and isinstance(st.value, ast.Call) and isinstance(st.value.func, ast.Attribute) and \
                        st.value.func.attr == 'update' and isinstance(st.value.func.value, ast.Name):
                    merged = (st.value.func.value.id, {x.id for a_ in st.value.args for x in ast.walk(a_) if isinstance(x, ast.Name)})
                elif isinstance(st, ast.AugAssign) and isinstance(st.op, ast.BitOr) and isinstance(st.target, ast.Name):
                    merged = (st.target.id, {x.id for x in ast.walk(st.value) if isinstance(x, ast.Name)})
                elif isinstance(st, ast.Assign) and len(st.targets) == 1 and isinstance(st.targets[0], ast.Name):
                    merged = (st.targets[0].id, {x.id for x in ast.walk(st.value) if isinstance(x, ast.Name)})
                if merged and merged[0] in names_in_iter and merged[1] & remembered:
                    sn = [x for x in tcfg.nodes if x.ast is st]
                    if sn and heads and sn[0].id in tdom.get(heads[0].id, set()):
                        ok_ = True
            rep.instance('R4', f'generate_adms: owner traces start from `{norm(l.iter, 40)}`, extended by the remembered peers {sorted(remembered)} before the loop: {ok_}')
            if not ok_:
                rep.violation('R4', loc(mod, l), 'ABCARMPropertyGraph.generate_adms', f'owner traces over `{norm(l.iter, 40)}` start before the peers are merged in',
                              f'the peers found over links ({sorted(remembered)}) are not part of `{norm(l.iter, 40)}` when the service / owner traces run: '
                              f'a link peer is kept without its owning service and that service\'s owner')
    # every trace result reaches the keep set: directly, or through a local collection that is then added to it
    def _alias_root(nm):
        for _ in range(4):
            defs_ = [a.value for a in walk_no_nested(ga) if isinstance(a, ast.Assign) and any(isinstance(t, ast.Name) and t.id == nm for t in a.targets)]
            if len(defs_) == 1 and isinstance(defs_[0], ast.Name):
                nm = defs_[0].id
            else:
                break
        return nm
    into_keep = {_alias_root(c.args[0].id) for c in walk_no_nested(ga) if isinstance(c, ast.Call) and isinstance(c.func, ast.Attribute) and
                 c.func.attr in ('update', 'union') and ast.unparse(c.func.value).endswith('.keep_nodes') and c.args and isinstance(c.args[0], ast.Name)}
    kept_traces = 0
    for c in walk_no_nested(ga):
        if isinstance(c, ast.Call) and isinstance(c.func, ast.Attribute) and c.func.attr == 'update' and _trace_element(c):
            recv = c.func.value
            if ast.unparse(recv).endswith('.keep_nodes') or (isinstance(recv, ast.Name) and _alias_root(recv.id) in into_keep):
                kept_traces += 1
    rep.instance('R4', f'generate_adms: {kept_traces} trace loop(s) feed the keep set')
    if kept_traces < 3:
        rep.violation('R4', loc(mod, ga), 'ABCARMPropertyGraph.generate_adms', 'trace results not added to the keep set', 'traced elements must be kept')

    # every node and every delegation type is visited: the cataloguing and rewriting loops are never left early
    for fname in ('catalog_delegations', 'generate_adms'):
        f_ = inline(prog, arm, arm.methods.get(fname), exclude=('_update_delegations_on_node', 'catalog_delegations'), depth=4) if fname == 'generate_adms' else arm.methods.get(fname)
        if f_ is None:
            raise AnalysisError(f'ABCARMPropertyGraph.{fname} vanished')
        for l in [n for n in walk_no_nested(f_) if isinstance(n, ast.For)]:
            early = [x for b_ in l.body for x in ast.walk(b_) if isinstance(x, (ast.Break, ast.Return))
                     and not any(isinstance(p_, (ast.For, ast.While)) and p_ is not l for p_ in _ancestors(x, l))]
            rep.instance('R2', f'{fname}: loop over {norm(l.iter, 50)} left early: {len(early)}')
            for x in early:
                rep.violation('R2', loc(mod, x), f'ABCARMPropertyGraph.{fname}', f'{type(x).__name__.lower()} inside the loop over {norm(l.iter, 50)}',
                              f'the loop over {norm(l.iter, 50)} is abandoned at the first element that has nothing to contribute: the elements after it '
                              f'(the other delegation type of the node, the remaining nodes) are never catalogued / rewritten, so delegated resources '
                              f'are missing from their partition or keep entries of other delegations')

    # ---- R7: collections accumulated over a loop are accumulated, not overwritten ----
    rep.rule('R7', 'a collection that is initialised empty, filled inside a loop and read after it is accumulated (not reassigned) in the loop', floor=3)
    for fname in ('catalog_delegations', 'generate_adms'):
        f_ = arm.methods.get(fname)
        if f_ is None:
            raise AnalysisError(f'ABCARMPropertyGraph.{fname} vanished')
        for finding in overwritten_accumulators(f_, rep, 'R7', f'ABCARMPropertyGraph.{fname}'):
            var, loop, assign = finding
            rep.violation('R7', loc(mod, assign), f'ABCARMPropertyGraph.{fname}', f'accumulator reassigned inside the loop over {norm(loop.iter, 50)}',
                          f'`{var}` starts as an empty collection, is read after the loop over {norm(loop.iter, 50)}, but inside the loop it is '
                          f'assigned (not extended): only what the last iteration produced survives - here the delegation ids of the last '
                          f'delegation type found on the node, so a node delegated under another id through the other type is not a keep '
                          f'node of that partition and is deleted from it')
    # ---- R9: every partition gets a graph id of its own ----
    rep.rule('R9', 'the generated graph id of a partition is produced inside the per-delegation iteration', floor=1)
    dinfo = [c for c in ast.walk(ga) if isinstance(c, ast.Call) and ast.unparse(c.func).endswith('DelegationInfo')]
    if not dinfo:
        raise AnalysisError('generate_adms: DelegationInfo construction not found')
    for c in dinfo:
        gid = next((k.value for k in c.keywords if k.arg == 'graph_id'), c.args[0] if c.args else None)
        if gid is None:
            raise AnalysisError('generate_adms: DelegationInfo without graph_id')
        # the iteration the construction belongs to: an enclosing comprehension or for-loop
        scope = None
        p_ = getattr(c, '_parent', None)
        while p_ is not None and p_ is not ga:
            if isinstance(p_, (ast.DictComp, ast.ListComp, ast.SetComp, ast.GeneratorExp, ast.For)):
                scope = p_
                break
            p_ = getattr(p_, '_parent', None)
        if scope is None:
            raise AnalysisError('generate_adms: DelegationInfo is not built per delegation id')
        inside_names = {x.id for x in ast.walk(scope) if isinstance(x, ast.Name) and isinstance(x.ctx, ast.Store)}
        fresh_inside = any(isinstance(x, ast.Call) and ast.unparse(x.func).endswith('uuid4') for x in ast.walk(gid))
        outer = []
        for x in ast.walk(gid):
            if isinstance(x, ast.Name) and isinstance(x.ctx, ast.Load) and x.id not in inside_names:
                for a_ in walk_no_nested(ga):
                    if isinstance(a_, ast.Assign) and any(isinstance(t, ast.Name) and t.id == x.id for t in a_.targets) and \
                            any(isinstance(y, ast.Call) and ast.unparse(y.func).endswith('uuid4') for y in ast.walk(a_.value)) and \
                            not any(a_ is z for z in ast.walk(scope)):
                        outer.append((x.id, a_))
        rep.instance('R9', f'generate_adms: partition graph id {norm(gid, 80)}: generated per delegation: {fresh_inside and not outer}')
        for nm_, a_ in outer:
            rep.violation('R9', loc(mod, a_), 'ABCARMPropertyGraph.generate_adms', f'`{nm_}` generated once, used for every delegation',
                          f'the fallback graph id `{nm_}` is generated once, before the iteration over the delegation ids, and handed to every '
                          f'partition that has no id of its own: two such partitions get the same graph id, and the clone made for the second '
                          f'replaces the first in the store')
        if not fresh_inside and not outer and not any(isinstance(x, ast.Name) and x.id in inside_names for x in ast.walk(gid)):
            rep.violation('R9', loc(mod, c), 'ABCARMPropertyGraph.generate_adms', f'graph id {norm(gid, 60)} does not vary with the delegation',
                          'every partition is given the same graph id')

    # ---- R8: the codec the rewrite relies on ----
    rep.rule('R8', 'the delegation codec used to write the per-id subsets is faithful (shared with C12)', floor=8)
    c12.check_delegation_codec(prog, rep, 'R8')

    # ---- R6 ----
    adm = prog.cls(ADM)
    rw = adm.methods.get('rewrite_delegations')
    if rw is None:
        raise AnalysisError('rewrite_delegations vanished')
    check_flag_scope(rep, 'R6', adm.module, 'ABCADMPropertyGraph.rewrite_delegations', rw,
                     'an element whose label delegations changed but whose capacity delegations did not (or vice versa) is never written back: it keeps the old key')
    rtxt = ast.unparse(rw)
    rep.instance('R6', 'rewrite_delegations: key replaced by real_adm_id or own graph id; entry moved, not rebuilt')
    need = ['delegation.delegation_id = self.graph_id', 'delegation.delegation_id = real_adm_id',
            'delegations.delegations[delegation.delegation_id] = delegations.delegations.pop(del_id)',
            'len(delegations.get_delegation_ids()) != 1']
    moved = [n for n in ast.walk(rw) if isinstance(n, ast.Assign) and isinstance(n.targets[0], ast.Subscript) and
             isinstance(n.value, ast.Call) and call_name(n.value) == 'pop' and ast.unparse(n.targets[0].value) == ast.unparse(n.value.func.value)]
    if not moved:
        rep.violation('R6', loc(adm.module, rw), 'ABCADMPropertyGraph.rewrite_delegations', 'entry not moved under the new key',
                      're-keying must move the existing entry (pop old key, store under the new key) so that only the key changes')
    # the key the entry is moved to is the id the entry has just been given
    rwenv = local_env(rw)
    id_assigns = [n for n in ast.walk(rw) if isinstance(n, ast.Assign) and len(n.targets) == 1 and isinstance(n.targets[0], ast.Attribute) and
                  n.targets[0].attr == 'delegation_id']
    for mv in moved:
        key = mv.targets[0].slice
        same = isinstance(key, ast.Attribute) and key.attr == 'delegation_id'
        if not same and len(id_assigns) == 1:
            same = ctext(expand(key, rwenv)) == ctext(expand(id_assigns[0].value, rwenv))
        rep.instance('R6', f'rewrite_delegations: entry moved under {norm(key, 50)}; same as the id given to the entry: {same}')
        if not same:
            rep.violation('R6', loc(adm.module, mv), 'ABCADMPropertyGraph.rewrite_delegations', f'entry moved under {norm(key, 50)}',
                          'the entry is given one id (the real ADM id when there is one) but filed in the table under another: the table key '
                          'and the id inside the entry disagree, the encoder writes the table key, and the delegation is keyed by the wrong model')

    def id_sink(st):
        if isinstance(st, ast.Assign) and len(st.targets) == 1 and isinstance(st.targets[0], ast.Attribute) and st.targets[0].attr == 'delegation_id':
            return st.value
        return None
    try:
        kouts = merge_outcomes(branch_values(inline(prog, adm, rw).body, id_sink, follow_loops=True))
    except Unknown as u:
        raise AnalysisError(f'rewrite_delegations not analysable: {u}')
    pairing = sorted({(o.vtext, tuple(c for c in o.conds if 'real_adm_id' in c)) for o in kouts})
    rep.instance('R6', f'rewrite_delegations: new key {pairing}')
    vals = sorted({v for v, _ in pairing})
    if pairing != [('real_adm_id', ('real_adm_id is not None',)), ('self.graph_id', ('real_adm_id is None',))]:
        rep.violation('R6', loc(adm.module, rw), 'ABCADMPropertyGraph.rewrite_delegations', f'new key from {vals}',
                      'the new key must be the given real ADM id, or this graph\'s id when none is given')
    # the loop over the delegation properties: its range must fold to {LabelDelegations, CapacityDelegations}, and each
    # property must be decoded as its own delegation type (list + conditional expression, or a property -> type table)
    foldr = lambda e_: prog.const_eval(e_, adm.module, adm)
    want_pairs = {'LabelDelegations': 'LABEL', 'CapacityDelegations': 'CAPACITY'}
    got_pairs = {}
    decode = [c for c in ast.walk(rw) if isinstance(c, ast.Call) and call_name(c) == 'from_json' and 'Delegations' in ast.unparse(c.func)]
    renv = local_env(rw)
    for l in [n for n in ast.walk(rw) if isinstance(n, ast.For)]:
        it = expand(l.iter, renv)
        items = None
        try:
            if isinstance(it, ast.Call) and isinstance(it.func, ast.Attribute) and it.func.attr in ('items', 'keys') and not it.args:
                tbl = foldr(it.func.value)
                if isinstance(tbl, dict):
                    items = [(k_, v_) for k_, v_ in tbl.items()] if it.func.attr == 'items' else [(k_, None) for k_ in tbl]
            else:
                seq = foldr(it)
                if isinstance(seq, dict):
                    items = [(k_, None) for k_ in seq]
                elif isinstance(seq, (list, tuple)) and seq and all(isinstance(e_, (list, tuple)) and len(e_) == 2 for e_ in seq):
                    items = [(e_[0], e_[1]) for e_ in seq]       # rows of (property, type)
                elif isinstance(seq, (list, tuple)):
                    items = [(k_, None) for k_ in seq]
        except Exception:
            items = None
        if not items or not all(isinstance(k_, str) for k_, _ in items) or not any(any(x is d for x in ast.walk(l)) for d in decode):
            continue
        tg = l.target
        for k_, v_ in items:
            bind = {}
            if isinstance(tg, ast.Tuple) and len(tg.elts) == 2 and v_ is not None:
                bind[ctext(tg.elts[0])] = k_
                bind[ctext(tg.elts[1])] = v_
            else:
                bind[ctext(tg)] = k_
            for d in decode:
                at = kwarg(d, 'atype') or (d.args[1] if len(d.args) > 1 else None)
                try:
                    tv = value_under(at, bind, foldr, renv, rw) if at is not None else None
                except Unknown:
                    tv = '?'
                got_pairs[k_] = getattr(tv, 'name', str(tv))
    rep.instance('R6', f'rewrite_delegations: properties and the type each is decoded as {got_pairs}')
    if got_pairs != want_pairs:
        rep.violation('R6', loc(adm.module, rw), 'ABCADMPropertyGraph.rewrite_delegations', f'properties {sorted(got_pairs.items())}',
                      'both delegation properties must be re-keyed, each decoded as its own delegation type')
    wb = [c for c in ast.walk(rw) if isinstance(c, ast.Call) and call_name(c) == 'update_node_properties']
    if not wb:
        rep.violation('R6', loc(adm.module, rw), 'ABCADMPropertyGraph.rewrite_delegations', 'no write back', 're-keyed delegations are never written back')


AF = 'fim/graph/resources/abc_arm.py'
MUTANTS = [
    {'name': 'unset-on-original', 'file': AF, 'rule': 'R1',
     'find': "                    self._update_delegations_on_node(graph=delegations_info[del_id].graph, node_id=node,",
     'replace': "                    self._update_delegations_on_node(graph=self, node_id=node,"},
    {'name': 'delete-on-original', 'file': AF, 'rule': 'R1',
     'find': '                delegations_info[del_id].graph.delete_node(node_id=node_id)', 'replace': '                self.delete_node(node_id=node_id)'},
    {'name': 'rewrite-only-label-type', 'file': AF, 'rule': 'R2',
     'find': "                for atype in [DelegationType.LABEL, DelegationType.CAPACITY]:\n                    prop_field_name", 'replace': "                for atype in [DelegationType.LABEL]:\n                    prop_field_name"},
    {'name': 'stitch-nodes-not-seeded', 'file': AF, 'rule': 'R3',
     'find': 'keep_nodes=keep_nodes_sets[del_id].union(stitch_nodes),', 'replace': 'keep_nodes=set(keep_nodes_sets[del_id]),'},
    {'name': 'component-owner-trace-dropped', 'file': AF, 'rule': 'R4',
     'find': "                                                                  rel2=ABCPropertyGraph.REL_HAS,\n                                                                  node2_label=ABCPropertyGraph.CLASS_Component)",
     'replace': "                                                                  rel2=ABCPropertyGraph.REL_HAS,\n                                                                  node2_label=ABCPropertyGraph.CLASS_NetworkNode)"},
    {'name': 'presence-guard-dropped', 'file': AF, 'rule': 'R5',
     'find': "                        if prop_field_name not in node_props:\n                            continue\n                        ds = None",
     'replace': "                        ds = None"},
    {'name': 'uncatalogued-pair-skipped-on-unrelated-test', 'file': AF, 'rule': 'R5',
     'find': "                        if prop_field_name not in node_props:\n                            continue\n                        ds = None",
     'replace': "                        if del_id not in node_props:\n                            continue\n                        ds = None"},
    {'name': 'catalogued-entries-replaced-by-none', 'file': AF, 'rule': 'R2',
     'find': "                    else:\n                        ds = delegations_by_node[node][atype].return_delegations_for_id(del_id)",
     'replace': "                    else:\n                        ds = delegations_by_node[node][atype].return_delegations_for_id(del_id)\n                        if not ds:\n                            ds = None"},
    {'name': 'peers-merged-after-owner-traces', 'file': AF, 'rule': 'R4',
     'find': "            keep_cps.update(new_cps)\n", 'replace': "            pass\n"},
    {'name': 'rekey-rebuilds-entry-under-old-key', 'file': 'fim/graph/resources/abc_adm.py', 'rule': 'R6',
     'find': '                    delegations.delegations[delegation.delegation_id] = delegations.delegations.pop(del_id)', 'replace': '                    delegations.delegations[del_id] = delegation'},
]
TWINS = [
    {'name': 'node-delegations-through-get-alias', 'file': AF,
     'find': "                if delegations_by_node.get(node, None) is None:\n                    continue\n",
     'replace': "                node_delegations = delegations_by_node.get(node, None)\n                if node_delegations is None:\n                    continue\n",},
    {'name': 'type-loop-over-enum', 'file': AF,
     'find': "                for atype in [DelegationType.LABEL, DelegationType.CAPACITY]:\n                    prop_field_name", 'replace': "                for atype in [DelegationType.CAPACITY, DelegationType.LABEL]:\n                    prop_field_name"},
]
