"""
C03 -- attribute value codecs are lossless, canonical and never mutate their input.

R1 the encoder's drop predicate never drops a legitimate non-default value (predicate vs admitted types vs default)
R2 forgiving decode keeps processing after an unknown key; from_json decodes forgivingly
R3 copy-with-changes builds a fresh object and never stores through its input
R4 finalized maintenance record: every mutator is dominated by the finalized guard; copies do not alias the table
R5 to_json of a fresh value does not dereference a field that is None
R6 hand-written dict codecs write and read the same keys in the same representation
R7 opaque JSON blobs: presence of the payload is tested with `is None`, never by truthiness
R8 typed tuples split and join on the same separator, splitting once
"""
import ast

from ..core import AnalysisError, norm, loc, walk_no_nested, attr_chain, call_name
from ..cfg import CFG
from ..codecs import check_dict_codecs
from ..normalize import inline, local_env, expand, canon, ctext, conjuncts, _enclosing
from ..core import func_params

JSONFIELD = 'fim.slivers.capacities_labels:JSONField'
MAINT = 'fim.slivers.maintenance_mode:MaintenanceInfo'
JSONDATA = 'fim.slivers.json_data:JSONData'
NUMERIC = {'int', 'float', 'bool'}


def init_defaults(cls):
    """field -> default expression (ast) from __init__ assignments self.f = <const>"""
    out = {}
    init = cls.methods.get('__init__')
    if init is None:
        return out
    for n in init.body:
        if isinstance(n, ast.Assign):
            for t in n.targets:
                ch = attr_chain(t)
                if ch and len(ch) == 2 and ch[0] == 'self':
                    out[ch[1]] = n.value
    return out


def admitted_types(cls):
    """type names admitted by the isinstance asserts of _set_fields (applies to every field of the class)"""
    _, sf = cls.find_method('_set_fields')
    types = set()
    if sf is None:
        return types
    for n in ast.walk(sf):
        if isinstance(n, ast.Assert):
            for c in ast.walk(n.test):
                if isinstance(c, ast.Call) and isinstance(c.func, ast.Name) and c.func.id == 'isinstance' and len(c.args) == 2:
                    t = c.args[1]
                    if isinstance(t, ast.Tuple):
                        types.update(ast.unparse(e) for e in t.elts)
                    else:
                        types.add(ast.unparse(t))
    return types


def drop_predicate(fn):
    """what the encoder drops: set of {'none', 'zero'}; or None if it drops nothing / not recognised."""
    drops = set()
    recognised = False
    for n in ast.walk(fn):
        tests = []
        if isinstance(n, ast.If) and any(isinstance(c, ast.Call) and call_name(c) == 'pop' for s in n.body for c in ast.walk(s)):
            tests.append((n.test, False))
        if isinstance(n, (ast.DictComp, ast.ListComp)):
            for g in n.generators:
                for cond in g.ifs:
                    tests.append((cond, True))
        for test, keep in tests:
            recognised = True
            for c in ast.walk(test):
                if isinstance(c, ast.Compare):
                    comp = c.comparators[0]
                    if isinstance(comp, ast.Constant) and comp.value is None:
                        drops.add('none')
                    elif isinstance(comp, ast.Constant) and comp.value == 0 and isinstance(c.ops[0], (ast.Eq, ast.NotEq)):
                        drops.add('zero')
                elif isinstance(c, ast.UnaryOp) and isinstance(c.op, ast.Not) and isinstance(c.operand, (ast.Subscript, ast.Name)):
                    drops.update({'none', 'zero', 'falsy'})
            if isinstance(test, (ast.Subscript, ast.Name)):
                drops.update({'none', 'zero', 'falsy'})
    return drops if recognised else set()


def run(prog, rep):
    rep.extra['explanation'] = (
        'For every JSONField codec the drop predicate of the encoder it actually inherits is compared with the types its '
        'setter admits and the constructor defaults (abstractly: does a value of an admitted numeric type equal to 0 get '
        'dropped although the default is not 0?). Decoders are checked to keep going after unknown keys, the copy '
        'operation for purity, the maintenance record for guard dominance on its CFG and for alias-free copies, encoders '
        'for None dereferences, dict codecs for key/representation agreement, blob constructors for None-tests, typed '
        'tuples for separator agreement. x == decode(encode(x)) over the value domain is not decided.')
    rep.rule('R1', 'encoder drop predicate vs admitted types vs default', floor=40)
    rep.rule('R2', 'forgiving decode keeps going; from_json is forgiving', floor=8)
    rep.rule('R3', 'update() is pure and builds a fresh object', floor=2)
    rep.rule('R4', 'maintenance record mutators guarded; copies alias-free', floor=6)
    rep.rule('R5', 'to_json does not dereference a None field', floor=3)
    rep.rule('R6', 'dict codecs agree on keys and representation', floor=2)
    rep.rule('R7', 'blob payload presence tested with `is None`', floor=2)
    rep.rule('R8', 'typed tuple separator agreement', floor=2)

    jf = prog.cls(JSONFIELD)
    mod = jf.module
    subs = prog.subclasses(jf, strict=True)
    if len(subs) < 7:
        raise AnalysisError(f'expected at least 7 JSONField codecs, found {len(subs)}')
    for c in subs:
        defaults = init_defaults(c)
        types = admitted_types(c)
        numeric = {t for t in types if t in NUMERIC}
        for mname in ('to_json', 'to_dict'):
            owner, enc = c.find_method(mname)
            if enc is None:
                raise AnalysisError(f'{c.name} has no {mname}')
            drops = drop_predicate(enc)
            for f, dexpr in defaults.items():
                dval = dexpr.value if isinstance(dexpr, ast.Constant) else '?'
                rep.instance('R1', f'{c.name}.{f}: default={dval!r} admitted={sorted(types)} {owner.name}.{mname} drops {sorted(drops)}')
                if 'zero' in drops and numeric:
                    # an admitted numeric value equal to 0 is dropped: fine only if the default equals 0 too
                    if not (isinstance(dexpr, ast.Constant) and dexpr.value is not None and dexpr.value == 0):
                        zeros = ', '.join({'int': '0', 'float': '0.0', 'bool': 'False'}[t] for t in sorted(numeric))
                        rep.violation('R1', loc(c.module, c.node), f'{c.name}.{mname}',
                                      f'field {f}: {zeros} dropped but default is {dval!r}',
                                      f'{owner.name}.{mname} drops every field equal to 0; {c.name}.{f} admits {sorted(numeric)} '
                                      f'and defaults to {dval!r}, so the legitimate value {zeros} is encoded as absent and '
                                      f'decodes as {dval!r}')
                if 'falsy' in drops and (types & {'str', 'list'} or numeric):
                    rep.violation('R1', loc(c.module, c.node), f'{c.name}.{mname}', f'field {f}: falsy values dropped',
                                  f'{owner.name}.{mname} drops every falsy field: empty strings / lists / zeros are lost')
        # R2
        sf = c.methods.get('_set_fields')
        if sf is not None:
            sf = inline(prog, c, sf)
            handlers = [h for h in ast.walk(sf) if isinstance(h, ast.ExceptHandler)]
            okh = False
            fparam = 'forgiving'
            if fparam not in func_params(sf):
                raise AnalysisError(f'{c.name}._set_fields has no forgiving parameter')

            def mode_of(node, h):
                """'strict' / 'forgiving' / 'both': under which value of the forgiving flag is `node` (inside handler h) reached"""
                _, conds = _enclosing(node, h)
                for cond in conds:
                    for cj in conjuncts(canon(cond)):
                        if isinstance(cj, ast.Name) and cj.id == fparam:
                            return 'forgiving'
                        if isinstance(cj, ast.UnaryOp) and isinstance(cj.op, ast.Not) and isinstance(cj.operand, ast.Name) and cj.operand.id == fparam:
                            return 'strict'
                return 'both'
            for h in handlers:
                tnames = [x.id for x in ast.walk(h.type) if isinstance(x, ast.Name)] if h.type is not None else []
                if 'AttributeError' not in tnames:
                    continue
                exits = [x for x in walk_no_nested(h) if isinstance(x, (ast.Return, ast.Break, ast.Raise)) and x is not h]
                modes = [(x, mode_of(x, h)) for x in exits]
                rep.instance('R2', f'{c.name}._set_fields: unknown-field handler exits {[(norm(x, 30), m) for x, m in modes]}')
                okh = True
                for x, m in modes:
                    if m != 'strict':
                        rep.violation('R2', loc(c.module, x), f'{c.name}._set_fields', norm(x),
                                      'after an unknown field the forgiving decoder stops: known fields that follow '
                                      'it in the text are dropped')
                if not any(isinstance(x, ast.Raise) and m == 'strict' for x, m in modes):
                    rep.violation('R2', loc(c.module, h), f'{c.name}._set_fields', 'strict mode does not raise',
                                  'an unknown field must be rejected when not decoding forgivingly')
                # the handler must sit inside the per-field loop: a try that wraps the whole loop ends the loop at the first
                # unknown field even when it forgives
                tr = h._parent
                anc, inside_loop = getattr(tr, '_parent', None), False
                while anc is not None and anc is not sf:
                    if isinstance(anc, (ast.For, ast.While)):
                        inside_loop = True
                    anc = getattr(anc, '_parent', None)
                wraps_loop = any(isinstance(x, (ast.For, ast.While)) for st in tr.body for x in ast.walk(st))
                if not inside_loop and wraps_loop:
                    rep.violation('R2', loc(c.module, tr), f'{c.name}._set_fields', 'unknown-field handler wraps the field loop',
                                  'the try/except that forgives an unknown field encloses the whole loop over the fields: the first '
                                  'unknown field ends the loop and every field after it in the text is silently dropped')
            if not okh:
                rep.violation('R2', loc(c.module, sf), f'{c.name}._set_fields', 'no forgiving unknown-field handler',
                              f'{c.name} cannot decode text that carries an unknown (newer) field')
            # the loop must not end early on a known field either
            for n in ast.walk(sf):
                if isinstance(n, ast.For):
                    for x in ast.walk(n):
                        if isinstance(x, (ast.Return, ast.Break)) and not any(isinstance(hh, ast.ExceptHandler) and any(y is x for y in ast.walk(hh)) for hh in ast.walk(n)):
                            rep.violation('R2', loc(c.module, x), f'{c.name}._set_fields', norm(x),
                                          'the field loop ends early: later fields are not set')
    fj = jf.methods.get('from_json')
    calls = [n for n in ast.walk(fj) if isinstance(n, ast.Call) and call_name(n) == '_set_fields']
    rep.instance('R2', f'JSONField.from_json: {norm(calls[0]) if calls else "?"}')
    if not calls or not any(k.arg == 'forgiving' and isinstance(k.value, ast.Constant) and k.value.value is True
                            for k in calls[0].keywords):
        rep.violation('R2', loc(mod, fj), 'JSONField.from_json', 'does not decode forgivingly',
                      'from_json must pass forgiving=True so that unknown keys are tolerated')
    # an unknown key must be skipped whatever its value: either from_json hands _set_fields only the keys the new object
    # has (membership in <object>.__dict__), or no _set_fields checks a value (assert / raise) before it has probed the field
    filters_keys = any(isinstance(n, ast.Compare) and isinstance(n.ops[0], (ast.In, ast.NotIn)) and isinstance(n.comparators[0], ast.Attribute) and
                       n.comparators[0].attr == '__dict__' for n in ast.walk(fj))
    rep.instance('R2', f'JSONField.from_json: decoded keys restricted to the fields of the new object: {filters_keys}')
    if not filters_keys:
        for c in [x for x in prog.class_by_simple_all() if x.is_subclass_of(jf)] if hasattr(prog, 'class_by_simple_all') else \
                [x for xs in prog.class_by_simple.values() for x in xs if x.is_subclass_of(jf)]:
            sf_ = c.methods.get('_set_fields')
            if sf_ is None or c is jf:
                continue
            for l_ in [n for n in walk_no_nested(sf_) if isinstance(n, ast.For)]:
                probe_line = min([x.lineno for x in ast.walk(l_) if isinstance(x, ast.Call) and call_name(x) in ('__getattribute__', 'getattr', 'hasattr')] or [10 ** 9])
                early = [x for x in ast.walk(l_) if isinstance(x, (ast.Assert, ast.Raise)) and x.lineno < probe_line]
                if early:
                    rep.violation('R2', loc(c.module, early[0]), f'{c.name}._set_fields', f'{norm(early[0], 60)} before the field is known to exist',
                                  f'{c.name}._set_fields checks the value (`{norm(early[0], 50)}`) before it knows that the key names a field: decoding a text '
                                  f'with an unknown key whose value has another type (a number, true, null, an object) raises instead of '
                                  f'skipping the key, although from_json promises forward compatibility')
                    break
    fji = inline(prog, jf, fj)
    fparams = [p for p in func_params(fji) if p != 'cls']
    fenv = local_env(fji)
    builds = [n for n in ast.walk(fji) if isinstance(n, ast.Call) and isinstance(n.func, ast.Name) and n.func.id == 'cls']
    loads = [n for n in ast.walk(fji) if isinstance(n, ast.Call) and call_name(n) == 'loads' and n.args and
             any(isinstance(x, ast.Name) and x.id in fparams for x in ast.walk(expand(n.args[0], fenv)))]
    if not builds or not loads:
        rep.violation('R2', loc(mod, fj), 'JSONField.from_json', 'shape', 'from_json must build cls() from json.loads(text)')
    # empty text <-> absent
    tj = jf.methods['to_json']
    rep.instance('R2', 'JSONField: nothing set -> "" ; "" -> None')
    empty_ret = any(isinstance(r, ast.Return) and isinstance(r.value, ast.Constant) and r.value.value == '' for r in ast.walk(inline(prog, jf, tj)))
    empty_test = False
    for n in ast.walk(fji):
        if isinstance(n, ast.If) and any(isinstance(r, ast.Return) and (r.value is None or (isinstance(r.value, ast.Constant) and r.value.value is None)) for r in n.body):
            t = canon(n.test)
            alts = t.values if isinstance(t, ast.BoolOp) and isinstance(t.op, ast.Or) else [t]
            for alt in alts:
                if isinstance(alt, ast.UnaryOp) and isinstance(alt.op, ast.Not) and isinstance(alt.operand, ast.Name) and alt.operand.id in fparams:
                    empty_test = True
                if isinstance(alt, ast.Compare) and isinstance(alt.ops[0], ast.Eq) and any(isinstance(x, ast.Constant) and x.value == '' for x in [alt.left] + alt.comparators):
                    empty_test = True
    if not empty_ret or not empty_test:
        rep.violation('R2', loc(mod, tj), 'JSONField.to_json', 'empty value convention',
                      'a value with nothing set must encode as empty text and empty text decode as absent')

    # a codec that wraps another decoder passes "absent" through: Cls(Other.from_json(text)) is an object even when the
    # inner decoder reads the text as absent (None)
    rep.rule('R9', 'a decoder that wraps another decoder returns None when the inner one reads the text as absent', floor=1)
    for m_ in prog.modules.values():
        if not m_.name.startswith('fim.slivers'):
            continue
        for c_ in m_.classes.values():
            f_ = c_.methods.get('from_json')
            if f_ is None:
                continue
            for r_ in [x for x in walk_no_nested(f_) if isinstance(x, ast.Return) and isinstance(x.value, ast.Call)]:
                inner = [a for a in r_.value.args if isinstance(a, ast.Call) and call_name(a) == 'from_json']
                if not inner or not (isinstance(r_.value.func, ast.Name) and (r_.value.func.id == c_.simple or r_.value.func.id == 'cls')):
                    continue
                rep.instance('R9', f'{c_.name}.from_json wraps {norm(inner[0], 50)}')
                rep.violation('R9', loc(m_, r_), f'{c_.name}.from_json', f'{norm(r_, 70)}',
                              f'{c_.name}.from_json wraps whatever {norm(inner[0].func, 40)} returns, also None: an absent (or unset) value reads '
                              f'back as an empty {c_.name} object instead of as absent, and re-encodes differently from what was stored')
            # the guarded form counts as an instance too
            for a_ in [x for x in walk_no_nested(f_) if isinstance(x, ast.Assign) and isinstance(x.value, ast.Call) and call_name(x.value) == 'from_json']:
                rep.instance('R9', f'{c_.name}.from_json decodes through {norm(a_.value.func, 40)} into a local (tested before wrapping)')

    # decoders that expand a decoded dictionary into a constructor (Cls(**entry)): a key the constructor does not know raises
    # TypeError unless the constructor takes **kwargs or the entry is restricted to the known fields first
    for m_ in prog.modules.values():
        if not m_.name.startswith('fim.slivers'):
            continue
        for c_ in m_.classes.values():
            f_ = c_.methods.get('from_json')
            if f_ is None or not any(isinstance(x, ast.Call) and call_name(x) == 'loads' for x in ast.walk(f_)):
                continue
            for call in [x for x in ast.walk(f_) if isinstance(x, ast.Call) and isinstance(x.func, ast.Name) and
                         any(k.arg is None for k in x.keywords)]:
                tgt = prog.resolve_class_expr(call.func, m_) if hasattr(prog, 'resolve_class_expr') else None
                if tgt is None or '__init__' not in tgt.methods:
                    continue
                init_ = tgt.methods['__init__']
                star = [k.value for k in call.keywords if k.arg is None][0]
                restricted = isinstance(star, ast.DictComp) and any(isinstance(i_, ast.Compare) and isinstance(i_.ops[0], ast.In) for g_ in star.generators for i_ in g_.ifs)
                okk = init_.args.kwarg is not None or restricted
                rep.instance('R2', f'{c_.name}.from_json: {norm(call, 60)} (unknown keys tolerated: {okk})')
                if not okk:
                    rep.violation('R2', loc(m_, call), f'{c_.name}.from_json', f'{norm(call, 60)}',
                                  f'{c_.name}.from_json expands every decoded entry into {tgt.name}(...): an entry that carries a field this version '
                                  f'does not know raises TypeError, so the whole value cannot be decoded (no forward compatibility)')

    # ---- R3 ----
    upd = jf.methods.get('update')
    params = [a.arg for a in upd.args.args if a.arg != 'cls']
    src = params[0]
    def _fresh(v):
        if not (isinstance(v, ast.Call) and not v.args and not v.keywords):
            return False
        f = v.func
        if isinstance(f, ast.Attribute) and f.attr == '__class__' and isinstance(f.value, ast.Name) and f.value.id == src:
            return True
        if isinstance(f, ast.Call) and isinstance(f.func, ast.Name) and f.func.id == 'type' and len(f.args) == 1 and \
                isinstance(f.args[0], ast.Name) and f.args[0].id == src:
            return True
        return False
    fresh = [n for n in walk_no_nested(upd) if isinstance(n, ast.Assign) and _fresh(n.value) and isinstance(n.targets[0], ast.Name)]
    rep.instance('R3', f'JSONField.update: result {norm(fresh[0]) if fresh else "?"}')
    if not fresh:
        rep.violation('R3', loc(mod, upd), 'JSONField.update', 'result is not a fresh instance',
                      'update must create a new instance of the same class')
    res = fresh[0].targets[0].id if fresh else None
    rets = [n for n in walk_no_nested(upd) if isinstance(n, ast.Return)]
    if res and (not rets or ast.unparse(rets[-1].value) != res):
        rep.violation('R3', loc(mod, upd), 'JSONField.update', 'does not return the fresh instance', 'update must return the copy')
    for n in walk_no_nested(upd):
        bad = None
        if isinstance(n, (ast.Assign, ast.AugAssign)):
            tg = n.targets if isinstance(n, ast.Assign) else [n.target]
            for t in tg:
                tt = ast.unparse(t)
                if tt == src or tt.startswith(src + '.') or tt.startswith(src + '['):
                    bad = n
        if isinstance(n, ast.Call) and isinstance(n.func, ast.Attribute):
            recv = ast.unparse(n.func.value)
            if (recv == src or recv.startswith(src + '.')) and n.func.attr in ('__setattr__', '_set_fields', 'pop', 'update', 'clear', 'setdefault'):
                bad = n
        if bad is not None:
            rep.violation('R3', loc(mod, bad), 'JSONField.update', norm(bad),
                          'update (copy-with-changes) stores into the value it was given: the original is modified')
    rep.instance('R3', 'JSONField.update: no store through the input')

    # ---- R4 ----
    mi = prog.cls(MAINT)
    mmod = mi.module
    guard_txt = 'self._lock'
    for name, fn0 in mi.methods.items():
        fn = inline(prog, mi, fn0) if name != '_set' else fn0
        muts = []
        for n in walk_no_nested(fn):
            if isinstance(n, (ast.Assign, ast.AugAssign)):
                tg = n.targets if isinstance(n, ast.Assign) else [n.target]
                for t in tg:
                    tt = ast.unparse(t)
                    if tt == 'self._nodes' or tt.startswith('self._nodes['):
                        muts.append(n)
            if isinstance(n, ast.Call) and isinstance(n.func, ast.Attribute) and ast.unparse(n.func.value) == 'self._nodes' \
                    and n.func.attr in ('pop', 'popitem', 'clear', 'update', 'setdefault', '__setitem__', '__delitem__'):
                muts.append(n)
            if isinstance(n, ast.Delete) and any(ast.unparse(t).startswith('self._nodes') for t in n.targets):
                muts.append(n)
        if not muts or name == '__init__':
            continue
        fq = f'MaintenanceInfo.{name}'
        if name == '_set':
            # private: only from_json (before finalize) and copy may call it
            callers = []
            for m2, c2, f2 in prog.all_functions():
                for c in walk_no_nested(f2):
                    if isinstance(c, ast.Call) and call_name(c) == '_set' and isinstance(c.func, ast.Attribute) and m2 is mmod:
                        callers.append((c2.name + '.' if c2 else '') + f2.name)
            rep.instance('R4', f'{fq}: private setter, callers {sorted(set(callers))}')
            for cq in set(callers) - {'MaintenanceInfo.from_json', 'MaintenanceInfo.copy'}:
                rep.violation('R4', loc(mmod, fn), fq, f'called from {cq}', '_set bypasses the finalized guard and may only be used while building a record')
            continue
        cfg = CFG(fn)
        tests = [t for t in cfg.nodes if t.kind == 'test' and t.tag == 'if' and ctext(t.ast) in (guard_txt, guard_txt + ' is True', guard_txt + ' == True')]
        for mnode in muts:
            stn = [x for x in cfg.nodes if x.ast is not None and x.kind == 'stmt' and any(y is mnode for y in ast.walk(x.ast))]
            rep.instance('R4', f'{fq}: {norm(mnode)} guarded by `if self._lock: raise`')
            ok = bool(tests) and stn and any(cfg.edge_dominates(t, 'f', stn[0]) for t in tests) and \
                any(isinstance(x, ast.Raise) for t in tests for x in ast.walk(t.ast._parent))
            if not ok and name == 'finalize' and stn:
                # finalize itself may rearrange the table on its way from open to finalized: only while the record is still open
                ntests = [t for t in cfg.nodes if t.kind == 'test' and t.tag == 'if' and ctext(t.ast) in ('not ' + guard_txt, guard_txt + ' is False', guard_txt + ' == False')]
                ok = any(cfg.edge_dominates(t, 't', stn[0]) for t in ntests) or any(cfg.edge_dominates(t, 'f', stn[0]) for t in tests)
            if not ok:
                rep.violation('R4', loc(mmod, mnode), fq, norm(mnode),
                              f'{fq} changes the node table without first testing that the record is not finalized')
    # copy must not alias
    cp = mi.methods.get('copy')
    if cp is None:
        raise AnalysisError('MaintenanceInfo.copy vanished')
    flows = []
    for n in walk_no_nested(cp):
        if isinstance(n, ast.Assign) and any(ast.unparse(t).endswith('._nodes') for t in n.targets):
            flows.append(n.value)
        if isinstance(n, ast.Call) and call_name(n) == '_set' and n.args:
            flows.append(n.args[0])
    rep.instance('R4', f'MaintenanceInfo.copy: table handed to the copy as {[norm(f) for f in flows]}')
    if not flows:
        rep.violation('R4', loc(mmod, cp), 'MaintenanceInfo.copy', 'copy does not carry the table', 'the copy is empty')
    for f in flows:
        txt = ast.unparse(f)
        copied = (isinstance(f, ast.Call) and (call_name(f) in ('copy', 'deepcopy', 'dict'))) or isinstance(f, ast.DictComp)
        if 'self._nodes' in txt and not copied:
            rep.violation('R4', loc(mmod, f), 'MaintenanceInfo.copy', norm(f),
                          'the (unfinalized) copy shares the node table of the original: add/rem on the copy alter a '
                          'finalized record')
    # the entries are mutable objects: once a record is finalized nobody else holds one of its entries - finalize() detaches them
    # (copies every stored entry), the accessors of a finalized record hand out copies, and copy() copies them
    ENTRY_COPIERS = ('replace', 'deepcopy', 'MaintenanceEntry', '_copy_entry', 'copy_entry')

    def copies_entries(f_):
        return any(isinstance(c, ast.Call) and call_name(c) in ENTRY_COPIERS for c in ast.walk(f_)) or \
            any(isinstance(c, ast.Call) and call_name(c) == 'copy' and
                not (isinstance(c.func, ast.Attribute) and (ast.unparse(c.func.value).endswith('_nodes') or
                                                             (isinstance(c.func.value, ast.Name) and c.func.value.id == 'self')))
                for c in ast.walk(f_))
    fz_ = mi.methods.get('finalize')
    detaches = fz_ is not None and copies_entries(fz_) and any(isinstance(a, ast.Assign) and any(ast.unparse(t) == 'self._nodes' for t in a.targets) for a in ast.walk(fz_))
    stores_copy = mi.methods.get('add') is not None and copies_entries(mi.methods['add'])
    rep.instance('R4', f'MaintenanceInfo: entries detached from their holders when the record is finalized: {detaches}; or copied when added: {stores_copy}')
    if not detaches and not stores_copy:
        rep.violation('R4', loc(mmod, fz_ or mi.node), 'MaintenanceInfo.finalize', 'entries stay shared with whoever added or fetched them',
                      'the MaintenanceEntry objects of a record are mutable and shared with the caller of add() (and of get() before the record was '
                      'finalized): unless finalize() replaces them by copies (or add() stores a copy), a holder can change state or dates of a '
                      'finalized record, which add / rem / pop refuse to do')
    for mname_ in ('get', 'copy', 'list_details', 'iter'):
        f_ = mi.methods.get(mname_)
        if f_ is None:
            continue
        ok_ = copies_entries(f_)
        rep.instance('R4', f'MaintenanceInfo.{mname_}: entries of a finalized record are handed out as copies: {ok_}')
        if not ok_:
            rep.violation('R4', loc(mmod, f_), f'MaintenanceInfo.{mname_}', 'entry objects shared with the caller',
                          f'MaintenanceInfo.{mname_} passes the MaintenanceEntry objects of the record themselves (mutable dataclass instances): '
                          f'whoever receives one can change its state or dates and thereby alter a finalized record')
    # finalize sets the flag; to_json requires finalized; from_json finalizes
    fz = mi.methods.get('finalize')
    rep.instance('R4', 'finalize sets the flag; from_json finalizes')
    if fz is None or not any(isinstance(n, ast.Assign) and any(ast.unparse(t) == guard_txt for t in n.targets) and isinstance(n.value, ast.Constant)
                             and n.value.value is True for n in ast.walk(fz)):
        rep.violation('R4', loc(mmod, mi.node), 'MaintenanceInfo.finalize', 'does not set the flag', 'finalize must lock the record')
    mfj = mi.methods.get('from_json')
    mfj_i = inline(prog, mi, mfj)
    fin_calls = [c for c in ast.walk(mfj_i) if isinstance(c, ast.Call) and call_name(c) == 'finalize']
    if not fin_calls and not any(isinstance(n, ast.Assign) and any(ast.unparse(t).endswith('._lock') for t in n.targets) and isinstance(n.value, ast.Constant)
                                 and n.value.value is True for n in ast.walk(mfj_i)):
        rep.violation('R4', loc(mmod, mfj), 'MaintenanceInfo.from_json', 'decoded record is not finalized', 'a decoded record must be finalized')
    # nothing else resets the flag
    for name, fn in mi.methods.items():
        for n in walk_no_nested(fn):
            if isinstance(n, ast.Assign) and any(ast.unparse(t) == 'self._lock' for t in n.targets) and name not in ('__init__', 'finalize'):
                rep.violation('R4', loc(mmod, n), f'MaintenanceInfo.{name}', norm(n), 'the finalized flag is changed outside __init__/finalize')

    # ---- R5 ----
    for spec in ('fim.slivers.path_info:PathInfo', 'fim.slivers.path_info:ERO', 'fim.slivers.gateway:Gateway'):
        c = prog.cls(spec)
        fn = c.methods.get('to_json')
        if fn is None:
            continue
        fn = inline(prog, c, fn)
        defaults = {}
        for k in c.mro():
            for f, e in init_defaults(k).items():
                defaults.setdefault(f, e)
        # constructor parameters that may be None count as possibly-None fields as well
        none_fields = {f for f, e in defaults.items() if isinstance(e, ast.Constant) and e.value is None}
        if c.simple == 'Gateway':
            none_fields.add('lab')
        cfg = CFG(fn)
        for f in sorted(none_fields):
            derefs = [n for n in walk_no_nested(fn) if isinstance(n, ast.Attribute) and ast.unparse(n.value) == f'self.{f}'
                      and isinstance(n.ctx, ast.Load)]
            for d in derefs:
                stn = [x for x in cfg.nodes if x.ast is not None and x.kind in ('stmt', 'test') and any(y is d for y in ast.walk(x.ast))]
                tests = [t for t in cfg.nodes if t.kind == 'test' and t.tag == 'if' and f'self.{f}' in ast.unparse(t.ast)
                         and 'None' in ast.unparse(t.ast)]
                ok = False
                for t in tests:
                    is_none_test = isinstance(t.ast, ast.Compare) and isinstance(t.ast.ops[0], ast.Is)
                    edge = 'f' if is_none_test else 't'
                    if stn and cfg.edge_dominates(t, edge, stn[0]):
                        ok = True
                rep.instance('R5', f'{c.name}.to_json: {norm(d)} guarded={ok}')
                if not ok:
                    rep.violation('R5', loc(c.module, d), f'{c.name}.to_json', norm(d),
                                  f'{c.name}.to_json dereferences self.{f}, which is None on a value with nothing set: '
                                  f'encoding (and repr) raises AttributeError instead of yielding empty text')

    # ---- R6 ----
    check_dict_codecs(prog, rep, 'R6')
    tags = prog.cls('fim.slivers.tags:Tags')
    ttj, tfj = ast.unparse(tags.methods['to_json']), ast.unparse(tags.methods['from_json'])
    rep.instance('R6', 'Tags: json.dumps(self.tags) <-> cls(json.loads(text))')
    if 'json.dumps(self.tags)' not in ttj or 'json.loads(json_string)' not in tfj:
        rep.violation('R6', loc(tags.module, tags.node), 'Tags.to_json/from_json', 'codec pair', 'Tags must encode its list with json.dumps and decode with json.loads')

    # ---- R10: the two size tests of the JSON blob constructor agree (shared with C16) ----
    rep.rule('R10', 'a JSON blob accepted as an object is accepted again as the text it encodes to (the size tests agree)', floor=1)
    from .c16 import check_size_tests_agree
    check_size_tests_agree(prog, rep, 'R10')

    # ---- R7 ----
    jd = prog.cls(JSONDATA)
    ji = jd.methods.get('__init__')
    pname = [a.arg for a in ji.args.args if a.arg != 'self'][0]
    for n in walk_no_nested(ji):
        if isinstance(n, ast.If):
            for sub in _truthiness_uses(n.test, pname):
                rep.violation('R7', loc(jd.module, n), 'JSONData.__init__', norm(n.test),
                              f'the branch is chosen by the truthiness of `{pname}`: legitimate falsy payloads ([], 0, 0.0, '
                              f'False, "") are treated as absent and stored as the default')
            rep.instance('R7', f'JSONData.__init__: branch test {norm(n.test)}')
    dp = jd.properties.get('data', {}).get('getter')
    if dp is not None:
        for n in walk_no_nested(dp):
            if isinstance(n, ast.If):
                rep.instance('R7', f'JSONData.data: {norm(n.test)}')
                for sub in _truthiness_uses(n.test, 'self._data'):
                    rep.violation('R7', loc(jd.module, n), 'JSONData.data', norm(n.test), 'stored text tested by truthiness')

    # ---- R8 ----
    tt = prog.cls('fim.graph.typed_tuples:TypedTuple')
    for name in ('__init__', 'parse_from_string'):
        fn = tt.methods.get(name)
        splits = [n for n in ast.walk(fn) if isinstance(n, ast.Call) and call_name(n) == 'split']
        for s in splits:
            rep.instance('R8', f'TypedTuple.{name}: {norm(s)}')
            sep_ok = s.args and ast.unparse(s.args[0]) == 'self.LABEL_SEPARATOR'
            once = len(s.args) > 1 and ast.unparse(s.args[1]) == '1'
            if not sep_ok or not once:
                rep.violation('R8', loc(tt.module, s), f'TypedTuple.{name}', norm(s),
                              'the type:value text must be split once on LABEL_SEPARATOR (values may contain the separator)')
    gs = tt.methods.get('get_as_string')
    rep.instance('R8', f'TypedTuple.get_as_string: {norm(gs.body[-1])}')
    gtxt = ast.unparse(gs)
    if 'self.type' not in gtxt or 'self.LABEL_SEPARATOR' not in gtxt or 'self.val' not in gtxt:
        rep.violation('R8', loc(tt.module, gs), 'TypedTuple.get_as_string', 'join', 'the text form must be type + LABEL_SEPARATOR + value')


def _truthiness_uses(test, name):
    """sub-expressions of `test` where `name` is used for its truth value"""
    out = []

    def visit(e, boolean_ctx):
        if isinstance(e, ast.BoolOp):
            for v in e.values:
                visit(v, True)
        elif isinstance(e, ast.UnaryOp) and isinstance(e.op, ast.Not):
            visit(e.operand, True)
        elif boolean_ctx and ast.unparse(e) == name:
            out.append(e)
    visit(test, True)
    return out


CL = 'fim/slivers/capacities_labels.py'
MM = 'fim/slivers/maintenance_mode.py'
MUTANTS = [
    {'name': 'maintenance-get-hands-out-the-entry', 'file': 'fim/slivers/maintenance_mode.py', 'rule': 'R4',
     'find': "        return copy.copy(entry) if self._lock and entry is not None else entry\n", 'replace': "        return entry\n"},
    {'name': 'unknown-keys-reach-the-setters', 'file': 'fim/slivers/capacities_labels.py', 'rule': 'R2',
     'find': "        for k in [k for k in d if k not in ret.__dict__]:\n", 'replace': "        for k in []:\n"},
    {'name': 'gateway-wraps-absent', 'file': 'fim/slivers/gateway.py', 'rule': 'R9',
     'find': "        return Gateway(lab) if lab is not None else None\n", 'replace': "        return Gateway(Labels.from_json(json_string))\n"},
    {'name': 'location-override-removed', 'file': CL, 'rule': 'R1',
     'find': '    def to_dict(self) -> Dict[str, str] or None:\n        """\n        Convert to a dictionary skipping unset fields. Specialized', 'replace': '    def to_dict_unused(self) -> Dict[str, str] or None:\n        """\n        Convert to a dictionary skipping unset fields. Specialized'},
    {'name': 'forgiving-branch-returns', 'file': CL, 'rule': 'R2', 'count': 1,
     'find': "                if forgiving:\n                    fl.get_logger().warning(report)\n                else:\n                    raise LabelException(report)",
     'replace': "                if forgiving:\n                    fl.get_logger().warning(report)\n                    return self\n                else:\n                    raise LabelException(report)"},
    {'name': 'update-in-place', 'file': CL, 'rule': 'R3',
     'find': '        inst = lab.__class__()\n        for k, v in lab.__dict__.items():\n            inst.__setattr__(k, v)\n        inst._set_fields(**kwargs)\n        return inst',
     'replace': '        lab._set_fields(**kwargs)\n        return lab'},
    {'name': 'maintenance-rem-guard-dropped', 'file': MM, 'rule': 'R4',
     'find': '        """\n        Remove entry\n        """\n        if self._lock:\n            raise MaintenanceModeException("Unable to modify a finalized object, recreate and reassign")\n',
     'replace': '        """\n        Remove entry\n        """\n'},
    {'name': 'pathinfo-none-guard-dropped', 'file': 'fim/slivers/path_info.py', 'rule': 'R5', 'count': 2,
     'find': "        if self.payload is None:\n            # nothing set - encode as empty text, which from_json reads back as absent\n            return ''\n", 'replace': ''},
    {'name': 'ero-strict-key-renamed-on-reader', 'file': 'fim/slivers/path_info.py', 'rule': 'R6',
     'find': "ret.strict = True if d.get('strict', None) in {'True', 'true'} else False", 'replace': "ret.strict = True if d.get('is_strict', None) in {'True', 'true'} else False"},
    {'name': 'typed-tuple-split-all', 'file': 'fim/graph/typed_tuples.py', 'rule': 'R8',
     'find': "atype, aval = alloc_str.split(self.LABEL_SEPARATOR, 1)", 'replace': "atype, aval = alloc_str.split(self.LABEL_SEPARATOR)"},
]
TWINS = [
    {'name': 'flags-override-removed', 'file': CL,
     'find': '        d = self.__dict__.copy()\n        return json.dumps(d, skipkeys=True, sort_keys=True)\n',
     'replace': '        return super().to_json()\n'},
]
