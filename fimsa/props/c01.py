"""
C01 -- model serialization round trip is lossless and re-importable (structural wiring clauses).

R1 format dispatch: every READ_FORMATS entry has a reader; every format serialize_graph emits that the statement covers
   has a reader; serialize_graph has a branch per GraphFormat member or raises
R2 label markup on the path: the GraphML producers pass their text through networkx_to_neo4j; inside it both loops set
   label / labels for every element and nothing returns before the loops
R3 entry points: the four import entry points reach the reader and a store insert; the graph id given to the store is the
   id the returned handle is built with; the _direct pair take the id from get_graph_id, which rejects mixed ids
R4 stamping and copying: add_graph stamps GraphID on every node after the NodeID check and looks for an existing graph of
   that id in the store itself; extract_graph copies edge and node data for every selected node
R5 the JSON writer/reader are the matched networkx pair with the same non-default keywords
R6 identity stamping at creation: every node insert passes Class/GraphID/NodeID, every edge insert passes Class
R7 every constant the library itself stores in a JSON-typed property (e.g. '' after unmerge) and the Neo4j unset sentinel are
   skipped by _validate_json_property (its guard is partially evaluated on the constant) or parse as JSON
"""
import ast

from ..core import AnalysisError, Unfoldable, norm, loc, walk_no_nested, attr_chain, call_name, kwarg, receiver_name, func_params
from ..normalize import inline, local_env, expand, canon, ctext, conjuncts, negate, _enclosing, eval_test, Unknown, unroll_const_loops
from ..cfg import CFG
from .. import nxgraph as nxg
from .. import flow

NXI = 'fim.graph.networkx_property_graph:NetworkXGraphImporter'
GML = 'fim.graph.graph_util:GraphML'
ABCI = 'fim.graph.abc_property_graph:ABCGraphImporter'
TOPO = 'fim.user.topology:Topology'



class _FoldText(ast.NodeTransformer):
    def visit_JoinedStr(self, node):
        self.generic_visit(node)
        parts = []
        for v in node.values:
            if isinstance(v, ast.Constant) and isinstance(v.value, str):
                parts.append(v.value)
            elif isinstance(v, ast.FormattedValue) and v.conversion == -1 and v.format_spec is None and isinstance(v.value, ast.Constant) and \
                    isinstance(v.value.value, str):
                parts.append(v.value.value)
            else:
                return node
        return ast.copy_location(ast.Constant(value=''.join(parts)), node)

    def visit_IfExp(self, node):
        self.generic_visit(node)
        if isinstance(node.test, ast.Constant):
            return node.body if node.test.value else node.orelse
        return node


def _fold_const_text(fn):
    fn = _FoldText().visit(fn)
    ast.fix_missing_locations(fn)
    for n in ast.walk(fn):
        for ch in ast.iter_child_nodes(n):
            ch._parent = n
    return fn

def run(prog, rep):
    rep.extra['explanation'] = (
        'Value fidelity of a round trip is produced by networkx, lxml and json at run time and is not decided. What is '
        'decided is the wiring every round trip depends on: format dispatch exhaustiveness, that GraphML text always passes '
        'the Neo4j label-markup step and that step labels every node and every edge, that every import entry point reads, '
        'inserts and returns a handle on the same graph id, that inserts stamp the graph id on all nodes after validating '
        'node ids and replace an existing graph found in the store, that extraction copies node and edge data, that the '
        'JSON codec calls are a matched pair, and that created nodes/edges carry the identity properties graph validation '
        'requires.')
    rep.rule('R1', 'format dispatch is exhaustive', floor=4)
    rep.rule('R2', 'GraphML passes through the label markup, which labels every node and edge', floor=5)
    rep.rule('R3', 'import entry points read, insert and return a handle on one graph id', floor=4)
    rep.rule('R4', 'add_graph stamps and replaces; extract_graph copies node and edge data', floor=4)
    rep.rule('R5', 'JSON writer/reader are a matched pair', floor=1)
    rep.rule('R6', 'identity properties are stamped at creation', floor=4)
    rep.rule('R7', 'sentinel values the library writes into JSON properties are skipped by graph validation', floor=2)   # (empty text always counts; was 2 until the '' written by unmerge_adm was replaced by an unset, /repo fix for C14)
    rep.rule('R8', 'a (re-)import moves the id allocator past the imported nodes on every path', floor=4)
    nxg.check_allocators(prog, rep, 'R8')   # both stores, and the path rule at its end

    # R9: loading a model keeps the graph id its text carries, unless the caller names another
    rep.rule('R9', 'topology loaders use the id-keeping import unless the caller supplies a new graph id', floor=3)
    tmod = prog.module('fim.user.topology')
    for tcls in tmod.classes.values():
        ld = tcls.methods.get('load')
        if ld is None:
            continue
        ldi = inline(prog, tcls, ld)
        params9 = set(func_params(ldi))
        for c in walk_no_nested(ldi):
            if not (isinstance(c, ast.Call) and call_name(c).startswith('import_graph_from_')):
                continue
            direct = call_name(c).endswith('_direct')
            gid = kwarg(c, 'graph_id')
            named = gid is not None and any(isinstance(x, ast.Name) and x.id in params9 for x in ast.walk(gid))
            rep.instance('R9', f'{tcls.name}.load: {call_name(c)}({"graph_id=" + norm(gid) if gid is not None else ""})')
            if not direct and not named:
                rep.violation('R9', loc(tmod, c), f'{tcls.name}.load', f'{call_name(c)} without a graph id of the caller',
                              f'{call_name(c)} gives the imported model a graph id of its own (a fresh one when none is passed); used in a loader '
                              f'without a caller-supplied id, the model comes back under another graph id than the one its text carries - the '
                              f'sibling branch of the same loader (file / string) keeps the id')

    nxi = prog.cls(NXI)
    imod = nxi.module
    nxpg = prog.cls(nxg.NXPG)
    formats = prog.enum_members('fim.graph.abc_property_graph:GraphFormat')

    # ---- R1 ----
    read_formats = prog.class_const(nxi, 'READ_FORMATS')
    for f in read_formats:
        rep.instance('R1', f'READ_FORMATS entry {f} -> _read_from_file_{f}')
        if f'_read_from_file_{f}' not in nxi.all_method_names():
            rep.violation('R1', loc(imod, nxi.assigns['READ_FORMATS']), 'NetworkXGraphImporter.READ_FORMATS', f'{f}: no reader method',
                          f'format {f!r} is listed but _read_from_file_{f} does not exist: the sniffing loop swallows the '
                          f'AttributeError and that format can never be imported')
    rf = nxi.methods.get('_read_from_file')
    rtxt = ast.unparse(rf)
    disp = [c for c in ast.walk(rf) if isinstance(c, ast.Call) and call_name(c) in ('__getattribute__', 'getattr') and
            any(isinstance(a, ast.BinOp) and isinstance(a.left, ast.Constant) and a.left.value == '_read_from_file_' for a in c.args)]
    over = [l for l in ast.walk(rf) if isinstance(l, ast.For) and ast.unparse(l.iter).endswith('READ_FORMATS')]
    if not disp or not over:
        raise AnalysisError('_read_from_file: dispatch idiom not recognised')
    sg = nxpg.methods.get('serialize_graph')
    branches = {}
    for n in ast.walk(sg):
        if isinstance(n, ast.If) and isinstance(n.test, ast.Compare) and 'GraphFormat.' in ast.unparse(n.test):
            ch = attr_chain(n.test.comparators[0])
            if ch:
                branches[ch[-1]] = n
    for f in formats:
        rep.instance('R1', f'serialize_graph branch for GraphFormat.{f}: {f in branches}')
    has_else_raise = any(isinstance(x, ast.Raise) for x in ast.walk(sg))
    for f in formats:
        if f not in branches and not has_else_raise:
            rep.violation('R1', loc(nxpg.module, sg), 'NetworkXPropertyGraph.serialize_graph', f'no branch for {f}',
                          f'serializing with GraphFormat.{f} silently returns None')
    need_reader = {'GRAPHML': 'graphml', 'JSON_NODELINK': 'json_nodelink'}
    for f, r in need_reader.items():
        if f in branches and r not in read_formats:
            rep.violation('R1', loc(imod, nxi.assigns['READ_FORMATS']), 'NetworkXGraphImporter.READ_FORMATS', f'{r} missing',
                          f'serialize_graph emits {f} but no import entry point can read it back ({r} not in READ_FORMATS)')
        if f not in branches:
            rep.violation('R1', loc(nxpg.module, sg), 'NetworkXPropertyGraph.serialize_graph', f'{f} branch missing', f'{f} can no longer be produced')

    # every producer serialises the extracted copy of THIS graph (not the store, which holds the other graphs too)
    sgi = nxg.method(prog, nxpg, sg)
    gvars = {t.id for a in walk_no_nested(sgi) if isinstance(a, ast.Assign) and isinstance(a.value, ast.Call) and call_name(a.value) == 'extract_graph'
             for t in a.targets if isinstance(t, ast.Name)}
    grew = True
    while grew:
        grew = False
        for a in walk_no_nested(sgi):
            if isinstance(a, ast.Assign) and isinstance(a.value, ast.Name) and a.value.id in gvars:
                for t in a.targets:
                    if isinstance(t, ast.Name) and t.id not in gvars:
                        gvars.add(t.id)
                        grew = True
    producers = [c for c in walk_no_nested(sgi) if isinstance(c, ast.Call) and call_name(c) in ('generate_graphml', 'node_link_data', 'cytoscape_data', 'write_graphml')]
    for c in producers:
        a0 = c.args[0] if c.args else (c.keywords[0].value if c.keywords else None)
        okp = isinstance(a0, ast.Name) and a0.id in gvars
        rep.instance('R1', f'serialize_graph: {call_name(c)}({norm(a0, 50) if a0 is not None else ""}) serialises the extracted copy: {okp}')
        if not okp:
            rep.violation('R1', loc(nxpg.module, c), 'NetworkXPropertyGraph.serialize_graph', f'{call_name(c)} applied to {norm(a0, 60) if a0 is not None else None}',
                          f'{call_name(c)} must be given the copy extracted for this graph id; the store object holds every graph of the '
                          f'process, so the text of one model contains the nodes of the others and does not import back as the same graph')
    if not producers:
        raise AnalysisError('serialize_graph: no networkx producer call found')

    # ---- R2 ----
    gml = prog.cls(GML)
    n2n_raw = gml.methods.get('networkx_to_neo4j')
    if n2n_raw is None:
        raise AnalysisError('GraphML.networkx_to_neo4j vanished')
    # a class-level table of (element, attribute, prefix) rows is read row by row; text assembled from constants only is a constant
    n2n = _fold_const_text(unroll_const_loops(prog, gml, inline(prog, gml, n2n_raw)))
    is_src0 = lambda c: call_name(c) in ('generate_graphml',)
    is_san0 = lambda c: call_name(c) == 'networkx_to_neo4j'
    # wrappers: a function of the GraphML helper class all of whose returns are marked-up GraphML text produces clean text
    clean_wrappers = set()
    for wname, wfn in gml.methods.items():
        if wname == 'networkx_to_neo4j':
            continue
        try:
            wres, _ = flow.taint(inline(prog, gml, wfn), is_src0, is_san0)
        except Exception:
            continue
        verdicts = [v for r_, v, _ in wres if isinstance(r_, ast.Return) and v != 'none']
        if verdicts and all(v == 'clean' for v in verdicts):
            clean_wrappers.add(wname)
    is_src = is_src0
    is_san = lambda c: is_san0(c) or call_name(c) in clean_wrappers
    # every GraphML text serialize_graph returns went through the label markup (value flow on the CFG)
    sgi = inline(prog, nxpg, sg)
    res, _ = flow.taint(sgi, is_src, is_san)
    n_clean = 0
    for ret, verdict, wit in res:
        if verdict == 'none':
            continue
        rep.instance('R2', f'serialize_graph: {norm(ret, 80)} returns GraphML text that is {verdict}')
        if verdict == 'raw':
            rep.violation('R2', loc(nxpg.module, ret), 'NetworkXPropertyGraph.serialize_graph', 'GraphML text not passed through the label markup',
                          'the GraphML string returned must be the result of GraphML.networkx_to_neo4j; without it the Neo4j '
                          'importer sees no labels', witness=wit)
        else:
            n_clean += 1
    if 'GRAPHML' in branches and n_clean == 0 and not any(v == 'raw' for _, v, _ in res):
        rep.violation('R2', loc(nxpg.module, branches['GRAPHML']), 'NetworkXPropertyGraph.serialize_graph', 'GraphML text not passed through the label markup',
                      'the GRAPHML branch does not return text produced by generate_graphml and marked up by GraphML.networkx_to_neo4j')
    w = inline(prog, gml, gml.methods.get('nx_write_graphml'))
    res, _ = flow.taint(w, is_src, is_san, is_sink=lambda c: call_name(c) in ('write', 'writelines'))
    sinks = [(c, v, wit) for c, v, wit in res if isinstance(c, ast.Call)]
    rep.instance('R2', f'nx_write_graphml: written text is {[v for _, v, _ in sinks]}')
    gen = [c for c in ast.walk(w) if isinstance(c, ast.Call) and (is_src(c) or call_name(c) in clean_wrappers)]
    san = [c for c in ast.walk(w) if isinstance(c, ast.Call) and is_san(c)]
    if not sinks or not gen or not san or any(v == 'raw' for _, v, _ in sinks):
        rep.violation('R2', loc(gml.module, w), 'GraphML.nx_write_graphml', 'written text is not the marked-up text', 'the file written must carry the label markup')
    loops = []
    for l in walk_no_nested(n2n):
        if isinstance(l, ast.For) and isinstance(l.iter, ast.Call) and call_name(l.iter) in ('findall', 'iterfind', 'iter') and isinstance(l.target, ast.Name):
            consts = [c.value for a in l.iter.args for c in ast.walk(a) if isinstance(c, ast.Constant) and isinstance(c.value, str)]
            kind = 'edge' if any(x.rstrip('/').endswith('g:edge') or x.rstrip('/').endswith('}edge') for x in consts) else \
                ('node' if any(x.rstrip('/').endswith('g:node') or x.rstrip('/').endswith('}node') for x in consts) else None)
            if kind:
                loops.append((kind, l))
    marked = {}
    for kind, l in loops:
        sets = [c for c in ast.walk(l) if isinstance(c, ast.Call) and call_name(c) == 'set' and c.args and isinstance(c.args[0], ast.Constant)
                and receiver_name(c) == l.target.id]
        if sets:
            marked[kind] = (l, sets[0])

    def only_if_absent(test, var, attr):
        """test == "the element `var` has no attribute `attr` yet" in one of its spellings"""
        t = canon(test)
        if isinstance(t, ast.UnaryOp) and isinstance(t.op, ast.Not):
            o = t.operand
            if isinstance(o, ast.Call) and call_name(o) == 'get' and o.args and isinstance(o.args[0], ast.Constant) and o.args[0].value == attr:
                r = attr_chain(o.func.value)
                return bool(r) and r[0] == var and r[1:] in ([], ['attrib'])
            if isinstance(o, ast.Subscript):
                return False
        if isinstance(t, ast.Compare) and len(t.ops) == 1 and isinstance(t.ops[0], ast.NotIn) and isinstance(t.left, ast.Constant) and t.left.value == attr:
            r = attr_chain(t.comparators[0])
            return bool(r) and r[0] == var and r[1:] in ([], ['attrib'])
        if isinstance(t, ast.Compare) and len(t.ops) == 1 and isinstance(t.ops[0], (ast.Is, ast.Eq)) and isinstance(t.comparators[0], ast.Constant) \
                and t.comparators[0].value is None and isinstance(t.left, ast.Call) and call_name(t.left) == 'get' and t.left.args and \
                isinstance(t.left.args[0], ast.Constant) and t.left.args[0].value == attr:
            r = attr_chain(t.left.func.value)
            return bool(r) and r[0] == var
        return False

    n2n_cfg = CFG(n2n)
    n2n_dom = n2n_cfg.dominators()
    for kind, attr in (('edge', 'label'), ('node', 'labels')):
        rep.instance('R2', f'networkx_to_neo4j: {kind} loop sets {attr!r}: {kind in marked}')
        if kind not in marked:
            rep.violation('R2', loc(gml.module, n2n), 'GraphML.networkx_to_neo4j', f'no loop marks every {kind}',
                          f'{kind}s of the serialized graph get no {attr} attribute')
            continue
        l, st = marked[kind]
        if st.args[0].value != attr:
            rep.violation('R2', loc(gml.module, st), 'GraphML.networkx_to_neo4j', norm(st), f'{kind}s must be marked with the {attr!r} attribute')
        # the set is only skipped when the attribute is already present
        gens_, conds = _enclosing(st, l)
        def has_class_data(cj, loop):
            """`<d> is not None` where <d> is the element's Class <data> child (`<element>.find(...)`): an element without a Class
            property has nothing to copy - every element of a model the library holds has one (C07), so no such element is skipped"""
            if not (isinstance(cj, ast.Compare) and len(cj.ops) == 1 and isinstance(cj.ops[0], ast.IsNot) and isinstance(cj.left, ast.Name) and
                    isinstance(cj.comparators[0], ast.Constant) and cj.comparators[0].value is None):
                return False
            defs = [a.value for a in ast.walk(loop) if isinstance(a, ast.Assign) and any(isinstance(t, ast.Name) and t.id == cj.left.id for t in a.targets)]
            used = any(isinstance(x, ast.Name) and x.id == cj.left.id for x in ast.walk(st))
            return bool(defs) and used and all(isinstance(d, ast.Call) and call_name(d) == 'find' and receiver_name(d) == loop.target.id for d in defs)
        bad = [c for c in conds for cj in conjuncts(canon(c)) if not only_if_absent(cj, l.target.id, st.args[0].value) and not has_class_data(cj, l)]
        if bad:
            rep.violation('R2', loc(gml.module, st), 'GraphML.networkx_to_neo4j', f'{kind} markup conditional on {[norm(c, 60) for c in bad]}',
                          f'the {attr} attribute is only added under a condition other than "not already present"')
        # no way to leave the loop early
        for x in ast.walk(l):
            if isinstance(x, (ast.Break, ast.Return)):
                rep.violation('R2', loc(gml.module, x), 'GraphML.networkx_to_neo4j', f'{kind} loop: {norm(x)}', f'some {kind}s are skipped by the markup')
            if isinstance(x, ast.Continue):
                # a guard-clause `if <already present>: continue` is the same as the positive test; anything else skips elements
                p = x._parent
                if not (isinstance(p, ast.If) and only_if_absent(negate(p.test), l.target.id, st.args[0].value)):
                    rep.violation('R2', loc(gml.module, x), 'GraphML.networkx_to_neo4j', f'{kind} loop: {norm(x)}', f'some {kind}s are skipped by the markup')
    # nothing returns normally before both loops have run (dominance on the CFG)
    rets = [n for n in walk_no_nested(n2n) if isinstance(n, ast.Return)]
    for r in rets:
        rn = flow.node_of(n2n_cfg, r)
        if rn is None or rn.id not in n2n_dom:
            continue
        missing = [kind for kind, (l, st) in marked.items() if not any(nd.ast is l and nd.kind == 'test' and nd.id in n2n_dom[rn.id] for nd in n2n_cfg.nodes)]
        rep.instance('R2', f'networkx_to_neo4j: return at line {r.lineno}: both markup loops lie on every path to it: {not missing}')
        if missing:
            rep.violation('R2', loc(gml.module, r), 'GraphML.networkx_to_neo4j', f'early return: {norm(r)}',
                          'the markup returns before labelling nodes and edges on some inputs (e.g. a graph without edges declares '
                          'no edge Class key): the text then carries no labels at all')
    tree_vars = [n.targets[0].id for n in walk_no_nested(n2n) if isinstance(n, ast.Assign) and isinstance(n.value, ast.Call) and call_name(n.value) in ('fromstring', 'parse', 'XML')
                 and isinstance(n.targets[0], ast.Name)]
    env2 = local_env(n2n)
    def is_tree(e):
        e = expand(e, env2)
        return (isinstance(e, ast.Name) and e.id in tree_vars) or (isinstance(e, ast.Call) and call_name(e) in ('fromstring', 'parse', 'XML'))
    if not rets or not all(any(isinstance(c, ast.Call) and call_name(c) == 'tostring' and c.args and is_tree(c.args[0])
                               for c in ast.walk(expand(r.value, {k: v for k, v in env2.items() if k not in tree_vars}))) for r in rets if r.value is not None):
        rep.violation('R2', loc(gml.module, n2n), 'GraphML.networkx_to_neo4j', 'result is not the modified tree', 'the marked-up tree must be returned')
    # class key lookup for both scopes
    cmp_consts = {c.value for n in walk_no_nested(n2n) if isinstance(n, ast.Compare) for c in [n.left] + n.comparators if isinstance(c, ast.Constant)}
    # ... or membership of the scope in a literal table keyed by scope
    for n in walk_no_nested(n2n):
        if isinstance(n, ast.Compare) and len(n.ops) == 1 and isinstance(n.ops[0], ast.In):
            tb = expand(n.comparators[0], env2)
            if isinstance(tb, ast.Name):
                lits = [a.value for a in walk_no_nested(n2n) if isinstance(a, ast.Assign) and any(isinstance(t, ast.Name) and t.id == tb.id for t in a.targets)]
                tb = lits[0] if len(lits) == 1 else tb
            keys = tb.keys if isinstance(tb, ast.Dict) else tb.elts if isinstance(tb, (ast.Tuple, ast.List, ast.Set)) else []
            cmp_consts |= {k.value for k in keys if isinstance(k, ast.Constant)}
    for scope in ('edge', 'node'):
        if scope not in cmp_consts:
            rep.violation('R2', loc(gml.module, n2n), 'GraphML.networkx_to_neo4j', f'Class key of {scope}s not looked up', f'{scope} labels cannot be derived')

    # ---- R3 ----
    entry = {
        'import_graph_from_string': ('add_graph', 'graph_id'),
        'import_graph_from_string_direct': ('add_graph_direct', 'get_graph_id'),
        'import_graph_from_file_direct': ('add_graph_direct', 'get_graph_id'),
    }
    for name, (store_call, idsrc) in entry.items():
        fn0 = nxi.methods.get(name)
        if fn0 is None:
            raise AnalysisError(f'NetworkXGraphImporter.{name} vanished')
        fn = inline(prog, nxi, fn0)
        env = local_env(fn)
        fq = f'NetworkXGraphImporter.{name}'
        reads = [c for c in walk_no_nested(fn) if isinstance(c, ast.Call) and call_name(c) == '_read_from_file']
        inserts = [c for c in walk_no_nested(fn) if isinstance(c, ast.Call) and call_name(c) in ('add_graph', 'add_graph_direct')]
        handles = [c for c in walk_no_nested(fn) if isinstance(c, ast.Call) and ctext(c.func, env) == 'self.graph_class']
        rep.instance('R3', f'{fq}: read={len(reads)} insert={[call_name(c) for c in inserts]} handle={len(handles)}')
        if not reads or not inserts or not handles:
            rep.violation('R3', loc(imod, fn), fq, 'does not read, insert and build a handle', 'an import must read the text, insert the graph and return a handle')
            continue
        if call_name(inserts[0]) != store_call:
            rep.violation('R3', loc(imod, inserts[0]), fq, f'inserts with {call_name(inserts[0])}',
                          f'{name} must insert with {store_call} ({"re-stamping the graph id" if store_call == "add_graph" else "keeping ids untouched"})')
        ins_id = kwarg(inserts[0], 'graph_id') or (inserts[0].args[0] if inserts[0].args else None)
        ins_g = kwarg(inserts[0], 'graph') or (inserts[0].args[1] if len(inserts[0].args) > 1 else None)
        h_id = kwarg(handles[0], 'graph_id') or (handles[0].args[0] if handles[0].args else None)
        if ins_id is None or h_id is None or ctext(ins_id, env) != ctext(h_id, env):
            rep.violation('R3', loc(imod, handles[0]), fq, f'store id {norm(ins_id) if ins_id is not None else None} vs handle id {norm(h_id) if h_id is not None else None}',
                          'the handle returned addresses another graph id than the one the graph was stored under')

        def derives_from(e, cname):
            if e is None:
                return False
            if any(isinstance(c, ast.Call) and call_name(c) == cname for c in ast.walk(e)):
                return True
            if isinstance(e, ast.Name):
                return any(any(isinstance(c, ast.Call) and call_name(c) == cname for c in ast.walk(v)) for v in flow.reaching_values(fn, e.id))
            return False
        if not derives_from(ins_g, '_read_from_file'):
            rep.violation('R3', loc(imod, inserts[0]), fq, 'inserted graph is not the graph just read', 'the graph stored must be the one read from the text')
        if idsrc == 'get_graph_id':
            if not derives_from(ins_id, 'get_graph_id'):
                rep.violation('R3', loc(imod, fn), fq, 'graph id not taken from get_graph_id', 'a direct import must use the GraphID carried by the text')
    # text handed over through a temporary file: written and flushed before it is read, read while the file still exists
    for name in ('import_graph_from_string', 'import_graph_from_string_direct'):
        fn = inline(prog, nxi, nxi.methods[name])
        fq = f'NetworkXGraphImporter.{name}'
        withs = [w for w in walk_no_nested(fn) if isinstance(w, ast.With) and any(isinstance(c, ast.Call) and call_name(c) == 'NamedTemporaryFile'
                                                                                  for c in ast.walk(w.items[0].context_expr))]
        if len(withs) != 1 or not isinstance(withs[0].items[0].optional_vars, ast.Name):
            raise AnalysisError(f'{fq}: temporary file block not found')
        w = withs[0]
        fvar = w.items[0].optional_vars.id
        wr = [c for c in ast.walk(w) if isinstance(c, ast.Call) and call_name(c) == 'write' and receiver_name(c) == fvar]
        fl = [c for c in ast.walk(w) if isinstance(c, ast.Call) and call_name(c) in ('flush', 'close') and receiver_name(c) == fvar]
        rd = [c for c in walk_no_nested(fn) if isinstance(c, ast.Call) and call_name(c) in ('_read_from_file', 'get_graph_id')]
        rep.instance('R3', f'{fq}: write@{wr[0].lineno if wr else None} flush@{fl[0].lineno if fl else None} reads@{[c.lineno for c in rd]}')
        inside = all(any(x is c for x in ast.walk(w)) for c in rd)
        fcfg = CFG(fn)
        fdom = fcfg.dominators()
        params = set(func_params(fn))
        ok = bool(wr) and bool(fl) and bool(rd) and inside and flow.dominates(fcfg, wr[0], fl[0], fdom) and \
            all(flow.dominates(fcfg, fl[0], c, fdom) for c in rd) and \
            any(isinstance(n, ast.Name) and n.id in params for n in ast.walk(expand(wr[0].args[0], local_env(fn)))) if wr and wr[0].args else False
        if not ok:
            rep.violation('R3', loc(imod, w), fq, 'temporary file not written+flushed before, or not alive while, it is read',
                          'the serialized text reaches the reader through a temporary file: it must be written and flushed before '
                          'the reader opens it by name, and the reader must run inside the with block (the file is deleted on exit); '
                          'otherwise the import sees an empty or missing file')
        env = local_env(fn)
        for c in rd:
            a0 = c.args[0] if c.args else (kwarg(c, 'graph_file') or (c.keywords[0].value if c.keywords else None))
            if a0 is None or ctext(a0, env) != f'{fvar}.name':
                rep.violation('R3', loc(imod, c), fq, norm(c, 90), 'the reader must be given the name of the temporary file that holds the text')
    abci = prog.cls(ABCI)
    ff = abci.methods.get('import_graph_from_file')
    rep.instance('R3', f'ABCGraphImporter.import_graph_from_file delegates to import_graph_from_string')
    dc = [c for c in walk_no_nested(ff) if isinstance(c, ast.Call) and call_name(c) == 'import_graph_from_string']
    def _text_of_file(e):
        # the text handed on is what was read from the file the caller named
        if isinstance(e, ast.Name):
            defs = [a.value for a in ast.walk(ff) if isinstance(a, ast.Assign) and any(isinstance(t, ast.Name) and t.id == e.id for t in a.targets)]
            return len(defs) == 1 and _text_of_file(defs[0])
        if isinstance(e, ast.Call) and call_name(e) == 'read' and isinstance(e.func, ast.Attribute) and isinstance(e.func.value, ast.Name):
            fv = e.func.value.id
            for w_ in ast.walk(ff):
                if isinstance(w_, ast.With):
                    for it in w_.items:
                        if isinstance(it.optional_vars, ast.Name) and it.optional_vars.id == fv and isinstance(it.context_expr, ast.Call) and \
                                call_name(it.context_expr) == 'open' and it.context_expr.args and ast.unparse(it.context_expr.args[0]) == 'graph_file':
                            return True
        return False
    if not dc or kwarg(dc[0], 'graph_id') is None or ast.unparse(kwarg(dc[0], 'graph_id')) != 'graph_id' or \
            kwarg(dc[0], 'graph_string') is None or not _text_of_file(kwarg(dc[0], 'graph_string')):
        rep.violation('R3', loc(abci.module, ff), 'ABCGraphImporter.import_graph_from_file', 'delegation', 'the file entry point must hand text and id to import_graph_from_string')
    ggi = abci.methods.get('get_graph_id')
    gtxt = ast.unparse(ggi)
    rep.instance('R3', 'get_graph_id rejects texts with more than one GraphID')
    multi = [n for n in ast.walk(ggi) if isinstance(n, ast.If) and isinstance(n.test, ast.Compare) and isinstance(n.test.ops[0], (ast.Gt, ast.GtE, ast.NotEq))
             and isinstance(n.test.left, ast.Call) and call_name(n.test.left) == 'len' and any(isinstance(x, ast.Raise) for x in n.body)]
    if not multi:
        rep.violation('R3', loc(abci.module, ggi), 'ABCGraphImporter.get_graph_id', 'mixed graph ids not rejected', 'a text mixing graph ids must be rejected')
    # Topology.load routes to the right entry point
    topo = prog.cls(TOPO)
    ld = topo.methods.get('load')
    names = [call_name(c) for c in walk_no_nested(ld) if isinstance(c, ast.Call)]
    rep.instance('R3', f'Topology.load uses {[n for n in names if n and n.startswith("import_")]}')
    for need in ('import_graph_from_file_direct', 'import_graph_from_string_direct', 'import_graph_from_string'):
        if need not in names:
            rep.violation('R3', loc(topo.module, ld), 'Topology.load', f'{need} not used', 'Topology.load lost one of its import routes')
    for c in walk_no_nested(ld):
        if isinstance(c, ast.Call) and call_name(c) == 'import_graph_from_string':
            if ast.unparse(kwarg(c, 'graph_id')) != 'new_graph_id':
                rep.violation('R3', loc(topo.module, c), 'Topology.load', norm(c, 100), 'the reassigned graph id must be passed to the importer')

    # ---- R4 ----
    for shell in (nxg.SHARED_SHELL, nxg.DISJ_SHELL):
        st = nxg.storage_class(prog, shell)
        ag = nxg.method(prog, st, st.methods.get('add_graph'))
        fq = f'{st.name}.add_graph'
        smod = st.module
        relabelled = nxg._relabelled_names(ag)
        gparam = [p_ for p_ in func_params(ag) if p_ not in ('self', 'graph')]
        gparam = gparam[0] if gparam else 'graph_id'

        def folds_to(e, value):
            try:
                return prog.const_eval(e, smod, st) == value
            except Unfoldable:
                return False

        def iter_kind(it):
            """('keys'|'items', graph name) for an iteration over the nodes of a relabelled graph, else None"""
            if isinstance(it, ast.Call) and isinstance(it.func, ast.Name) and it.func.id in ('list', 'tuple', 'sorted') and len(it.args) == 1:
                it = it.args[0]
            if isinstance(it, ast.Name) and it.id in relabelled:
                return 'keys', it.id
            if isinstance(it, ast.Attribute) and it.attr == 'nodes' and isinstance(it.value, ast.Name) and it.value.id in relabelled:
                return 'keys', it.value.id
            if isinstance(it, ast.Call) and isinstance(it.func, ast.Attribute):
                f = it.func
                if f.attr == 'nodes' and isinstance(f.value, ast.Name) and f.value.id in relabelled:
                    data = kwarg(it, 'data') or (it.args[0] if it.args else None)
                    if data is None:
                        return 'keys', f.value.id
                    if isinstance(data, ast.Constant) and data.value is True:
                        return 'items', f.value.id
                if f.attr in ('items', 'data') and isinstance(f.value, ast.Attribute) and f.value.attr == 'nodes' and \
                        isinstance(f.value.value, ast.Name) and f.value.value.id in relabelled:
                    return 'items', f.value.value.id
            return None
        stamp = None
        for l in walk_no_nested(ag):
            if not isinstance(l, ast.For):
                continue
            for n in ast.walk(l):
                if isinstance(n, ast.Assign) and isinstance(n.targets[0], ast.Subscript) and folds_to(n.targets[0].slice, 'GraphID'):
                    stamp = (l, n)
        rep.instance('R4', f'{fq}: GraphID stamp {norm(stamp[1]) if stamp else None} in loop over {norm(stamp[0].iter) if stamp else None}')
        if stamp is None:
            rep.violation('R4', loc(smod, ag), fq, 'GraphID not stamped', 'imported nodes are not tagged with the graph id they are stored under')
        else:
            l, n = stamp
            ik = iter_kind(l.iter)
            if ik is None or not (isinstance(n.value, ast.Name) and n.value.id == gparam):
                rep.violation('R4', loc(smod, n), fq, norm(n), 'every node of the relabelled graph must be stamped with the given graph id')
            else:
                kind, gname = ik
                d = n.targets[0].value
                if isinstance(d, ast.Name):
                    # a local naming the attribute dictionary of the node (alias set inside the loop)
                    al = [a.value for a in ast.walk(l) if isinstance(a, ast.Assign) and any(isinstance(t, ast.Name) and t.id == d.id for t in a.targets)]
                    if len(al) == 1 and isinstance(al[0], ast.Subscript):
                        d = al[0]
                if kind == 'keys':
                    on_iterated = isinstance(l.target, ast.Name) and isinstance(d, ast.Subscript) and isinstance(d.slice, ast.Name) and d.slice.id == l.target.id \
                        and isinstance(d.value, ast.Attribute) and d.value.attr == 'nodes' and isinstance(d.value.value, ast.Name) and d.value.value.id == gname
                else:
                    on_iterated = isinstance(l.target, ast.Tuple) and len(l.target.elts) == 2 and isinstance(l.target.elts[1], ast.Name) and \
                        isinstance(d, ast.Name) and d.id == l.target.elts[1].id
                if not on_iterated:
                    rep.violation('R4', loc(smod, n), fq, norm(n), 'the stamp must be written on the node being iterated')
            def mentions_node_id(e):
                return any(isinstance(x, ast.Attribute) and folds_to(x, 'NodeID') for x in ast.walk(e))
            body_idx = {id(x): i for i, x in enumerate(l.body)}
            top = n
            while getattr(top, '_parent', None) is not l:
                top = top._parent
            chk = [x for x in l.body if isinstance(x, ast.If) and mentions_node_id(x.test) and any(isinstance(y, ast.Raise) for y in x.body)]
            if not chk or body_idx[id(chk[0])] > body_idx.get(id(top), -1):
                rep.violation('R4', loc(smod, l), fq, 'NodeID check missing or after the stamp', 'nodes without a NodeID must be rejected')
            for x in ast.walk(l):
                if isinstance(x, (ast.Break, ast.Continue)):
                    rep.violation('R4', loc(smod, x), fq, norm(x), 'some nodes are skipped by the GraphID stamping loop')
        # existing graph of that id is looked up in the store itself (shared store)
        for sc in nxg.search_calls(ag):
            tgt = ast.unparse(sc.args[0])
            rep.instance('R4', f'{fq}: existing-graph lookup over {tgt}')
            if tgt != 'self.graphs':
                rep.violation('R4', loc(smod, sc), fq, norm(sc, 110),
                              f'the lookup for an already stored graph with this id searches {tgt} instead of the store: a '
                              f're-import under an occupied id does not replace the old graph, node ids and edges are duplicated')
            # ... by the GraphID of its nodes
            try:
                cj_ = nxg.parse_query(prog, sc.args[1], smod, st) if len(sc.args) > 1 else []
            except AnalysisError:
                cj_ = []
            by_gid = any(op_ == 'eq' and fld_ == 'GraphID' and isinstance(v_, ast.Name) and v_.id == gparam for op_, fld_, v_ in cj_)
            if not by_gid:
                rep.violation('R4', loc(smod, sc), fq, f'existing-graph lookup by {[(o_, f_) for o_, f_, _ in cj_]}',
                              'the lookup for an already stored graph must select the nodes whose GraphID is the id being imported; '
                              'any other key finds nothing (or something else), the old graph is not replaced and node ids are duplicated')
    # an already stored graph of that id is removed whenever the lookup finds any node of it (shared store, both insert flavours)
    st_sh = nxg.storage_class(prog, nxg.SHARED_SHELL)
    for mname in ('add_graph', 'add_graph_direct'):
        fn_ = nxg.method(prog, st_sh, st_sh.methods.get(mname))
        fq_ = f'{st_sh.name}.{mname}'
        lookups = set()
        for n in walk_no_nested(fn_):
            if isinstance(n, ast.Assign) and isinstance(n.targets[0], ast.Name) and any(isinstance(c, ast.Call) and call_name(c) == 'search_nodes' for c in ast.walk(n.value)):
                lookups.add(n.targets[0].id)
        removals = [c for c in walk_no_nested(fn_) if isinstance(c, ast.Call) and call_name(c) in ('remove_nodes_from',)]
        if not removals:
            rep.violation('R4', loc(st_sh.module, fn_), fq_, 'an existing graph of the same id is not removed',
                          'importing under an occupied id must replace the stored graph; without the removal node ids and edges are duplicated')
            continue
        for c in removals:
            _, conds_ = _enclosing(c, fn_)
            lenv_ = {k: v for k, v in local_env(fn_).items() if k not in lookups}
            cjs = [cj for c_ in conds_ for cj in conjuncts(canon(expand(c_, lenv_)))]
            odd = []

            def is_lookup(e):
                if isinstance(e, ast.Name):
                    return e.id in lookups
                while isinstance(e, ast.Call) and isinstance(e.func, ast.Name) and e.func.id in ('list', 'set', 'tuple') and len(e.args) == 1:
                    e = e.args[0]
                return isinstance(e, ast.Call) and call_name(e) == 'search_nodes'
            for cj in cjs:
                okc = is_lookup(cj) or (isinstance(cj, ast.Compare) and isinstance(cj.ops[0], ast.IsNot) and is_lookup(cj.left))
                if not okc:
                    odd.append(cj)
            rep.instance('R4', f'{fq_}: stored graph removed under {[norm(x, 40) for x in cjs]}')
            if odd:
                rep.violation('R4', loc(st_sh.module, c), fq_, f'existing graph removed only when {[norm(x, 50) for x in odd]}',
                              f'the stored graph of the same id is removed only under {[norm(x, 50) for x in odd]}, not whenever the lookup finds '
                              f'nodes of it: an existing graph that does not satisfy the extra condition (e.g. a one-node graph) is not '
                              f'replaced and its nodes are duplicated by the re-import')
    ste = nxg.storage_class(prog, nxg.SHARED_SHELL)
    eg = nxg.method(prog, ste, ste.methods.get('extract_graph'))
    etxt = ast.unparse(eg)
    rep.instance('R4', 'shared extract_graph: edges via to_dict_of_dicts/from_dict_of_dicts, node data merged for every selected node')
    scs0 = nxg.search_calls(eg)
    nodes_var = None
    for n in walk_no_nested(eg):
        if isinstance(n, ast.Assign) and scs0 and any(x is scs0[0] for x in ast.walk(n.value)) and isinstance(n.targets[0], ast.Name):
            nodes_var = n.targets[0].id
    d2 = [c for c in ast.walk(eg) if isinstance(c, ast.Call) and call_name(c) == 'to_dict_of_dicts']
    f2 = [c for c in ast.walk(eg) if isinstance(c, ast.Call) and call_name(c) == 'from_dict_of_dicts']
    okE = bool(d2) and bool(f2) and nodes_var is not None and len(d2[0].args) >= 2 and ast.unparse(d2[0].args[0]) == 'self.graphs' \
        and ast.unparse(d2[0].args[1]) == nodes_var
    merge_loops = [n for n in walk_no_nested(eg) if isinstance(n, ast.For) and ast.unparse(n.iter) == nodes_var and
                   any(isinstance(c, ast.Call) and call_name(c) == 'update' and c.args and ast.unparse(c.args[0]) == f'self.graphs.nodes[{ast.unparse(n.target)}]'
                       for c in ast.walk(n))]
    if not okE:
        rep.violation('R4', loc(ste.module, eg), f'{ste.name}.extract_graph', 'edge data not copied', 'edges and their properties of the selected nodes must be copied')
    if not merge_loops:
        rep.violation('R4', loc(ste.module, eg), f'{ste.name}.extract_graph', 'node data not copied for every selected node',
                      'node properties must be copied for every node of the graph (isolated nodes included)')
    scs = nxg.search_calls(eg)
    if scs:
        conj = nxg.parse_query(prog, scs[0].args[1], ste.module, ste)
        if not (len(conj) == 1 and conj[0][1] == 'GraphID' and ast.unparse(conj[0][2]) == 'graph_id'):
            rep.violation('R4', loc(ste.module, scs[0]), f'{ste.name}.extract_graph', norm(scs[0].args[1]), 'the nodes selected must be exactly those of the given graph id')

    # ---- R5 ----
    rj = nxi.methods.get('_read_from_file_json_nodelink')
    wcalls = [c for c in ast.walk(sg) if isinstance(c, ast.Call) and call_name(c) == 'node_link_data']
    rcalls = [c for c in ast.walk(rj) if isinstance(c, ast.Call) and call_name(c) == 'node_link_graph']
    rep.instance('R5', f'JSON pair: {norm(wcalls[0]) if wcalls else None} <-> {norm(rcalls[0]) if rcalls else None}')
    if not wcalls or not rcalls:
        rep.violation('R5', loc(nxpg.module, sg), 'NetworkXPropertyGraph.serialize_graph', 'JSON codec pair', 'the node-link writer/reader must be networkx node_link_data / node_link_graph')
    else:
        wk = {k.arg: ast.unparse(k.value) for k in wcalls[0].keywords if k.arg not in ('G',)}
        rk = {k.arg: ast.unparse(k.value) for k in rcalls[0].keywords if k.arg not in ('data',)}
        if wk != rk:
            rep.violation('R5', loc(imod, rcalls[0]), 'NetworkXGraphImporter._read_from_file_json_nodelink', f'writer keywords {wk} reader keywords {rk}',
                          'node_link_data and node_link_graph are called with different key options (edges=/link=/source=...): '
                          'the reader does not find the keys the writer used')
    rg = nxi.methods.get('_read_from_file_graphml')
    rgc = [c for c in ast.walk(rg) if isinstance(c, ast.Call) and call_name(c) == 'read_graphml']
    if not rgc or not rgc[0].args or not isinstance(rgc[0].args[0], ast.Name) or rgc[0].args[0].id not in [a.arg for a in rg.args.args]:
        rep.violation('R5', loc(imod, rg), 'NetworkXGraphImporter._read_from_file_graphml', 'GraphML reader', 'GraphML must be read with networkx read_graphml')

    # every GraphML text the library produces from a networkx graph gets the label markup, not only serialize_graph's
    for m_, c_, f_ in prog.all_functions():
        gens_ = [c for c in walk_no_nested(f_) if isinstance(c, ast.Call) and call_name(c) == 'generate_graphml']
        if not gens_ or not m_.name.startswith('fim.'):
            continue
        fq_ = (c_.name + '.' if c_ else '') + f_.name
        tainted, marked = set(), set()
        changed_ = True
        while changed_:
            changed_ = False
            for a in sorted([x for x in walk_no_nested(f_) if isinstance(x, ast.Assign) and len(x.targets) == 1 and isinstance(x.targets[0], ast.Name)],
                            key=lambda x: x.lineno):
                t_ = a.targets[0].id
                mentions_t = any(isinstance(x, ast.Name) and x.id in tainted for x in ast.walk(a.value)) or any(any(y is g for y in ast.walk(a.value)) for g in gens_)
                is_markup = any(isinstance(x, ast.Call) and call_name(x) == 'networkx_to_neo4j' for x in ast.walk(a.value))
                if mentions_t and is_markup:
                    if t_ not in marked:
                        marked.add(t_)
                        tainted.discard(t_)
                        changed_ = True
                elif mentions_t and t_ not in marked and t_ not in tainted:
                    tainted.add(t_)
                    changed_ = True
        # a name re-assigned from the markup counts as marked from then on (straight-line code in these functions)
        leaks = []
        for r_ in walk_no_nested(f_):
            vals = []
            if isinstance(r_, ast.Return) and r_.value is not None:
                vals = [r_.value]
            elif isinstance(r_, ast.Call) and call_name(r_) in ('write', 'writelines') and r_.args:
                vals = [r_.args[0]]
            for v_ in vals:
                if any(isinstance(x, ast.Call) and call_name(x) == 'networkx_to_neo4j' for x in ast.walk(v_)):
                    continue        # marked up on the way out
                if any(isinstance(x, ast.Name) and x.id in tainted and x.id not in marked for x in ast.walk(v_)) or \
                        any(any(y is g for y in ast.walk(v_)) for g in gens_):
                    leaks.append(r_)
        rep.instance('R2', f'{fq_}: GraphML text from generate_graphml leaves the function only after the label markup: {not leaks}')
        for r_ in leaks:
            rep.violation('R2', loc(m_, r_), fq_, f'{norm(r_, 70)} hands out GraphML without the label markup',
                          f'{fq_} produces GraphML text with networkx and returns / writes it without passing it through GraphML.networkx_to_neo4j: '
                          f'no node carries labels= and no edge label=, which the persistent (Neo4j) importer needs (its sibling that writes a file '
                          f'does apply the markup)')

    # GraphML writer options: the reader (read_graphml) is called with defaults, so the writer must not switch on options that
    # change how keys / ids / types are encoded
    UNSAFE_WRITER_OPTS = {'named_key_ids': 'node-scoped and edge-scoped keys of the same property name then share one key id and '
                                           'the reader resolves both to a single declared type',
                          'edge_id_from_attribute': 'edge ids are then taken from a property, colliding edge ids merge on import',
                          'infer_numeric_types': 'mixed int/float values of one property are then written under one numeric type'}
    for m in prog.modules.values():
        for c in ast.walk(m.tree):
            if isinstance(c, ast.Call) and call_name(c) in ('generate_graphml', 'write_graphml', 'write_graphml_lxml', 'write_graphml_xml'):
                rep.instance('R5', f'{loc(m, c)}: {norm(c, 80)}')
                for k in c.keywords:
                    if k.arg in UNSAFE_WRITER_OPTS and not (isinstance(k.value, ast.Constant) and k.value.value in (False, None)):
                        rep.violation('R5', loc(m, c), 'GraphML writer options', norm(c, 100),
                                      f'the GraphML writer is called with {k.arg}={norm(k.value)}: {UNSAFE_WRITER_OPTS[k.arg]}; the '
                                      f'typed round trip through read_graphml no longer returns the same values')

    # ---- R7: values the library itself writes into JSON-typed properties pass validate_graph after a round trip ----
    abcpg = prog.cls('fim.graph.abc_property_graph:ABCPropertyGraph')
    vj0 = abcpg.find_method('_validate_json_property')[1]
    if vj0 is None:
        raise AnalysisError('_validate_json_property vanished')
    vj = inline(prog, abcpg, vj0)
    loads = [c for c in walk_no_nested(vj) if isinstance(c, ast.Call) and call_name(c) == 'loads']
    if len(loads) != 1:
        raise AnalysisError('_validate_json_property: json.loads call not found')
    venv = local_env(vj)
    subject = ctext(loads[0].args[0], venv)
    _, vconds = _enclosing(loads[0], vj)
    json_props = set(prog.class_const(abcpg, 'JSON_PROPERTY_NAMES'))
    import json as _json

    def rejected(value):
        """True / False / None (cannot tell): would validation try to parse `value` and fail?"""
        fold = lambda e: prog.const_eval(e, abcpg.module, abcpg)
        for c in vconds:
            ce = canon(expand(c, venv))
            try:
                if not eval_test(ce, {subject: value}, fold):
                    return False
            except Unknown:
                # a condition that does not look at the value (the property being present, strictness): the question asked
                # is about a node that carries the property, so it does not decide
                if subject in ctext(ce):
                    return None
        try:
            _json.loads(value)
            return False
        except Exception:
            return True

    sentinels = []
    for m in prog.modules.values():
        for cls_ in prog._walk_classes(m):
            for fn in cls_.methods.values():
                for c in walk_no_nested(fn):
                    if isinstance(c, ast.Call) and call_name(c) in ('update_node_property', 'update_nodes_property', 'update_link_property'):
                        pv = kwarg(c, 'prop_val')
                        pn = kwarg(c, 'prop_name')
                        if isinstance(pv, ast.Constant) and isinstance(pv.value, str) and pn is not None:
                            sentinels.append((m, cls_, fn, c, pn, pv.value))
    for m, cls_, fn, c, pn, value in sentinels:
        names = set()
        cands = [pn]
        if isinstance(pn, ast.Name):
            # loop variable over a literal list / temporaries
            cands = []
            for l in walk_no_nested(fn):
                if isinstance(l, ast.For) and isinstance(l.target, ast.Name) and l.target.id == pn.id and isinstance(l.iter, (ast.List, ast.Tuple)):
                    cands.extend(l.iter.elts)
            cands.extend(flow.reaching_values(fn, pn.id))
        for e in cands:
            try:
                v = prog.const_eval(e, m, cls_)
                if isinstance(v, str):
                    names.add(v)
            except Unfoldable:
                pass
        hit = sorted(names & json_props)
        verdict = rejected(value)
        rep.instance('R7', f'{loc(m, c)} {cls_.name}.{fn.name} writes {value!r} into {hit or sorted(names) or norm(pn)}: rejected by validation: {verdict}')
        if hit and verdict:
            rep.violation('R7', loc(m, c), f'{cls_.name}.{fn.name}', f'writes {value!r} into {hit}',
                          f'the library stores {value!r} in JSON-typed propert{"ies" if len(hit) > 1 else "y"} {hit}, but _validate_json_property would try to '
                          f'parse that value and fail: a model containing it serializes and imports, yet validate_graph() rejects '
                          f'the imported graph')
    for value in (None, prog.class_const(abcpg, 'NEO4j_NONE')):
        verdict = rejected(value) if isinstance(value, str) else None
        if isinstance(value, str):
            rep.instance('R7', f'unset sentinel {value!r}: rejected by validation: {verdict}')
            if verdict:
                rep.violation('R7', loc(abcpg.module, vj0), 'ABCPropertyGraph._validate_json_property', f'sentinel {value!r} rejected',
                              f'{value!r} is how an unset property reads back from Neo4j; validation must skip it')
    # the empty string: the property quantifies over raw property graphs whose values include empty strings, every
    # decoder of the library reads '' as "nothing set", and GraphML / node-link carry it unchanged - validation must skip
    # it like the other "nothing here" values, whether or not some library path currently writes it
    verdict = rejected('')
    rep.instance('R7', f"empty text in a JSON-typed property: rejected by validation: {verdict}")
    if verdict:
        rep.violation('R7', loc(abcpg.module, vj0), 'ABCPropertyGraph._validate_json_property', "empty text rejected",
                      "an empty string in a JSON-typed property (what the attribute codecs produce for a value with nothing set) is handed to "
                      "json.loads and reported as unparseable: a graph the library serialised and imported without loss fails validate_graph()")

    # ---- R6 ----
    an = nxpg.methods.get('add_node')
    bl = [c for c in walk_no_nested(an) if isinstance(c, ast.Call) and call_name(c) == 'add_blank_node_to_graph']
    rep.instance('R6', f'add_node: {norm(bl[0], 110) if bl else None}')
    if not bl or ast.unparse(bl[0].args[0]) != 'self.graph_id' or ast.unparse(kwarg(bl[0], 'Class') or ast.Constant(None)) != 'label' or \
            ast.unparse(kwarg(bl[0], 'NodeID') or ast.Constant(None)) != 'node_id':
        rep.violation('R6', loc(nxpg.module, an), 'NetworkXPropertyGraph.add_node', 'Class / NodeID / graph id not stamped',
                      'a created node must carry Class, NodeID and the graph id, otherwise the re-imported model fails graph validation')
    for shell in (nxg.SHARED_SHELL, nxg.DISJ_SHELL):
        st = nxg.storage_class(prog, shell)
        ab = st.methods.get('add_blank_node_to_graph')
        cs = [c for c in walk_no_nested(ab) if isinstance(c, ast.Call) and call_name(c) == 'add_node']
        rep.instance('R6', f'{st.name}.add_blank_node_to_graph: {norm(cs[0], 100) if cs else None}')
        if not cs or ast.unparse(kwarg(cs[0], 'GraphID') or ast.Constant(None)) != 'graph_id' or not any(k.arg is None for k in cs[0].keywords):
            rep.violation('R6', loc(st.module, ab), f'{st.name}.add_blank_node_to_graph', 'GraphID / attributes not stored',
                          'the blank node must be stored with GraphID and the attributes given')
    al = nxpg.methods.get('add_link')
    es = [c for c in walk_no_nested(al) if isinstance(c, ast.Call) and call_name(c) == 'add_edge']
    rep.instance('R6', f'add_link: {[norm(c, 90) for c in es]}')
    for c in es:
        if ast.unparse(kwarg(c, 'Class') or ast.Constant(None)) != 'rel':
            rep.violation('R6', loc(nxpg.module, c), 'NetworkXPropertyGraph.add_link', norm(c, 100), 'a created edge must carry its relationship as Class')
    if not es:
        rep.violation('R6', loc(nxpg.module, al), 'NetworkXPropertyGraph.add_link', 'no edge created', 'add_link no longer creates an edge')


NX = 'fim/graph/networkx_property_graph.py'
GU = 'fim/graph/graph_util.py'
MUTANTS = [
    {'name': 'string-enumeration-without-label-markup', 'file': 'fim/graph/abc_property_graph.py', 'rule': 'R2',
     'find': "        return GraphML.networkx_to_neo4j(graph_string)\n", 'replace': "        return graph_string\n"},
    {'name': 'read-format-dropped', 'file': NX, 'rule': 'R1', 'find': 'READ_FORMATS = ["json_nodelink", "graphml"]', 'replace': 'READ_FORMATS = ["graphml"]'},
    {'name': 'markup-step-dropped', 'file': NX, 'rule': 'R2', 'find': '                graph_string = GraphML.networkx_to_neo4j(graph_string)\n', 'replace': ''},
    {'name': 'node-markup-conditional-on-edge-key', 'file': GU, 'rule': 'R2',
     'find': "            if data is not None and not n.attrib.get('labels'):", 'replace': "            if data is not None and edge_class and not n.attrib.get('labels'):"},
    {'name': 'direct-import-uses-add_graph', 'file': NX, 'rule': 'R3',
     'find': '            if graph:\n                self.storage.add_graph_direct(graph_id=graph_id, graph=graph)\n            else:\n                raise PropertyGraphImportException(graph_id=graph_id,\n                                                   msg=f\'Unable to import graph from string\')\n\n        return self.graph_class(graph_id=graph_id, importer=self, logger=self.log) if graph_id is not None else None',
     'replace': '            if graph:\n                self.storage.add_graph(graph_id=graph_id, graph=graph)\n            else:\n                raise PropertyGraphImportException(graph_id=graph_id,\n                                                   msg=f\'Unable to import graph from string\')\n\n        return self.graph_class(graph_id=graph_id, importer=self, logger=self.log) if graph_id is not None else None'},
    {'name': 'tempfile-flush-dropped', 'file': NX, 'rule': 'R3',
     'find': "            f1.write(graph_string)\n            f1.flush()\n            graph = self._read_from_file(f1.name)", 'replace': "            f1.write(graph_string)\n            graph = self._read_from_file(f1.name)"},
    {'name': 'graphid-stamp-dropped', 'file': NX, 'rule': 'R4',
     'find': '                    temp_graph.nodes[n][ABCPropertyGraph.GRAPH_ID] = graph_id\n                # check this graph_id', 'replace': '                # check this graph_id'},
    {'name': 'extract-loses-node-data', 'file': NX, 'rule': 'R4',
     'find': '                for n in graph_nodes:\n                    # merge node dictionaries\n                    ret.nodes[n].update(self.graphs.nodes[n])\n', 'replace': ''},
    {'name': 'json-writer-reader-key-mismatch', 'file': NX, 'rule': 'R5',
     'find': 'json_object = nx.readwrite.node_link_data(graph)', 'replace': "json_object = nx.readwrite.node_link_data(graph, edges='edges')"},
    {'name': 'edge-class-not-stamped', 'file': NX, 'rule': 'R6',
     'find': '            self.storage.get_graph(self.graph_id).add_edge(real_node_a, real_node_b, Class=rel)', 'replace': '            self.storage.get_graph(self.graph_id).add_edge(real_node_a, real_node_b)'},
]
TWINS = [
    {'name': 'read-formats-reordered', 'file': NX, 'find': 'READ_FORMATS = ["json_nodelink", "graphml"]', 'replace': 'READ_FORMATS = ["graphml", "json_nodelink"]'},
]
