"""
C15 -- capacity arithmetic and comparison obey their algebraic laws.

Structural premises P1..P8 checked on the AST; under them (integer fields) the laws follow point-wise:
(a+b)-b = a, a+b = b+a, free+allocated = total, a<b <=> b-a has no negative field, == reflexive/symmetric.
"""
import ast

from ..core import AnalysisError, norm, loc, walk_no_nested, attr_chain, call_name

CAPS = 'fim.slivers.capacities_labels:Capacities'
FREE = 'fim.slivers.capacities_labels:FreeCapacity'

MUTATING = {'pop', 'popitem', 'clear', 'update', 'setdefault', '__setitem__', '__delitem__'}


def dict_aliases(fn):
    """local names bound to <x>.__dict__ without a copy -> source text"""
    out = {}
    for n in walk_no_nested(fn):
        if isinstance(n, ast.Assign) and isinstance(n.value, ast.Attribute) and n.value.attr == '__dict__':
            for t in n.targets:
                if isinstance(t, ast.Name):
                    out[t.id] = ast.unparse(n.value)
    return out


def fresh_locals(fn):
    """local names bound to a constructor call (fresh objects)"""
    out = set()
    for n in walk_no_nested(fn):
        if isinstance(n, ast.Assign) and isinstance(n.value, ast.Call) and isinstance(n.value.func, ast.Name) \
                and n.value.func.id[:1].isupper():
            for t in n.targets:
                if isinstance(t, ast.Name):
                    out.add(t.id)
    return out


def check_purity(rep, mod, cls, fn, operands):
    """no store through / mutation of the operands' field dictionaries or attributes."""
    fq = f'{cls.name}.{fn.name}'
    aliases = dict_aliases(fn)
    fresh = fresh_locals(fn)
    rep.instance('P2', f'{fq}: operands {sorted(operands)} aliases {aliases}')

    def root_is_operand(expr):
        txt = ast.unparse(expr)
        for o in operands:
            if txt == o or txt.startswith(o + '.') or txt.startswith(o + '['):
                return o
        if isinstance(expr, ast.Name) and expr.id in aliases:
            src = aliases[expr.id]
            for o in operands:
                if src.startswith(o + '.') or src == o:
                    return f'{expr.id} (alias of {src})'
        return None

    for n in walk_no_nested(fn):
        tgt = None
        if isinstance(n, (ast.Assign, ast.AugAssign, ast.AnnAssign)):
            targets = n.targets if isinstance(n, ast.Assign) else [n.target]
            for t in targets:
                if isinstance(t, ast.Subscript):
                    r = root_is_operand(t.value)
                    if r:
                        tgt = (r, norm(n))
                elif isinstance(t, ast.Attribute) and fn.name not in ('__init__',):
                    base_txt = ast.unparse(t.value)
                    if base_txt in operands or any(base_txt.startswith(o + '.') for o in operands):
                        tgt = (base_txt, norm(n))
        elif isinstance(n, ast.Delete):
            for t in n.targets:
                if isinstance(t, ast.Subscript):
                    r = root_is_operand(t.value)
                    if r:
                        tgt = (r, norm(n))
        elif isinstance(n, ast.Call) and isinstance(n.func, ast.Attribute) and n.func.attr in MUTATING:
            r = root_is_operand(n.func.value)
            if r:
                tgt = (r, norm(n))
        elif isinstance(n, ast.Call) and call_name(n) in ('__setattr__', 'setattr', '_set_fields'):
            recv = n.func.value if isinstance(n.func, ast.Attribute) else (n.args[0] if n.args else None)
            if recv is not None:
                base_txt = ast.unparse(recv)
                if base_txt in operands and fn.name != '__init__':
                    tgt = (base_txt, norm(n))
        if tgt:
            rep.violation('P2', loc(mod, n), fq, tgt[1],
                          f'{fq} modifies its operand {tgt[0]}: operands of capacity arithmetic / comparison / printing '
                          f'must never be modified (a later a+b, (a+b)-b or == on the same object gives a wrong result)')


def loop_over_self_dict(fn):
    for n in walk_no_nested(fn):
        if isinstance(n, ast.For):
            it = ast.unparse(n.iter)
            if it in ('self.__dict__.items()', 'self.__dict__', 'self.__dict__.keys()'):
                return n
    return None


def run(prog, rep):
    rep.extra['explanation'] = (
        'The operator methods of Capacities and FreeCapacity are checked to be point-wise lifts over the full field set '
        'into a fresh object (P1), never to store into or mutate an operand (P2), to have mirrored comparators (P3), '
        'negative_fields = {f | v<0} (P4), field-wise equality without a truthiness shortcut on a value that can be '
        'falsy (P5), free = total - allocated with None -> zero (P6), results written past the non-negativity validator '
        'and printable (P7), fields restricted to ints by the setter (P8). Lemma: under P1-P8 the stated laws hold for '
        'all int-valued capacities, so the property is decided whole.')
    for r, t, f in [('P1', '+/- are point-wise lifts over self.__dict__ into a fresh Capacities', 2),
                    ('P2', 'no operand is stored into or mutated', 8),
                    ('P3', '__gt__/__lt__ mirror each other field-wise', 2),
                    ('P4', 'negative_fields / positive_fields thresholds', 2),
                    ('P5', '__eq__ is field-wise; no truthiness shortcut can misfire', 1),
                    ('P6', 'FreeCapacity.free = total - allocated, None -> zero', 1),
                    ('P7', 'results bypass the validating setter; printing accepts any int', 2),
                    ('P8', 'fields are ints (enforced by _set_fields)', 1)]:
        rep.rule(r, t, floor=f)
    caps = prog.cls(CAPS)
    free = prog.cls(FREE)
    mod = caps.module

    # P1
    for name, op in (('__add__', ast.Add), ('__sub__', ast.Sub)):
        fn = caps.methods.get(name)
        if fn is None:
            raise AnalysisError(f'Capacities.{name} vanished')
        fq = f'Capacities.{name}'
        loop = loop_over_self_dict(fn)
        fresh = [n for n in walk_no_nested(fn) if isinstance(n, ast.Assign) and isinstance(n.value, ast.Call)
                 and isinstance(n.value.func, ast.Name) and n.value.func.id == 'Capacities' and not n.value.args
                 and not n.value.keywords]
        rets = [n for n in walk_no_nested(fn) if isinstance(n, ast.Return)]
        rep.instance('P1', f'{fq}: loop={norm(loop.iter) if loop else None}')
        if loop is None:
            rep.violation('P1', loc(mod, fn), fq, 'does not iterate self.__dict__',
                          f'{fq} no longer ranges over all fields of self')
            continue
        if not fresh:
            rep.violation('P1', loc(mod, fn), fq, 'result is not a fresh Capacities()',
                          f'{fq} does not build its result in a fresh Capacities()')
            continue
        res = fresh[0].targets[0].id
        fvar = loop.target.elts[0].id if isinstance(loop.target, ast.Tuple) else loop.target.id
        vvar = loop.target.elts[1].id if isinstance(loop.target, ast.Tuple) and len(loop.target.elts) > 1 else None
        stores = [n for n in ast.walk(loop) if isinstance(n, ast.Assign) and isinstance(n.targets[0], ast.Subscript)]
        good = False
        for s in stores:
            t = s.targets[0]
            if ast.unparse(t.value) == f'{res}.__dict__' and ast.unparse(t.slice) == fvar and isinstance(s.value, ast.BinOp):
                l, r = ast.unparse(s.value.left), ast.unparse(s.value.right)
                left_ok = l in (f'self.__dict__[{fvar}]', vvar)
                right_ok = r in (f'other.__dict__[{fvar}]', f'other.__dict__.get({fvar}, 0)')
                if isinstance(s.value.op, op) and left_ok and right_ok:
                    good = True
                else:
                    rep.violation('P1', loc(mod, s), fq, norm(s),
                                  f'{fq} must compute self[f] {"+" if op is ast.Add else "-"} other[f] for every field f; found {norm(s.value)}')
                    good = True
        if not good:
            rep.violation('P1', loc(mod, loop), fq, 'no point-wise store into the result',
                          f'{fq} does not store self[f] op other[f] into the result for each field')
        # loop must not skip fields
        for n in ast.walk(loop):
            if isinstance(n, (ast.Continue, ast.Break)) or (isinstance(n, ast.If) and n is not loop):
                rep.violation('P1', loc(mod, n), fq, f'conditional in the field loop: {norm(n, 60)}',
                              f'{fq} treats some fields differently from others (conditional inside the field loop)')
        if not rets or ast.unparse(rets[-1].value) != res:
            rep.violation('P1', loc(mod, fn), fq, 'does not return the fresh result',
                          f'{fq} does not return the freshly built result object')
        # P7: the result must not be built through the validating constructor / setter
        for n in walk_no_nested(fn):
            if isinstance(n, ast.Call) and (call_name(n) == '_set_fields' or
                                            (isinstance(n.func, ast.Name) and n.func.id == 'Capacities' and n.keywords)):
                rep.violation('P7', loc(mod, n), fq, norm(n),
                              f'{fq} builds its result through the validating setter, which asserts v >= 0: a '
                              f'difference with a negative field raises instead of being representable')
        rep.instance('P7', f'{fq}: result written through {res}.__dict__')

    # P2 purity of every operator of Capacities and every method of FreeCapacity
    for name in ('__add__', '__sub__', '__gt__', '__lt__', '__eq__', 'negative_fields', 'positive_fields', '__str__'):
        fn = caps.methods.get(name)
        if fn is None:
            raise AnalysisError(f'Capacities.{name} vanished')
        check_purity(rep, mod, caps, fn, {'self', 'other'})
    for name, fn in free.methods.items():
        ops = {'self.total', 'self.free', 'total', 'allocated'} if name != '__init__' else {'total', 'allocated'}
        check_purity(rep, free.module, free, fn, ops)
    # JSONField helpers that the operators' results go through (to_json/to_dict) must copy before dropping
    jf = prog.cls('fim.slivers.capacities_labels:JSONField')
    for name in ('to_json', 'to_dict'):
        check_purity(rep, jf.module, jf, jf.methods[name], {'self'})

    # P3 comparators
    want = {'__gt__': ast.Lt, '__lt__': ast.Gt}
    for name, cmpop in want.items():
        fn = caps.methods[name]
        fq = f'Capacities.{name}'
        loop = loop_over_self_dict(fn)
        ok = False
        if loop is not None and isinstance(loop.target, ast.Tuple):
            fvar, vvar = loop.target.elts[0].id, loop.target.elts[1].id
            ifs = [n for n in loop.body if isinstance(n, ast.If)]
            if len(ifs) == 1 and isinstance(ifs[0].test, ast.Compare) and len(ifs[0].test.ops) == 1:
                t = ifs[0].test
                l, r = ast.unparse(t.left), ast.unparse(t.comparators[0])
                o = type(t.ops[0])
                # normalise so that self's value is on the left
                flip = {ast.Lt: ast.Gt, ast.Gt: ast.Lt, ast.LtE: ast.GtE, ast.GtE: ast.LtE}
                if r in (vvar, f'self.__dict__[{fvar}]') and l == f'other.__dict__[{fvar}]':
                    l, r, o = r, l, flip.get(o, o)
                ret_false = any(isinstance(x, ast.Return) and isinstance(x.value, ast.Constant) and x.value.value is False
                                for x in ifs[0].body)
                ok = l in (vvar, f'self.__dict__[{fvar}]') and r == f'other.__dict__[{fvar}]' and o is cmpop and ret_false
        last = fn.body[-1]
        ret_true = isinstance(last, ast.Return) and isinstance(last.value, ast.Constant) and last.value.value is True
        rep.instance('P3', f'{fq}: {norm(loop.body[0].test) if loop is not None and loop.body and isinstance(loop.body[0], ast.If) else "?"}')
        if not (ok and ret_true):
            rep.violation('P3', loc(mod, fn), fq, 'comparator shape',
                          f'{fq} must return False iff some field of self is {"<" if cmpop is ast.Lt else ">"} the same '
                          f'field of other (and True otherwise); the two comparisons must mirror each other')

    # P4
    nf = caps.methods['negative_fields']
    txt = ast.unparse(nf)
    rep.instance('P4', 'Capacities.negative_fields: v < 0 -> append(f)')
    loop = loop_over_self_dict(nf)
    good = False
    if loop is not None and isinstance(loop.target, ast.Tuple):
        fvar, vvar = loop.target.elts[0].id, loop.target.elts[1].id
        for n in loop.body:
            if isinstance(n, ast.If) and ast.unparse(n.test) in (f'{vvar} < 0', f'0 > {vvar}') and \
                    any(isinstance(c, ast.Call) and call_name(c) == 'append' and ast.unparse(c.args[0]) == fvar
                        for c in ast.walk(n)):
                good = True
    if not good:
        rep.violation('P4', loc(mod, nf), 'Capacities.negative_fields', 'threshold / collected name',
                      'negative_fields must collect exactly the names of the fields whose value is < 0')
    pf = caps.methods['positive_fields']
    rep.instance('P4', 'Capacities.positive_fields: <= 0 -> False')
    if '<= 0' not in ast.unparse(pf):
        rep.violation('P4', loc(mod, pf), 'Capacities.positive_fields', 'threshold',
                      'positive_fields must return False when a requested field is <= 0')

    # P5 equality
    eq = caps.methods['__eq__']
    loop = loop_over_self_dict(eq)
    rep.instance('P5', f'Capacities.__eq__: {norm(loop.body[-1].test) if loop is not None and isinstance(loop.body[-1], ast.If) else "?"}')
    good = False
    if loop is not None and isinstance(loop.target, ast.Tuple):
        fvar, vvar = loop.target.elts[0].id, loop.target.elts[1].id
        for n in loop.body:
            if isinstance(n, ast.If) and isinstance(n.test, ast.Compare) and isinstance(n.test.ops[0], ast.NotEq):
                l, r = ast.unparse(n.test.left), ast.unparse(n.test.comparators[0])
                if {l, r} & {vvar, f'self.__dict__[{fvar}]'} and {l, r} & {f'other.__dict__.get({fvar}, 0)', f'other.__dict__[{fvar}]'}:
                    good = True
    last = eq.body[-1]
    if not good or not (isinstance(last, ast.Return) and isinstance(last.value, ast.Constant) and last.value.value is True):
        rep.violation('P5', loc(mod, eq), 'Capacities.__eq__', 'not field-wise',
                      '__eq__ must return False iff some field differs and True otherwise')
    # truthiness shortcut: `if not other` is only sound while no Capacities value is falsy
    uses_truth = any(isinstance(n, ast.UnaryOp) and isinstance(n.op, ast.Not) and ast.unparse(n.operand) == 'other'
                     for n in ast.walk(eq)) or any(isinstance(n, ast.If) and ast.unparse(n.test) == 'other' for n in ast.walk(eq))
    if uses_truth:
        for c in caps.mro():
            for special in ('__bool__', '__len__'):
                if special in c.methods:
                    rep.violation('P5', loc(c.module, c.methods[special]), f'{c.name}.{special}',
                                  f'{special} defined while __eq__ tests `not other`',
                                  f'Capacities.__eq__ treats a falsy `other` as "not equal"; {c.name}.{special} makes some '
                                  f'Capacities values (e.g. all-zero) falsy, so x == x is False for them')

    # P6
    fi = free.methods.get('__init__')
    ftxt = ast.unparse(fi)
    rep.instance('P6', f'FreeCapacity.__init__: {[norm(n) for n in fi.body if isinstance(n, ast.Assign)]}')
    assigns = {ast.unparse(n.targets[0]): n.value for n in ast.walk(fi) if isinstance(n, ast.Assign)}
    fv = assigns.get('self.free')
    if not (isinstance(fv, ast.BinOp) and isinstance(fv.op, ast.Sub) and ast.unparse(fv.left) == 'total'
            and ast.unparse(fv.right) == 'allocated'):
        rep.violation('P6', loc(free.module, fi), 'FreeCapacity.__init__', 'free is not total - allocated',
                      'FreeCapacity must compute free = total - allocated')
    if ast.unparse(assigns.get('self.total', ast.Constant(None))) != 'total':
        rep.violation('P6', loc(free.module, fi), 'FreeCapacity.__init__', 'total not kept', 'FreeCapacity must keep total')
    none_ok = any(isinstance(n, ast.If) and ast.unparse(n.test) == 'allocated is None' and
                  'allocated = Capacities()' in ast.unparse(n) for n in ast.walk(fi))
    if not none_ok:
        rep.violation('P6', loc(free.module, fi), 'FreeCapacity.__init__', 'None allocation not mapped to zero',
                      'a missing allocation must be treated as all-zero')

    # P7 printing
    for cls, name in ((caps, '__str__'), (free, '__str__')):
        fn = cls.methods.get(name)
        bad = [n for n in walk_no_nested(fn) if isinstance(n, (ast.Assert, ast.Raise))]
        rep.instance('P7', f'{cls.name}.{name}: no assert/raise')
        for b in bad:
            rep.violation('P7', loc(cls.module, b), f'{cls.name}.{name}', norm(b),
                          'printing a capacity must not reject a value (negative fields must be printable)')

    # P8
    sf = caps.methods['_set_fields']
    atxt = ' ; '.join(ast.unparse(a.test) for a in ast.walk(sf) if isinstance(a, ast.Assert))
    rep.instance('P8', f'Capacities._set_fields asserts: {atxt}')
    if 'isinstance(v, int)' not in atxt:
        rep.violation('P8', loc(mod, sf), 'Capacities._set_fields', 'int assertion missing',
                      'the point-wise lemma assumes int fields; _set_fields no longer asserts it')


CL = 'fim/slivers/capacities_labels.py'
MUTANTS = [
    {'name': 'sub-becomes-add', 'file': CL, 'rule': 'P1',
     'find': 'ret.__dict__[f] = self.__dict__[f] - other.__dict__[f]', 'replace': 'ret.__dict__[f] = self.__dict__[f] + other.__dict__[f]'},
    {'name': 'sub-operands-swapped', 'file': CL, 'rule': 'P1',
     'find': 'ret.__dict__[f] = self.__dict__[f] - other.__dict__[f]', 'replace': 'ret.__dict__[f] = other.__dict__[f] - self.__dict__[f]'},
    {'name': 'add-accumulates-into-self', 'file': CL, 'rule': 'P1',
     'find': '        ret = Capacities()\n        for f, v in self.__dict__.items():\n            ret.__dict__[f] = self.__dict__[f] + other.__dict__[f]\n\n        return ret',
     'replace': '        for f, v in self.__dict__.items():\n            self.__dict__[f] = self.__dict__[f] + other.__dict__[f]\n\n        return self'},
    {'name': 'gt-comparator-flipped', 'file': CL, 'rule': 'P3',
     'find': '            if v < other.__dict__[f]:\n                return False', 'replace': '            if v <= other.__dict__[f]:\n                return False'},
    {'name': 'negative-fields-threshold', 'file': CL, 'rule': 'P4',
     'find': '            if v < 0:\n                ret.append(f)', 'replace': '            if v <= 0:\n                ret.append(f)'},
    {'name': 'sub-through-validating-constructor', 'file': CL, 'rule': 'P7',
     'find': '        for f, v in self.__dict__.items():\n            ret.__dict__[f] = self.__dict__[f] - other.__dict__[f]\n',
     'replace': '        for f, v in self.__dict__.items():\n            ret.__dict__[f] = self.__dict__[f] - other.__dict__[f]\n        ret._set_fields(**ret.__dict__)\n'},
    {'name': 'free-is-total-plus-allocated', 'file': CL, 'rule': 'P6',
     'find': 'self.free = total - allocated', 'replace': 'self.free = allocated - total'},
    {'name': 'tojson-drops-from-live-dict', 'file': CL, 'rule': 'P2', 'count': 1,
     'find': '        d = self.__dict__.copy()\n        for k in self.__dict__:\n            if d[k] is None or d[k] == 0:\n                d.pop(k)\n        if len(d) == 0:\n            return \'\'\n        return json.dumps(d, skipkeys=True, sort_keys=True)',
     'replace': '        d = self.__dict__\n        for k in list(self.__dict__):\n            if d[k] is None or d[k] == 0:\n                d.pop(k)\n        if len(d) == 0:\n            return \'\'\n        return json.dumps(d, skipkeys=True, sort_keys=True)'},
]
TWINS = [
    {'name': 'add-uses-loop-value', 'file': CL,
     'find': 'ret.__dict__[f] = self.__dict__[f] + other.__dict__[f]', 'replace': 'ret.__dict__[f] = v + other.__dict__[f]'},
    {'name': 'lt-mirrored-operands', 'file': CL,
     'find': '            if v > other.__dict__[f]:\n                return False', 'replace': '            if other.__dict__[f] < v:\n                return False'},
]
