"""
C15 -- capacity arithmetic and comparison obey their algebraic laws.

Structural premises P1..P8 checked on the AST; under them (integer fields) the laws follow point-wise:
(a+b)-b = a, a+b = b+a, free+allocated = total, a<b <=> b-a has no negative field, == reflexive/symmetric.
"""
import ast

from ..core import AnalysisError, norm, loc, walk_no_nested, attr_chain, call_name
from ..normalize import inline, local_env, expand, canon, ctext, branch_values, Unknown, negate, _replace_node
from .. import fieldwise as fw

CAPS = 'fim.slivers.capacities_labels:Capacities'
FREE = 'fim.slivers.capacities_labels:FreeCapacity'

MUTATING = {'pop', 'popitem', 'clear', 'update', 'setdefault', '__setitem__', '__delitem__'}


def dict_aliases(fn):
    """local names bound to <x>.__dict__ without a copy -> source text"""
    out = {}
    for n in walk_no_nested(fn):
        if isinstance(n, ast.Assign) and isinstance(n.value, ast.Attribute) and n.value.attr == '__dict__':
            for t in n.targets:
                if isinstance(t, ast.Name):
                    out[t.id] = ast.unparse(n.value)
    return out


def fresh_locals(fn):
    """local names bound to a constructor call (fresh objects)"""
    out = set()
    for n in walk_no_nested(fn):
        if isinstance(n, ast.Assign) and isinstance(n.value, ast.Call) and isinstance(n.value.func, ast.Name) \
                and n.value.func.id[:1].isupper():
            for t in n.targets:
                if isinstance(t, ast.Name):
                    out.add(t.id)
    return out


def check_purity(rep, mod, cls, fn, operands):
    """no store through / mutation of the operands' field dictionaries or attributes."""
    fq = f'{cls.name}.{fn.name}'
    aliases = dict_aliases(fn)
    fresh = fresh_locals(fn)
    rep.instance('P2', f'{fq}: operands {sorted(operands)} aliases {aliases}')

    def root_is_operand(expr):
        txt = ast.unparse(expr)
        for o in operands:
            if txt == o or txt.startswith(o + '.') or txt.startswith(o + '['):
                return o
        if isinstance(expr, ast.Name) and expr.id in aliases:
            src = aliases[expr.id]
            for o in operands:
                if src.startswith(o + '.') or src == o:
                    return f'{expr.id} (alias of {src})'
        return None

    for n in walk_no_nested(fn):
        tgt = None
        if isinstance(n, (ast.Assign, ast.AugAssign, ast.AnnAssign)):
            targets = n.targets if isinstance(n, ast.Assign) else [n.target]
            for t in targets:
                if isinstance(t, ast.Subscript):
                    r = root_is_operand(t.value)
                    if r:
                        tgt = (r, norm(n))
                elif isinstance(t, ast.Attribute) and fn.name not in ('__init__',):
                    base_txt = ast.unparse(t.value)
                    if base_txt in operands or any(base_txt.startswith(o + '.') for o in operands):
                        tgt = (base_txt, norm(n))
        elif isinstance(n, ast.Delete):
            for t in n.targets:
                if isinstance(t, ast.Subscript):
                    r = root_is_operand(t.value)
                    if r:
                        tgt = (r, norm(n))
        elif isinstance(n, ast.Call) and isinstance(n.func, ast.Attribute) and n.func.attr in MUTATING:
            r = root_is_operand(n.func.value)
            if r:
                tgt = (r, norm(n))
        elif isinstance(n, ast.Call) and call_name(n) in ('__setattr__', 'setattr', '_set_fields'):
            recv = n.func.value if isinstance(n.func, ast.Attribute) else (n.args[0] if n.args else None)
            if recv is not None:
                base_txt = ast.unparse(recv)
                if base_txt in operands and fn.name != '__init__':
                    tgt = (base_txt, norm(n))
        if tgt:
            rep.violation('P2', loc(mod, n), fq, tgt[1],
                          f'{fq} modifies its operand {tgt[0]}: operands of capacity arithmetic / comparison / printing '
                          f'must never be modified (a later a+b, (a+b)-b or == on the same object gives a wrong result)')


def loop_over_self_dict(fn):
    for n in walk_no_nested(fn):
        if isinstance(n, ast.For):
            it = ast.unparse(n.iter)
            if it in ('self.__dict__.items()', 'self.__dict__', 'self.__dict__.keys()'):
                return n
    return None


def run(prog, rep):
    rep.extra['explanation'] = (
        'The operator methods of Capacities and FreeCapacity are checked to be point-wise lifts over the full field set '
        'into a fresh object (P1), never to store into or mutate an operand (P2), to have mirrored comparators (P3), '
        'negative_fields = {f | v<0} (P4), field-wise equality without a truthiness shortcut on a value that can be '
        'falsy (P5), free = total - allocated with None -> zero (P6), results written past the non-negativity validator '
        'and printable (P7), fields restricted to ints by the setter (P8). Lemma: under P1-P8 the stated laws hold for '
        'all int-valued capacities, so the property is decided whole.')
    for r, t, f in [('P1', '+/- are point-wise lifts over self.__dict__ into a fresh Capacities', 2),
                    ('P2', 'no operand is stored into or mutated', 8),
                    ('P3', '__gt__/__lt__ mirror each other field-wise', 2),
                    ('P4', 'negative_fields / positive_fields thresholds', 2),
                    ('P5', '__eq__ is field-wise; no truthiness shortcut can misfire', 1),
                    ('P6', 'FreeCapacity.free = total - allocated, None -> zero', 1),
                    ('P7', 'results bypass the validating setter; printing accepts any int', 2),
                    ('P8', 'fields are ints (enforced by _set_fields)', 1)]:
        rep.rule(r, t, floor=f)
    caps = prog.cls(CAPS)
    free = prog.cls(FREE)
    mod = caps.module

    # P1
    for name, op in (('__add__', ast.Add), ('__sub__', ast.Sub)):
        fn0 = caps.methods.get(name)
        if fn0 is None:
            raise AnalysisError(f'Capacities.{name} vanished')
        fq = f'Capacities.{name}'
        sym = '+' if op is ast.Add else '-'
        try:
            mf = fw.map_form(prog, caps, fn0)
        except fw.NotFieldwise as e:
            rep.instance('P1', f'{fq}: not a point-wise lift ({e})')
            rep.violation('P1', loc(mod, fn0), fq, 'does not iterate self.__dict__', f'{fq} no longer ranges over all fields of self')
            continue
        fn, env = mf['fn'], mf['env']
        rets = mf['returns']
        result_names = {st['result'] for st in mf['stores']}
        res = None
        for r_ in rets:
            if isinstance(r_.value, ast.Name) and r_.value.id in result_names:
                res = r_.value.id
        rep.instance('P1', f'{fq}: stores {[norm(st["stmt"], 70) for st in mf["stores"]]} into {sorted(result_names)}; returns {[norm(r_.value, 30) for r_ in rets]}')
        if res is None or len(rets) != 1:
            rep.violation('P1', loc(mod, fn0), fq, 'does not return the fresh result', f'{fq} does not return the freshly built result object')
            continue
        mk = mf['made'].get(res)
        if mk is None or mk.func.id != 'Capacities':
            rep.violation('P1', loc(mod, fn0), fq, 'result is not a fresh Capacities()', f'{fq} does not build its result in a fresh Capacities()')
            continue
        if mk.args or mk.keywords:
            rep.violation('P7', loc(mod, mk), fq, norm(mk),
                          f'{fq} builds its result through the validating constructor, which asserts v >= 0 on the values it is given: an '
                          f'operand (or a difference) with a negative field raises instead of being representable, and the result depends on '
                          f'which operand comes first')
        good = False
        for st in mf['stores']:
            if st['result'] != res:
                continue
            g = st['gen']
            if g is None or g.owner != 'self':
                rep.violation('P1', loc(mod, st['stmt']), fq, f'result filled from a loop over {norm(st["gens"][-1][1], 40) if st["gens"] else "nothing"}',
                              f'{fq} no longer ranges over all fields of self')
                good = True
                continue
            if not (isinstance(st['key'], ast.Name) and st['key'].id == g.fvar):
                rep.violation('P1', loc(mod, st['stmt']), fq, norm(st['stmt'], 80), f'{fq} stores the result of field f under another key')
                good = True
                continue
            val = st['value']
            if st['aug'] is not None:
                val = ast.BinOp(left=ast.Subscript(value=ast.Attribute(value=ast.Name(id=res, ctx=ast.Load()), attr='__dict__', ctx=ast.Load()),
                                                   slice=ast.Name(id=g.fvar, ctx=ast.Load()), ctx=ast.Load()), op=st['aug'], right=val)
            txt = fw.norm_expr(val, g, env)
            want = ['SELF_f + OTHER_f', 'OTHER_f + SELF_f'] if op is ast.Add else ['SELF_f - OTHER_f']
            want += [w.replace('OTHER_f', 'dflt(OTHER_f, 0)') for w in want]
            if txt not in want:
                rep.violation('P1', loc(mod, st['stmt']), fq, norm(st['stmt']),
                              f'{fq} must compute self[f] {sym} other[f] for every field f; found {txt}')
            good = True
            if st['conds']:
                rep.violation('P1', loc(mod, st['stmt']), fq, f'conditional in the field loop: {[norm(c, 40) for c in st["conds"]]}',
                              f'{fq} treats some fields differently from others (conditional inside the field loop)')
            for l in [x for x in ast.walk(fn) if isinstance(x, ast.For) and any(y is st['stmt'] for y in ast.walk(x))]:
                for n in ast.walk(l):
                    if isinstance(n, (ast.Continue, ast.Break)):
                        rep.violation('P1', loc(mod, n), fq, f'conditional in the field loop: {norm(n, 60)}',
                                      f'{fq} treats some fields differently from others (conditional inside the field loop)')
        if not good:
            rep.violation('P1', loc(mod, fn0), fq, 'no point-wise store into the result', f'{fq} does not store self[f] op other[f] into the result for each field')
        # P7: the result must not be built through the validating setter
        for n in walk_no_nested(fn):
            if isinstance(n, ast.Call) and call_name(n) == '_set_fields':
                rep.violation('P7', loc(mod, n), fq, norm(n),
                              f'{fq} builds its result through the validating setter, which asserts v >= 0: a '
                              f'difference with a negative field raises instead of being representable')
        rep.instance('P7', f'{fq}: result written through {res}.__dict__')

    # P2 purity of every operator of Capacities and every method of FreeCapacity
    for name in ('__add__', '__sub__', '__gt__', '__lt__', '__eq__', 'negative_fields', 'positive_fields', '__str__'):
        fn = caps.methods.get(name)
        if fn is None:
            raise AnalysisError(f'Capacities.{name} vanished')
        check_purity(rep, mod, caps, fn, {'self', 'other'})
    for name, fn in free.methods.items():
        ops = {'self.total', 'self.free', 'total', 'allocated'} if name != '__init__' else {'total', 'allocated'}
        check_purity(rep, free.module, free, fn, ops)
    # JSONField helpers that the operators' results go through (to_json/to_dict) must copy before dropping
    jf = prog.cls('fim.slivers.capacities_labels:JSONField')
    for name in ('to_json', 'to_dict'):
        check_purity(rep, jf.module, jf, jf.methods[name], {'self'})

    # P3 comparators
    want = {'__gt__': 'SELF_f < OTHER_f', '__lt__': 'OTHER_f < SELF_f'}
    for name, wtxt in want.items():
        fn0 = caps.methods[name]
        fq = f'Capacities.{name}'
        ok = False
        got = None
        try:
            g, viol, node, env = fw.forall_form(prog, caps, fn0)
            got = fw.norm_expr(viol, g, env)
            ok = g.owner == 'self' and got == wtxt
        except fw.NotFieldwise as e:
            got = f'not field-wise: {e}'
        rep.instance('P3', f'{fq}: False iff some field has {got}')
        if not ok:
            rep.violation('P3', loc(mod, fn0), fq, 'comparator shape',
                          f'{fq} must return False iff some field of self is {"<" if name == "__gt__" else ">"} the same '
                          f'field of other (and True otherwise); the two comparisons must mirror each other')

    # P4
    nf = caps.methods['negative_fields']
    good = False
    try:
        g, elt, conds, node, env = fw.collect_form(prog, caps, nf)
        rep.instance('P4', f'Capacities.negative_fields: collects {elt} of {g.owner} where {conds}')
        good = g.owner == 'self' and elt == g.fvar and conds == ['SELF_f < 0']
    except fw.NotFieldwise as e:
        rep.instance('P4', f'Capacities.negative_fields: {e}')
    if not good:
        rep.violation('P4', loc(mod, nf), 'Capacities.negative_fields', 'threshold / collected name',
                      'negative_fields must collect exactly the names of the fields whose value is < 0 (over all fields of the value itself)')
    pf = caps.methods['positive_fields']
    good = False
    try:
        g, viol, node, env = fw.forall_form(prog, caps, pf)
        g2 = fw.FieldGen('self', g.fvar, None, g.node)
        got = fw.norm_expr(viol, g2, env)
        rep.instance('P4', f'Capacities.positive_fields: False iff some requested field has {got}')
        good = got == 'SELF_f <= 0'
    except fw.NotFieldwise as e:
        rep.instance('P4', f'Capacities.positive_fields: {e}')
    if not good:
        rep.violation('P4', loc(mod, pf), 'Capacities.positive_fields', 'threshold',
                      'positive_fields must return False when a requested field is <= 0')

    # P5 equality
    eq = caps.methods['__eq__']
    good = False
    try:
        g, viol, node, env = fw.forall_form(prog, caps, eq)
        got = fw.norm_expr(viol, g, env)
        rep.instance('P5', f'Capacities.__eq__: False iff some field has {got}')
        good = g.owner == 'self' and got in ('SELF_f != dflt(OTHER_f, 0)', 'dflt(OTHER_f, 0) != SELF_f', 'OTHER_f != SELF_f', 'SELF_f != OTHER_f')
    except fw.NotFieldwise as e:
        rep.instance('P5', f'Capacities.__eq__: {e}')
    if not good:
        rep.violation('P5', loc(mod, eq), 'Capacities.__eq__', 'not field-wise',
                      '__eq__ must return False iff some field differs and True otherwise')
    # truthiness shortcut: `if not other` is only sound while no Capacities value is falsy
    uses_truth = any(isinstance(n, ast.UnaryOp) and isinstance(n.op, ast.Not) and ast.unparse(n.operand) == 'other'
                     for n in ast.walk(eq)) or any(isinstance(n, ast.If) and ast.unparse(n.test) == 'other' for n in ast.walk(eq))
    if uses_truth:
        for c in caps.mro():
            for special in ('__bool__', '__len__'):
                if special in c.methods:
                    rep.violation('P5', loc(c.module, c.methods[special]), f'{c.name}.{special}',
                                  f'{special} defined while __eq__ tests `not other`',
                                  f'Capacities.__eq__ treats a falsy `other` as "not equal"; {c.name}.{special} makes some '
                                  f'Capacities values (e.g. all-zero) falsy, so x == x is False for them')

    # P6
    fi = free.methods.get('__init__')
    ftxt = ast.unparse(fi)
    rep.instance('P6', f'FreeCapacity.__init__: {[norm(n) for n in fi.body if isinstance(n, ast.Assign)]}')
    assigns = {ast.unparse(n.targets[0]): n.value for n in ast.walk(fi) if isinstance(n, ast.Assign)}
    # what is stored as self.free, by cases on the allocation argument (an if statement that replaces a missing allocation, or a
    # conditional expression inside the subtraction, are the same thing)
    def free_sink(st):
        if isinstance(st, ast.Assign) and any(ast.unparse(t) == 'self.free' for t in st.targets):
            return st.value
        return None
    try:
        fouts = branch_values(fi.body, free_sink)
    except Unknown as u:
        raise AnalysisError(f'FreeCapacity.__init__ not analysable: {u}')
    cases = set()
    for o in fouts:
        variants = [(list(o.conds), o.value)]
        changed_ = True
        while changed_:
            changed_ = False
            nxt = []
            for cs_, v_ in variants:
                ie = next((x for x in ast.walk(v_) if isinstance(x, ast.IfExp)), None)
                if ie is None:
                    nxt.append((cs_, v_))
                    continue
                changed_ = True
                nxt.append((cs_ + [ctext(ie.test)], _replace_node(v_, ie, ie.body) if v_ is not ie else ie.body))
                nxt.append((cs_ + [ctext(negate(canon(ie.test)))], _replace_node(v_, ie, ie.orelse) if v_ is not ie else ie.orelse))
            variants = nxt
        for cs_, v_ in variants:
            key = 'none' if 'allocated is None' in cs_ else ('given' if 'allocated is not None' in cs_ else 'any')
            cases.add((key, ctext(v_)))
    rep.instance('P6', f'FreeCapacity.__init__: self.free by cases {sorted(cases)}')
    good_cases = ({('none', 'total - Capacities()'), ('given', 'total - allocated')}, {('any', 'total - allocated')})
    sub_ok = cases in good_cases
    none_case_ok = ('none', 'total - Capacities()') in cases
    if not sub_ok and not (cases and all(v_ in ('total - allocated', 'total - Capacities()') for _, v_ in cases)):
        rep.violation('P6', loc(free.module, fi), 'FreeCapacity.__init__', 'free is not total - allocated',
                      'FreeCapacity must compute free = total - allocated')
    # the difference is kept as computed: nothing rewrites self.free (or its fields) afterwards
    for n in walk_no_nested(fi):
        tgt = None
        if isinstance(n, (ast.Assign, ast.AugAssign)):
            for t in (n.targets if isinstance(n, ast.Assign) else [n.target]):
                tt = ast.unparse(t)
                if tt.startswith('self.free.') or tt.startswith('self.free['):
                    tgt = tt
        if isinstance(n, ast.Call) and isinstance(n.func, ast.Attribute) and ast.unparse(n.func.value).startswith('self.free') and \
                n.func.attr in MUTATING | {'_set_fields', 'set_fields', '__setattr__'}:
            tgt = ast.unparse(n.func)
        if isinstance(n, ast.Call) and isinstance(n.func, ast.Name) and n.func.id == 'setattr' and n.args and ast.unparse(n.args[0]).startswith('self.free'):
            tgt = 'setattr(self.free, ...)'
        if tgt:
            rep.violation('P6', loc(free.module, n), 'FreeCapacity.__init__', f'free capacity rewritten after the subtraction: {norm(n, 70)}',
                          'the free capacity must stay total - allocated field by field (negative where over-allocated); rewriting fields '
                          'afterwards (e.g. clamping at zero) breaks free + allocated = total and hides over-allocation from negative_fields()')
    nfree = [n for n in walk_no_nested(fi) if isinstance(n, ast.Assign) and any(ast.unparse(t) == 'self.free' for t in n.targets)]
    if len(nfree) != 1:
        rep.violation('P6', loc(free.module, fi), 'FreeCapacity.__init__', f'self.free assigned {len(nfree)} times', 'free must be computed once as total - allocated')
    if ast.unparse(assigns.get('self.total', ast.Constant(None))) != 'total':
        rep.violation('P6', loc(free.module, fi), 'FreeCapacity.__init__', 'total not kept', 'FreeCapacity must keep total')
    if not none_case_ok:
        rep.violation('P6', loc(free.module, fi), 'FreeCapacity.__init__', 'None allocation not mapped to zero',
                      'a missing allocation must be treated as all-zero')

    # P7 printing
    for cls, name in ((caps, '__str__'), (free, '__str__')):
        fn = cls.methods.get(name)
        bad = [n for n in walk_no_nested(fn) if isinstance(n, (ast.Assert, ast.Raise))]
        rep.instance('P7', f'{cls.name}.{name}: no assert/raise')
        for b in bad:
            rep.violation('P7', loc(cls.module, b), f'{cls.name}.{name}', norm(b),
                          'printing a capacity must not reject a value (negative fields must be printable)')

    # P8
    sf = caps.methods['_set_fields']
    atxt = ' ; '.join(ast.unparse(a.test) for a in ast.walk(sf) if isinstance(a, ast.Assert))
    rep.instance('P8', f'Capacities._set_fields asserts: {atxt}')
    vvars = {l.target.elts[1].id for l in ast.walk(sf) if isinstance(l, ast.For) and isinstance(l.target, ast.Tuple) and len(l.target.elts) == 2 and
             isinstance(l.target.elts[1], ast.Name) and isinstance(l.iter, ast.Call) and call_name(l.iter) == 'items' and
             isinstance(l.iter.func.value, ast.Name) and sf.args.kwarg is not None and l.iter.func.value.id == sf.args.kwarg.arg}
    stored = {c.args[-1].id for c in ast.walk(sf) if isinstance(c, ast.Call) and call_name(c) in ('__setattr__', 'setattr') and c.args and
              isinstance(c.args[-1], ast.Name)}
    int_asserted = {x.args[0].id for a in ast.walk(sf) if isinstance(a, ast.Assert) for x in ast.walk(a.test)
                    if isinstance(x, ast.Call) and isinstance(x.func, ast.Name) and x.func.id == 'isinstance' and len(x.args) == 2 and
                    isinstance(x.args[0], ast.Name) and ast.unparse(x.args[1]) == 'int'}
    if not (vvars & stored & int_asserted):
        rep.violation('P8', loc(mod, sf), 'Capacities._set_fields', 'int assertion missing',
                      'the point-wise lemma assumes int fields; _set_fields no longer asserts it')


CL = 'fim/slivers/capacities_labels.py'
MUTANTS = [
    {'name': 'sub-becomes-add', 'file': CL, 'rule': 'P1',
     'find': 'ret.__dict__[f] = self.__dict__[f] - other.__dict__[f]', 'replace': 'ret.__dict__[f] = self.__dict__[f] + other.__dict__[f]'},
    {'name': 'sub-operands-swapped', 'file': CL, 'rule': 'P1',
     'find': 'ret.__dict__[f] = self.__dict__[f] - other.__dict__[f]', 'replace': 'ret.__dict__[f] = other.__dict__[f] - self.__dict__[f]'},
    {'name': 'add-accumulates-into-self', 'file': CL, 'rule': 'P1',
     'find': '        ret = Capacities()\n        for f, v in self.__dict__.items():\n            ret.__dict__[f] = self.__dict__[f] + other.__dict__[f]\n\n        return ret',
     'replace': '        for f, v in self.__dict__.items():\n            self.__dict__[f] = self.__dict__[f] + other.__dict__[f]\n\n        return self'},
    {'name': 'gt-comparator-flipped', 'file': CL, 'rule': 'P3',
     'find': '            if v < other.__dict__[f]:\n                return False', 'replace': '            if v <= other.__dict__[f]:\n                return False'},
    {'name': 'negative-fields-threshold', 'file': CL, 'rule': 'P4',
     'find': '            if v < 0:\n                ret.append(f)', 'replace': '            if v <= 0:\n                ret.append(f)'},
    {'name': 'sub-through-validating-constructor', 'file': CL, 'rule': 'P7',
     'find': '        for f, v in self.__dict__.items():\n            ret.__dict__[f] = self.__dict__[f] - other.__dict__[f]\n',
     'replace': '        for f, v in self.__dict__.items():\n            ret.__dict__[f] = self.__dict__[f] - other.__dict__[f]\n        ret._set_fields(**ret.__dict__)\n'},
    {'name': 'free-is-total-plus-allocated', 'file': CL, 'rule': 'P6',
     'find': 'self.free = total - allocated', 'replace': 'self.free = allocated - total'},
    {'name': 'tojson-drops-from-live-dict', 'file': CL, 'rule': 'P2', 'count': 1,
     'find': '        d = self.__dict__.copy()\n        for k in self.__dict__:\n            if d[k] is None or d[k] == 0:\n                d.pop(k)\n        if len(d) == 0:\n            return \'\'\n        return json.dumps(d, skipkeys=True, sort_keys=True)',
     'replace': '        d = self.__dict__\n        for k in list(self.__dict__):\n            if d[k] is None or d[k] == 0:\n                d.pop(k)\n        if len(d) == 0:\n            return \'\'\n        return json.dumps(d, skipkeys=True, sort_keys=True)'},
]
TWINS = [
    {'name': 'add-uses-loop-value', 'file': CL,
     'find': 'ret.__dict__[f] = self.__dict__[f] + other.__dict__[f]', 'replace': 'ret.__dict__[f] = v + other.__dict__[f]'},
    {'name': 'lt-mirrored-operands', 'file': CL,
     'find': '            if v > other.__dict__[f]:\n                return False', 'replace': '            if other.__dict__[f] < v:\n                return False'},
]
