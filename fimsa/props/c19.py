"""
C19 -- persistent-backend statements are well-formed and data-independent.

For every `session.run(...)` site of the Neo4j backend the statement template is rebuilt per path by symbolic
evaluation of the string-building code (fimsa.strinterp); the two JSON files whose values are handed to the
driver are analysed as constant templates.
R1 well-formed (balanced, no unexpanded template fragment)      R2 every referenced variable bound
R3 every $parameter named in the text is supplied as keyword     R4 no data-derived hole in the text
"""
import ast

from ..normalize import resolve_helper
import re

from ..core import AnalysisError, norm, loc, walk_no_nested, call_name
from ..strinterp import Interp, S, Marker, Atom, Opaque
from ..cypher import check_statement

MODULES = ['fim.graph.neo4j_property_graph', 'fim.graph.resources.neo4j_cbm', 'fim.graph.slices.neo4j_asm',
           'fim.graph.resources.neo4j_arm', 'fim.graph.resources.neo4j_adm']

# Frozen origin classification (confirmed against the docstrings of the abstract interface).
IDENT_PARAMS = {'label', 'node_label', 'node1_label', 'node2_label', 'rel', 'rel1', 'rel2', 'kind', 'prop_name'}
DATA_PARAMS = {'prop_val', 'node_id', 'node_a', 'node_b', 'node_z', 'name', 'node_name', 'ntype', 'cut_off',
               'graph_id', 'other_graph', 'hops', 'graph_string', 'graph_file', 'props', 'comps', 'adm', 'adm_id',
               'delegation_type', 'format', 'merge_properties', 'validate_json', 'rules_file', 'graphml_file',
               'graph', 'kwargs', 'importer', 'logger', 'url', 'user', 'pswd', 'import_host_dir', 'import_dir'}
IDENT_ORIGINS = {
    'key-of:param:props': 'property names of a bulk update (identifiers by the interface contract)',
    'key-of:param:merge_properties': 'property names / patterns of the merge policy',
    'value-of:param:merge_properties': "merge policy keywords ('discard', 'overwrite', 'combine')",
}
# holes computed by the code itself, not caller data
COMPUTED_OK = [
    (re.compile(r'^value-of:local:defaultdict$'), 'component count computed by the method (int)'),
    (re.compile(r'^computed:int$'), 'integer computed by the method'),
    (re.compile(r'^key-of:local:defaultdict\[0\]$'), 'str(ComponentType) - an enum name'),
    (re.compile(r'^elem-of:param:comps\.list_devices\(\)\.resource_type$'), 'str(ComponentType) - an enum name'),
]
DATA_ORIGIN_PATTERNS = [
    (re.compile(r'^attr:self\.graph_id$'), 'the graph id'),
    (re.compile(r'^value-of:param:props$'), 'a stored property value'),
    (re.compile(r'^key-of:local:defaultdict\[1\]$'), 'a component model string'),
    (re.compile(r'^elem-of:param:comps\.list_devices\(\)\.resource_model$'), 'a component model string'),
    (re.compile(r'^param:other_graph\.graph_id$'), 'the other graph id'),
]


def classify(origin):
    """'ident' | 'data' | 'computed' | None (unknown)."""
    if origin.startswith('param:'):
        p = origin[len('param:'):]
        base = re.split(r'[.\[]', p)[0]
        if p in IDENT_PARAMS:
            return 'ident', f'parameter {p} (identifier by the interface contract)'
        if base in DATA_PARAMS:
            return 'data', f'parameter {p}'
        return None, f'parameter {p}'
    if origin in IDENT_ORIGINS:
        return 'ident', IDENT_ORIGINS[origin]
    for rx, why in COMPUTED_OK:
        if rx.match(origin):
            return 'computed', why
    for rx, why in DATA_ORIGIN_PATTERNS:
        if rx.match(origin):
            return 'data', why
    if origin.startswith('call:') or origin.startswith('joined:') or origin.startswith('elem-of:') or \
            origin.startswith('value-of:') or origin.startswith('key-of:') or origin.startswith('attr:self.') \
            or origin.startswith('opaque:') or origin.startswith('global:'):
        # derived value: data if it mentions any data origin, identifier only if everything inside is identifier
        inner = re.findall(r'param:\*{0,2}[A-Za-z_][A-Za-z0-9_]*|attr:self\.[A-Za-z_]+', origin)
        kinds = set()
        for o in inner:
            if o.startswith('attr:self.'):
                kinds.add('data')
            else:
                k, _ = classify(o.replace('**', ''))
                kinds.add(k)
        if 'data' in kinds or None in kinds:
            return 'data', f'value derived from {", ".join(inner) or origin}'
        if kinds == {'ident'}:
            return 'ident', f'value derived from {", ".join(inner)}'
        if origin.startswith('attr:self.'):
            return 'data', f'attribute {origin[5:]}'
        return None, origin
    return None, origin


def session_names(fn):
    """Locals bound to a driver session: ``with <x>.session() as NAME`` or ``NAME = <x>.session()``."""
    names = set()
    for n in walk_no_nested(fn):
        if isinstance(n, (ast.With, ast.AsyncWith)):
            for it in n.items:
                if isinstance(it.optional_vars, ast.Name) and isinstance(it.context_expr, ast.Call) and call_name(it.context_expr) == 'session':
                    names.add(it.optional_vars.id)
        elif isinstance(n, ast.Assign) and isinstance(n.value, ast.Call) and call_name(n.value) == 'session':
            names.update(t.id for t in n.targets if isinstance(t, ast.Name))
    return names


_INVARIANT_CACHE = {}


def invariant_of_test(prog, rep, fn, test):
    """Facts an invariant established elsewhere fixes; one entry, confirmed by reading and re-checked on every run:

    get_matching_nodes_with_components: ``<device>.resource_type`` is never None. The devices come from an
    AttachedComponentsInfo, and AttachedComponentsInfo.add_device asserts ``resource_type is not None`` before it stores a
    device; so the branch "the component has no type" (which, together with "no model", would leave the component map of
    the statement without any entry) is dead. If that assertion disappears the assumption is withdrawn.
    Called by the template builder with an attribute expression: True = the value is never None."""
    if fn.name != 'get_matching_nodes_with_components':
        return None
    if not (isinstance(test, ast.Attribute) and test.attr == 'resource_type'):
        return None
    if 'aci' not in _INVARIANT_CACHE or _INVARIANT_CACHE['aci'][0] is not prog:
        ok = False
        try:
            aci = prog.cls('fim.slivers.attached_components:AttachedComponentsInfo')
            ad = aci.methods.get('add_device')
            par = [a.arg for a in ad.args.args if a.arg != 'self'][0]
            ok = any(isinstance(a, ast.Assert) and ast.unparse(a.test) == f'{par}.resource_type is not None' for a in ast.walk(ad))
        except Exception:
            ok = False
        _INVARIANT_CACHE['aci'] = (prog, ok)
        rep.note(f'assumption used for get_matching_nodes_with_components: device types are never None '
                 f'(AttachedComponentsInfo.add_device asserts it: {ok})')
    return True if _INVARIANT_CACHE['aci'][1] else None


def callers_of(cls, fn):
    """(class, method) pairs of the class (and of the classes that inherit the helper) that call self.<fn>(...)"""
    out = []
    classes = [cls] + cls.prog.subclasses(cls, strict=True)
    for c in classes:
        for meth in c.methods.values():
            if meth is fn:
                continue
            for n in ast.walk(meth):
                if isinstance(n, ast.Call) and isinstance(n.func, ast.Attribute) and n.func.attr == fn.name and \
                        isinstance(n.func.value, ast.Name) and n.func.value.id in ('self', 'cls'):
                    out.append((c, meth))
                    break
    return out


def find_run_calls(fn):
    out = []
    sess = session_names(fn)
    for n in walk_no_nested(fn):
        if isinstance(n, ast.Call) and isinstance(n.func, ast.Attribute) and n.func.attr == 'run' \
                and isinstance(n.func.value, ast.Name) and n.func.value.id in sess:
            out.append(n)
    return out


def json_path_constants(node):
    """names of .json files mentioned through os.path.join(..., '<x>.json') inside node."""
    out = []
    for n in ast.walk(node):
        if isinstance(n, ast.Call) and ast.unparse(n.func) == 'os.path.join':
            for a in n.args:
                if isinstance(a, ast.Constant) and isinstance(a.value, str) and a.value.endswith('.json'):
                    parts = [x.value for x in n.args if isinstance(x, ast.Constant) and isinstance(x.value, str)]
                    out.append('/'.join(parts))
    return out


# how many entries of a caller-supplied dictionary are unrolled when a statement is built from it (quick: none and two -
# two shows every separator; thorough adds one and three)
UNROLL = (0, 2)


def thorough(prog, rep):
    """The same checks with the dictionary parameters unrolled to 0, 1, 2 and 3 entries (every statement the builders can
    emit for up to three properties / ids), so that separators and trailing-separator trimming are seen for each length."""
    global UNROLL
    UNROLL = (0, 1, 2, 3)
    try:
        run(prog, rep)
    finally:
        UNROLL = (0, 2)
    rep.extra['thorough_unroll'] = [0, 1, 2, 3]


def run(prog, rep):
    rep.extra['explanation'] = (
        'Every statement template that can reach the Neo4j driver is reconstructed statically: for each '
        'session.run(...) site the string-building code is evaluated symbolically along every path (dict parameters '
        'unrolled 0 and 2 times), holes keep the origin of the run-time value; the JSON files whose values are run '
        'are read as constant templates. Each template is tokenised with a hand tokenizer for the Cypher subset FIM '
        'uses and checked for R1 balance / unexpanded fragments, R2 bound variables, R3 supplied $parameters, '
        'R4 absence of data-derived holes. The property is decided whole for the statements the library can emit.')
    rep.assume('Cypher semantics needed: brackets and quotes balance outside string literals; `{{`/`}}` and `{name}` '
               'never occur in valid statements of this subset; a variable must be introduced by a pattern, AS, YIELD, '
               'UNWIND or a comprehension; $name must be supplied to run()')
    rep.rule('R1', 'statement template is balanced and contains no unexpanded template fragment', floor=44)
    rep.rule('R2', 'every variable referenced in the statement is bound', floor=44)
    rep.rule('R3', 'every $parameter named in the text is supplied as a keyword to run()', floor=44)
    rep.rule('R4', 'no hole of the template is derived from stored data / ids (only identifiers may be interpolated)',
             floor=44)
    rep.rule('SITES', 'session.run call sites found in the Neo4j backend', floor=44)

    nsites = 0
    json_sites = []
    param_sites = []

    def class_const_of(cls):
        """self.NAME / cls.NAME reads that are fixed by a class-level assignment (never re-bound on the instance)"""
        if cls is None:
            return None
        def look(attr, _cls=cls):
            for c in [_cls] + [x for x in _cls.mro() if x is not _cls]:
                if attr in c.assigns:
                    for k in [_cls] + list(_cls.mro()):
                        for meth in k.methods.values():
                            for n in ast.walk(meth):
                                if isinstance(n, ast.Attribute) and n.attr == attr and isinstance(n.ctx, (ast.Store, ast.Del)):
                                    return None
                    return c.assigns[attr]
            return None
        return look
    for modname in MODULES:
        mod = prog.module(modname)
        for m, cls, fn in prog.all_functions():
            if m is not mod:
                continue
            calls = find_run_calls(fn)
            if not calls:
                continue
            fq = (cls.name + '.' if cls else '') + fn.name
            def resolver(call, _cls=cls, _mod=m):
                r = resolve_helper(prog, _cls, _mod, call)
                if r is None:
                    return None
                h, owner, skip = r
                if find_run_calls(h) or any(isinstance(x, (ast.Yield, ast.YieldFrom)) for x in ast.walk(h)):
                    return None         # helpers that talk to the driver are analysed as functions of their own
                return h, skip

            def module_const(name, _mod=m):
                return _mod.assigns.get(name)
            interp = Interp(fn, resolver=resolver, module_const=module_const, unroll=UNROLL, max_paths=(512 if len(UNROLL) <= 2 else 60000),
                            assume=(lambda t_, _fn=fn: invariant_of_test(prog, rep, _fn, t_)),
                            class_const=class_const_of(cls))
            try:
                sites = interp.run()
            except AnalysisError as e:
                raise AnalysisError(f'{mod.relpath}:{fn.lineno} {fq}: {e}')
            by_call = {}
            for s in sites:
                by_call.setdefault(id(s.call), []).append(s)
            for call in calls:
                nsites += 1
                rep.instance('SITES', f'{fq}: {norm(call, 100)}')
                ss = by_call.get(id(call), [])
                if not ss:
                    raise AnalysisError(f'{loc(mod, call)} {fq}: session.run site not reached by the template builder')
                seen_render = set()
                for s in ss:
                    q = s.query
                    if isinstance(q, Atom) and q.origin.startswith('param:') and cls is not None and \
                            q.origin[6:] in [a.arg for a in fn.args.posonlyargs + fn.args.args + fn.args.kwonlyargs] and \
                            callers_of(cls, fn):
                        # the statement is handed to this helper by its callers: analysed once per caller below
                        param_sites.append((mod, cls, fn, fq, call))
                        break
                    if isinstance(q, (Atom, Opaque)) and not isinstance(q, S):
                        # statement comes from a data file (rules / index commands)
                        json_sites.append((mod, cls, fn, fq, call, s))
                        break
                    if not isinstance(q, S):
                        raise AnalysisError(f'{loc(mod, call)} {fq}: statement argument of run() is not a string '
                                            f'template ({type(q).__name__})')
                    key = q.render()
                    if key in seen_render:
                        continue
                    seen_render.add(key)
                    check_template(rep, mod, fq, call, q, s.kwargs, bool(s.star_kwargs))

    # statements handed to a driver-calling helper as an argument: the caller is evaluated with the helper inlined
    for mod, cls, fn, fq, call in param_sites:
        for ocls, caller in callers_of(cls, fn):
            cfq = f'{ocls.name}.{caller.name}'
            rep.instance('SITES', f'{cfq} -> {fq}: {norm(call, 100)}')
            def resolver2(c, _cls=ocls, _mod=ocls.module, _fn=fn):
                r = resolve_helper(prog, _cls, _mod, c)
                if r is None:
                    return None
                h, owner, skip = r
                if h is _fn:
                    return h, skip
                if find_run_calls(h) or any(isinstance(x, (ast.Yield, ast.YieldFrom)) for x in ast.walk(h)):
                    return None
                return h, skip
            interp = Interp(caller, resolver=resolver2, module_const=(lambda name, _m=ocls.module: _m.assigns.get(name)),
                            unroll=UNROLL, max_paths=(512 if len(UNROLL) <= 2 else 60000),
                            assume=(lambda t_, _fn=caller: invariant_of_test(prog, rep, _fn, t_)),
                            class_const=class_const_of(ocls))
            try:
                sites = interp.run()
            except AnalysisError as e:
                raise AnalysisError(f'{ocls.module.relpath}:{caller.lineno} {cfq}: {e}')
            ss = [s for s in sites if s.call is call]
            if not ss:
                raise AnalysisError(f'{loc(mod, call)} {fq}: session.run site not reached from caller {cfq}')
            seen_render = set()
            for s in ss:
                q = s.query
                if not isinstance(q, S):
                    raise AnalysisError(f'{loc(mod, call)} {fq}: statement handed in by {cfq} is not a string template '
                                        f'({type(q).__name__} {q!r})')
                key = q.render()
                if key in seen_render:
                    continue
                seen_render.add(key)
                check_template(rep, mod, f'{cfq} -> {fq}', call, q, s.kwargs, bool(s.star_kwargs))

    # statements read from JSON data files
    handled = set()
    for mod, cls, fn, fq, call, s in json_sites:
        files = json_path_constants(fn)
        if not files and cls is not None:
            # path passed in by a caller in the same class
            for other in cls.methods.values():
                for c in ast.walk(other):
                    if isinstance(c, ast.Call) and isinstance(c.func, ast.Attribute) and c.func.attr == fn.name:
                        files += json_path_constants(c)
        if not files:
            raise AnalysisError(f'{loc(mod, call)} {fq}: cannot determine which data file the statement comes from')
        for f in files:
            rel = 'fim/graph/' + f if not f.startswith('fim/') else f
            data = prog.data_file(rel)
            stmts = []
            if isinstance(data, list):
                for i, r in enumerate(data):
                    if isinstance(r, dict) and 'rule' in r:
                        stmts.append((f'{rel}[{i}].rule', r['rule']))
            elif isinstance(data, dict):
                for k, v in data.items():
                    if isinstance(v, str):
                        stmts.append((f'{rel}[{k!r}]', v))
            if not stmts:
                raise AnalysisError(f'{rel}: no statements found')
            for name, text in stmts:
                if (name, fq) in handled:
                    continue
                handled.add((name, fq))
                check_template(rep, mod, fq, call, S.lit(text), s.kwargs, bool(s.star_kwargs), label=name)
    rep.extra['run_sites'] = nsites


def check_template(rep, mod, fq, call, q, kwargs, has_star, label=None):
    holes = {}
    counter = [0]

    def render(m):
        kind, why = classify(m.origin)
        holes.setdefault(m.origin, (kind, why))
        counter[0] += 1
        if kind in ('ident',):
            return f'ID{counter[0]}'
        if kind == 'computed':
            return '1'
        return f'DATA{counter[0]}'
    text = q.render(render)
    pretty = q.render(lambda m: '⟦' + m.origin + '⟧')
    construct = label or norm(call, 90)
    res = check_statement(text)
    where = loc(mod, call)
    rep.instance('R1', f'{fq}: {pretty[:140]}', detail={'tokens': res['tokens']})
    rep.instance('R2', f'{fq}: bound={sorted(res["bound"])} used={sorted(res["used"])} :: {pretty[:60]}')
    rep.instance('R3', f'{fq}: params={sorted(res["params"])} supplied={sorted(kwargs)} :: {pretty[:60]}')
    rep.instance('R4', f'{fq}: holes={sorted(holes)} :: {pretty[:60]}')
    for rule, msg in res['problems']:
        rep.violation(rule, where, fq, (label + ': ' if label else '') + _short(msg), msg,
                      witness={'statement': pretty[:400]})
    missing = res['params'] - set(kwargs)
    if missing and not has_star:
        for p in sorted(missing):
            rep.violation('R3', where, fq, (label + ': ' if label else '') + f'${p} not supplied',
                          f'the statement names parameter ${p} but run() is not given it (supplied: '
                          f'{sorted(kwargs)})', witness={'statement': pretty[:400]})
    for origin, (kind, why) in sorted(holes.items()):
        if kind is None:
            raise AnalysisError(f'{where} {fq}: hole of unknown origin {origin} in statement {pretty[:200]} - '
                                f'the origin table has no entry for it')
        if kind == 'data':
            rep.violation('R4', where, fq, f'data hole {origin}',
                          f'{why} is interpolated into the statement text instead of being passed as a parameter: any '
                          f'quote, backslash or brace in it changes the statement', witness={'statement': pretty[:400]})


def _short(msg):
    m = re.sub(r' at offset \d+', '', msg)
    m = re.sub(r'[:;] \.\.\..*$', '', m)
    m = re.sub(r": '.*$", '', m)
    return m[:120]


NPG = 'fim/graph/neo4j_property_graph.py'
MUTANTS = [
    {'name': 'node_exists-unbalanced-paren', 'file': NPG, 'rule': 'R1',
     'find': 'NodeID: $nodeId}}) RETURN collect(n.NodeID) as nodeids"\n        with self.driver.session() as session:\n            val = session.run(query, graphId=self.graph_id, nodeId=node_id).single()\n            if val is None or len(val.data()) == 0 or',
     'replace': 'NodeID: $nodeId}} RETURN collect(n.NodeID) as nodeids"\n        with self.driver.session() as session:\n            val = session.run(query, graphId=self.graph_id, nodeId=node_id).single()\n            if val is None or len(val.data()) == 0 or'},
    {'name': 'update_link_properties-f-prefix-dropped', 'file': NPG, 'rule': 'R1',
     'find': 'query = f"MATCH (a:GraphNode {{GraphID: $graphId, NodeID: $nodeA}}) -[r:{kind}]- " \\\n            f"(b:GraphNode {{GraphID: $graphId, NodeID:$nodeB}}) SET r+= {{ {all_props} }}',
     'replace': 'query = "MATCH (a:GraphNode {{GraphID: $graphId, NodeID: $nodeA}}) -[r:{kind}]- " \\\n            f"(b:GraphNode {{GraphID: $graphId, NodeID:$nodeB}}) SET r+= {{ {all_props} }}'},
    {'name': 'update_link_properties-unbound-return-var', 'file': NPG, 'rule': 'R2',
     'find': 'SET r+= {{ {all_props} }} RETURN properties(r)"', 'replace': 'SET r+= {{ {all_props} }} RETURN properties(s)"'},
    {'name': 'get_node_properties-param-renamed-in-call-only', 'file': NPG, 'rule': 'R3',
     'find': 'val = session.run(query, graphId=self.graph_id, nodeId=node_id).single()\n            if val is None:\n                raise PropertyGraphQueryException(graph_id=self.graph_id,\n                                                  node_id=node_id, msg="Unable to find node")',
     'replace': 'val = session.run(query, graphId=self.graph_id, node_id=node_id).single()\n            if val is None:\n                raise PropertyGraphQueryException(graph_id=self.graph_id,\n                                                  node_id=node_id, msg="Unable to find node")'},
    {'name': 'update_node_property-value-interpolated', 'file': NPG, 'rule': 'R4',
     'find': 'f"SET s+={{ {prop_name}: $propVal}} RETURN properties(s)"\n        with self.driver.session() as session:\n            val = session.run(query, graphId=self.graph_id, nodeId=node_id, propVal=prop_val)',
     'replace': 'f"SET s+={{ {prop_name}: \'{prop_val}\'}} RETURN properties(s)"\n        with self.driver.session() as session:\n            val = session.run(query, graphId=self.graph_id, nodeId=node_id)'},
    {'name': 'check_node_unique-name-interpolated', 'file': NPG, 'rule': 'R4',
     'find': '{{GraphID: $graphId, Name: $name}}) RETURN collect(n.NodeID) as nodeids"',
     'replace': '{{GraphID: $graphId, Name: \\"{name}\\"}}) RETURN collect(n.NodeID) as nodeids"'},
    {'name': 'get_first_neighbor-return-var-renamed', 'file': NPG, 'rule': 'R2',
     'find': '(b:GraphNode:{node_label} {{ GraphID: $graphId}}) return b.NodeID"',
     'replace': '(b:GraphNode:{node_label} {{ GraphID: $graphId}}) return c.NodeID"'},
    {'name': 'rules-json-unbound-var', 'file': 'fim/graph/data/graph_validation_rules.json', 'rule': 'R2',
     'find': 'WHERE o.Class <> \\"ConnectionPoint\\" return count(o)=0', 'replace': 'WHERE o.Class <> \\"ConnectionPoint\\" return count(x)=0'},
    {'name': 'get_link_properties-comma-lost-in-map', 'file': NPG, 'rule': 'R1',
     'find': 'query = f"MATCH (a:GraphNode {{GraphID:$graphId, NodeID:$nodeA}}) -[r]- " \\\n            f"(b:GraphNode {{GraphID:$graphId, NodeID:$nodeB}}) RETURN type(r), properties(r)"',
     'replace': 'query = f"MATCH (a:GraphNode {{GraphID:$graphId NodeID:$nodeA}}) -[r]- " \\\n            f"(b:GraphNode {{GraphID:$graphId, NodeID:$nodeB}}) RETURN type(r), properties(r)"'},
    {'name': 'delete_graph-bracket-dropped', 'file': NPG, 'rule': 'R1', 'count': 2,
     'find': "'match (n:GraphNode {GraphID: $graphId })detach delete n'", 'replace': "'match (n:GraphNode {GraphID: $graphId )detach delete n'"},
]
TWINS = [
    {'name': 'query-through-extra-local', 'file': NPG,
     'find': 'query = "MATCH (n:GraphNode {GraphID: $graphId}) RETURN collect(n.NodeID) as nodeids"\n',
     'replace': 'q0 = "MATCH (n:GraphNode {GraphID: $graphId}) "\n        query = q0 + "RETURN collect(n.NodeID) as nodeids"\n'},
    {'name': 'kwargs-reordered', 'file': NPG,
     'find': 'val = session.run(query, graphId=self.graph_id, nodeA=node_a, nodeB=node_b, propVal=prop_val)',
     'replace': 'val = session.run(query, propVal=prop_val, nodeB=node_b, nodeA=node_a, graphId=self.graph_id)'},
    {'name': 'fstring-to-concatenation', 'file': NPG,
     'find': 'query = f"MATCH (n:{label} {{GraphID: $graphId}}) RETURN collect(n.NodeID) as nodeids"',
     'replace': 'query = "MATCH (n:" + label + " {GraphID: $graphId}) RETURN collect(n.NodeID) as nodeids"'},
]
