"""
C07 -- every model the topology API builds satisfies the published graph rules.

R1 vocabulary agreement: each Type / Class list of the rule file contains every enum member / class label the API can write
R2 containment schema: every reader, remover and helper traversal uses pairs of the schema defined by the writers; each
   deep reader covers all child pairs of its start class
R3 node and owner edge are created together in every add_*_sliver
R4 uniqueness: each creation path is dominated by the uniqueness test of its scope; node ids are unique whatever the class;
   every API path that renames an element tests uniqueness too
R5 views: ViewOnlyDict exposes no mutator; no handle method returns its interface cache itself
R6 cache on add: every handle method that creates a child interface under itself records it in its cache
R7 loop index discipline for derived ids
R8 connect_interface creates the service port and the link as a unit
R11 every catalogue component type with interfaces gets typed interfaces (dispatch of generate_component, shared with C18)
R10 set_type of each sliver class checks the value against the enumeration of that kind (NodeType, ComponentType ...)
R9 a new Link type-checks the elements of `interfaces` (Interface objects only) before anything is inserted
"""
import ast

from ..normalize import branch_values, Unknown, inline, local_env, expand, canon, ctext, conjuncts, eval_test, value_under, _enclosing
import re

from ..core import AnalysisError, norm, loc, walk_no_nested, attr_chain, call_name, kwarg, func_params
from ..cfg import CFG
from .. import flow
from ..schema import containment_schema
from .. import nxgraph as nxg
from . import c08

RULES = 'fim/graph/data/graph_validation_rules.json'
APG = 'fim.graph.abc_property_graph:ABCPropertyGraph'
TYPE_ENUMS = {
    'NetworkNode': 'fim.slivers.network_node:NodeType', 'Component': 'fim.slivers.attached_components:ComponentType',
    'ConnectionPoint': 'fim.slivers.interface_info:InterfaceType', 'NetworkService': 'fim.slivers.network_service:ServiceType',
    'Link': 'fim.slivers.network_link:LinkType',
}
DEEP_READERS = {'build_deep_node_sliver': 'NetworkNode', 'build_deep_component_sliver': 'Component',
                'build_deep_ns_sliver': 'NetworkService', 'build_deep_interface_sliver': 'ConnectionPoint'}
MUTATOR_NAMES = {'__setitem__', '__delitem__', 'pop', 'popitem', 'clear', 'update', 'setdefault', '__ior__'}


def check_name_keyed_views(prog, rep, rule, only=None):
    """A topology-wide view that is a dictionary keyed by element name lists every element only if that name is unique among
    ALL the elements it enumerates. For each ``Topology._list_*`` that fills ``ret[<element>.name]`` from a graph-wide listing of
    one class, the graph writer of that class must refuse a name already used by any element of the class - a uniqueness test
    that is made only for some of them (for instance only for services without a parent) lets two elements share a key, and
    the view - and everything that walks it: validation, the attribute collectors - silently drops one. Shared with C10, C11."""
    topo = prog.cls('fim.user.topology:Topology')
    apg = prog.cls('fim.graph.abc_property_graph:ABCPropertyGraph')
    n = 0
    for mname, fn in sorted(topo.methods.items()):
        if not mname.startswith('_list_'):
            continue
        listing = [c for c in ast.walk(fn) if isinstance(c, ast.Call) and call_name(c).startswith('get_all_') and not c.args and not c.keywords]
        keyed = [a for a in ast.walk(fn) if isinstance(a, ast.Assign) and isinstance(a.targets[0], ast.Subscript) and
                 isinstance(a.targets[0].slice, ast.Attribute) and a.targets[0].slice.attr == 'name'] + \
                [a for a in ast.walk(fn) if isinstance(a, ast.DictComp) and isinstance(a.key, ast.Attribute) and a.key.attr == 'name']
        if not listing or not keyed:
            continue
        lf = apg.find_method(call_name(listing[0]))[1]
        labels = [x.attr for x in ast.walk(lf) if isinstance(x, ast.Attribute) and x.attr.startswith('CLASS_')] if lf is not None else []
        if len(labels) != 1:
            continue
        label = labels[0]
        if only is not None and label not in only:
            continue
        writers = [w for wn, w in apg.methods.items() if wn.startswith('add_') and wn.endswith('_sliver') and
                   any(isinstance(c, ast.Call) and call_name(c) == 'add_node' and any(isinstance(x, ast.Attribute) and x.attr == label for x in ast.walk(c)) for c in ast.walk(w))]
        for w in writers:
            wi = inline(prog, apg, w)
            uniq = [c for c in ast.walk(wi) if isinstance(c, ast.Call) and call_name(c) == 'check_node_unique' and
                    any(isinstance(x, ast.Attribute) and x.attr == label for x in ast.walk(c))]
            n += 1
            restricted = None
            for u in uniq:
                # the test the call sits in, and what else that test asks for
                p_ = getattr(u, '_parent', None)
                while p_ is not None and not isinstance(p_, (ast.If, ast.Assert)):
                    p_ = getattr(p_, '_parent', None)
                others = []
                if p_ is not None:
                    _, outer = _enclosing(p_, wi)
                    for cj in conjuncts(canon(p_.test)) + [cj2 for c_ in outer if getattr(c_, '_guard', None) != 'Raise' for cj2 in conjuncts(canon(c_))]:
                        if not any(x is u for x in ast.walk(cj)) and any(isinstance(x, ast.Name) and 'parent' in x.id for x in ast.walk(cj)):
                            others.append(cj)
                restricted = others
            rep.instance(rule, f'Topology.{mname}: keyed by name over every {label[6:]}; {w.name} tests the name '
                               f'{"never" if not uniq else ("only when " + norm(restricted[0], 50)) if restricted else "for every element"}')
            if not uniq or restricted:
                rep.violation(rule, loc(apg.module, w), f'ABCPropertyGraph.{w.name}', f'name uniqueness of {label[6:]} elements tested {"never" if not uniq else "only when " + norm(restricted[0], 50)}',
                              f'Topology.{mname} returns a dictionary keyed by name over every {label[6:]} of the model, but {w.name} refuses a name that is '
                              f'taken {"never" if not uniq else "only when " + norm(restricted[0], 50)}: two elements can carry the same name (a slice-wide service named '
                              f'like the service a node or component generates, or the generated services of "aa-bb"+"cc" and "aa"+"bb-cc"), the view lists one of '
                              f'them, and validation and the attribute / log collectors, which walk the view, never see the other')
    if n == 0:
        raise AnalysisError('no name-keyed topology view recognised')


def run(prog, rep):
    rep.extra['explanation'] = (
        'The published rule file is tokenised and its vocabularies compared with the enums and class labels the writers '
        'use; the containment schema is derived from the add_*_sliver writers and every traversal in readers, removers and '
        'helpers is compared with it; creation paths are checked on their CFG for a dominating uniqueness test; the views, '
        'the interface caches and derived-id loops are checked structurally. That the invariants survive every history of '
        'calls is not decided.')
    rep.rule('R1', 'rule-file vocabularies contain every enum member / class label', floor=6)
    rep.rule('R2', 'traversals use schema pairs; deep readers cover all child pairs', floor=25)
    rep.rule('R3', 'node and owner edge created together', floor=4)
    rep.rule('R4', 'uniqueness guards dominate creation and renaming', floor=8)
    rep.rule('R5', 'views are read-only; no cache escapes', floor=8)
    rep.rule('R6', 'interface cache updated on add', floor=3)
    rep.rule('R7', 'derived-id loop index discipline', floor=2)
    rep.rule('R8', 'service port and link created as a unit', floor=1)

    schema = containment_schema(prog)
    rep.extra['schema_edges'] = sorted(f'{a} -{r}-> {b}' for a, r, b in schema.edges)
    apg = prog.cls(APG)
    amod = apg.module

    # ---- R1 ----
    rules = prog.data_file(RULES)
    if not isinstance(rules, list):
        raise AnalysisError(f'{RULES} is not a list')
    nlists = 0
    for i, r in enumerate(rules):
        txt = r.get('rule', '')
        m = re.search(r'MATCH\s*\(n:(\w+)\s*\{[^}]*\}\)\s*RETURN ALL\(r IN collect\(n\) WHERE r\.(Type|Class) IN \[(.*?)\]\)', txt)
        if not m:
            continue
        label, field, lst = m.group(1), m.group(2), m.group(3)
        vals = set(re.findall(r'"([^"]+)"', lst))
        nlists += 1
        where = f'{RULES}[{i}]'
        if field == 'Class':
            want = set(schema.label_of.values()) | {b for a, r_, b in schema.edges} | {a for a, r_, b in schema.edges}
            rep.instance('R1', f'{where}: Class list {sorted(vals)}')
            for w in sorted(want - vals):
                rep.violation('R1', where, 'graph_validation_rules.json', f'Class list lacks {w}',
                              f'the API creates nodes of class {w}, which the published rule "{r.get("msg")}" rejects')
        elif label in TYPE_ENUMS:
            members = set(prog.enum_members(TYPE_ENUMS[label]))
            rep.instance('R1', f'{where}: {label} Type list {sorted(vals)} vs {TYPE_ENUMS[label].split(":")[1]}')
            for w in sorted(members - vals):
                rep.violation('R1', where, 'graph_validation_rules.json', f'{label} Type list lacks {w}',
                              f'{TYPE_ENUMS[label].split(":")[1]}.{w} can be created through the API but the published rule '
                              f'"{r.get("msg")}" does not allow it: such a model fails the library\'s own validation')
            for w in sorted(vals - members):
                rep.note(f'{where}: {label} Type list names {w}, which is not a member of {TYPE_ENUMS[label].split(":")[1]}')
    if nlists < 6:
        raise AnalysisError(f'{RULES}: only {nlists} vocabulary rules recognised')
    # the validator loads this very file
    npg = prog.cls('fim.graph.neo4j_property_graph:Neo4jPropertyGraph')
    if 'graph_validation_rules.json' not in ast.unparse(npg.methods['validate_graph']):
        raise AnalysisError('validate_graph no longer loads graph_validation_rules.json')

    # ---- R2 ----
    nsites = 0
    for m, cls, fn in prog.all_functions():
        if not (m.name in ('fim.graph.abc_property_graph', 'fim.graph.slices.abc_asm', 'fim.user.topology', 'fim.graph.resources.abc_arm',
                           'fim.graph.resources.abc_bqm', 'fim.graph.resources.networkx_abqm', 'fim.user.composite_node',
                           'fim.user.node', 'fim.user.interface', 'fim.user.network_service', 'fim.user.component')):
            continue
        for c in walk_no_nested(fn):
            if isinstance(c, ast.Call) and call_name(c) in ('get_first_neighbor', 'get_first_and_second_neighbor', 'get_parent'):
                owner = cls if cls is not None else apg
                pairs = schema.pairs_of_call(c, apg if owner.module is not amod else owner)
                fq = (cls.name + '.' if cls else '') + fn.name
                if all(r is None and l is None for r, l in pairs):
                    continue
                nsites += 1
                rep.instance('R2', f'{fq}: {pairs}')
                for rel, label in pairs:
                    if rel is None or label is None:
                        continue
                    if not schema.has_pair(rel, label):
                        rep.violation('R2', loc(m, c), fq, f'({rel}, {label})',
                                      f'{fq} traverses ({rel}, {label}), a pair no writer ever creates: it can never find anything '
                                      f'(elements attached through the real relationship are missed)')
    for rname, start in DEEP_READERS.items():
        fn = apg.methods.get(rname)
        if fn is None:
            raise AnalysisError(f'{rname} vanished')
        got = set()
        for c in walk_no_nested(fn):
            if isinstance(c, ast.Call) and call_name(c) == 'get_first_neighbor':
                got.add(schema.pairs_of_call(c, apg)[0])
        own = schema.owned_children_of(start)
        rep.instance('R2', f'ABCPropertyGraph.{rname}: reads {sorted(got)}; owned children of {start}: {sorted(own)}')
        for pr in sorted(own - got):
            rep.violation('R2', loc(amod, fn), f'ABCPropertyGraph.{rname}', f'child pair {pr} not read',
                          f'a deep {start} sliver never contains its {pr[1]} children: views and removals that rely on it miss them')
        if not any(f'CLASS_{start}' in ast.unparse(n.test) for n in fn.body if isinstance(n, ast.If)):
            rep.violation('R2', loc(amod, fn), f'ABCPropertyGraph.{rname}', 'start class not tested', f'{rname} must verify the class of its start node')

    # removal must not orphan interfaces: the interface remover iterates everything it collects (shared with C08)
    c08.check_cp_remover(prog, rep, 'R2')

    # ---- R3 ----
    for name, fn in apg.methods.items():
        if not (name.startswith('add_') and name.endswith('_sliver')):
            continue
        fq = f'ABCPropertyGraph.{name}'
        adds = [c for c in walk_no_nested(fn) if isinstance(c, ast.Call) and call_name(c) == 'add_node']
        links = [c for c in walk_no_nested(fn) if isinstance(c, ast.Call) and call_name(c) == 'add_link']
        rep.instance('R3', f'{fq}: add_node x{len(adds)}, add_link x{len(links)}')
        if name == 'add_network_node_sliver':
            continue
        if not adds or not links or adds[0].lineno > links[0].lineno:
            rep.violation('R3', loc(amod, fn), fq, 'node created without its owner edge',
                          f'{name} must attach the new node to its parent right after creating it')
            continue
        lk = links[0]
        if name != 'add_network_link_sliver':
            a, b = kwarg(lk, 'node_a'), kwarg(lk, 'node_b')
            created = ast.unparse(kwarg(adds[0], 'node_id'))
            if a is None or b is None or ast.unparse(a) != 'parent_node_id' or ast.unparse(b) != created:
                rep.violation('R3', loc(amod, lk), fq, norm(lk, 100), 'the owner edge must join the parent and the node just created')
            p = lk
            conds = []
            while p is not fn:
                p = p._parent
                if isinstance(p, ast.If):
                    conds.append(ast.unparse(p.test))
            if any(c != 'parent_node_id is not None' for c in conds):
                rep.violation('R3', loc(amod, lk), fq, f'owner edge conditional on {conds}',
                              'the owner edge may only be skipped when there is no parent')
        else:
            loop = lk._parent._parent
            if not isinstance(loop, ast.For) or ast.unparse(loop.iter) != 'interfaces':
                rep.violation('R3', loc(amod, lk), fq, 'link not attached to every given interface', 'a Link must be joined to each interface it is given')

    # ---- R4 ----
    guards = [
        ('fim.user.topology:Topology', 'add_node', lambda c: isinstance(c.func, ast.Name) and c.func.id == 'Node', '_list_nodes'),
        ('fim.user.topology:Topology', 'add_link', lambda c: isinstance(c.func, ast.Name) and c.func.id == 'Link', '_list_links'),
        ('fim.user.node:Node', 'add_component', lambda c: isinstance(c.func, ast.Name) and c.func.id == 'Component', '__list_components'),
        ('fim.user.node:Node', 'add_storage', lambda c: isinstance(c.func, ast.Name) and c.func.id == 'Component', '__list_components'),
        ('fim.user.node:Node', 'add_network_service', lambda c: isinstance(c.func, ast.Name) and c.func.id == 'NetworkService', '__list_network_services'),
        # the listing compared with is read from the model: the handle's own list (_interfaces) misses what another handle of the
        # same element has added in the meantime
        ('fim.user.network_service:NetworkService', 'add_interface', lambda c: isinstance(c.func, ast.Name) and c.func.id == 'Interface', 'get_all_ns_or_link_connection_points'),
        ('fim.user.interface:Interface', 'add_child_interface', lambda c: isinstance(c.func, ast.Name) and c.func.id == 'Interface', 'get_all_child_connection_points'),
    ]
    for spec, name, is_create, scope in guards:
        cls = prog.cls(spec)
        fn = cls.methods.get(name)
        if fn is None:
            raise AnalysisError(f'{cls.qual}.{name} vanished')
        fq = f'{cls.name}.{name}'
        cfg = CFG(fn)
        creates = [n for n in cfg.nodes if n.kind == 'stmt' and n.ast is not None and any(isinstance(c, ast.Call) and is_create(c) for c in walk_no_nested(n.ast))]
        tests = [t for t in cfg.nodes if t.kind == 'test' and t.tag == 'if' and 'name' in ast.unparse(t.ast) and
                 isinstance(canon(t.ast), ast.Compare) and isinstance(canon(t.ast).ops[0], ast.In) and any(isinstance(x, ast.Raise) for x in ast.walk(t.ast._parent))]
        # the compared collection must come from the scope's listing
        good = []
        for t in tests:
            tcan = canon(t.ast)
            rhs = tcan.comparators[0]
            txt = ast.unparse(expand(rhs, local_env(fn)))
            ok_scope = scope in txt
            if not ok_scope and isinstance(rhs, ast.Name):
                env4 = {k_: v_ for k_, v_ in local_env(fn).items() if k_ != rhs.id}
                for d in walk_no_nested(fn):
                    if isinstance(d, ast.Assign) and any(isinstance(x, ast.Name) and x.id == rhs.id for x in d.targets) and \
                            scope in ast.unparse(expand(d.value, env4)):
                        ok_scope = True
                        # the names compared must be those of the whole scope: a listing filtered by a condition leaves names out
                        if any(isinstance(x, ast.comprehension) and x.ifs for x in ast.walk(d.value)) or \
                                any(isinstance(x, ast.Call) and isinstance(x.func, ast.Name) and x.func.id == 'filter' for x in ast.walk(d.value)):
                            ok_scope = False
                from ..normalize import builders as _b
                for b_ in _b(fn).get(rhs.id, []):
                    if any(scope in ast.unparse(expand(i, env4)) for _, i in b_.gens):
                        # filled by a loop over the scope's listing: complete only when nothing is filtered out
                        ok_scope = not b_.conds
            rhs_x = expand(rhs, local_env(fn))
            if ok_scope and (any(isinstance(x, ast.comprehension) and x.ifs for x in ast.walk(rhs_x)) or
                             any(isinstance(x, ast.Call) and isinstance(x.func, ast.Name) and x.func.id == 'filter' for x in ast.walk(rhs_x))):
                ok_scope = False
            if ok_scope and ast.unparse(tcan.left) == 'name':
                good.append(t)
        rep.instance('R4', f'{fq}: uniqueness test {[norm(t.ast, 70) for t in good]} before creation')
        if not creates:
            raise AnalysisError(f'{fq}: creation statement not found')
        if not good or not all(any(cfg.edge_dominates(t, 'f', cr) for t in good) for cr in creates):
            rep.violation('R4', loc(cls.module, fn), fq, 'creation not dominated by the name-uniqueness test of its scope',
                          f'{fq} can create an element whose name is already used in the same scope')
    # graph-level name uniqueness (nodes, top-level services) and id uniqueness
    for name in ('add_network_node_sliver', 'add_network_service_sliver'):
        fn = apg.methods[name]
        cfg = CFG(fn)
        ins = [n for n in cfg.nodes if n.kind == 'stmt' and n.ast is not None and any(isinstance(c, ast.Call) and call_name(c) == 'add_node' for c in walk_no_nested(n.ast))]
        tests = [t for t in cfg.nodes if t.kind == 'test' and t.tag == 'if' and 'check_node_unique' in ast.unparse(t.ast)]
        rep.instance('R4', f'ABCPropertyGraph.{name}: {[norm(t.ast, 90) for t in tests]}')
        if not ins or not tests or not cfg.edge_dominates(tests[0], 'f', ins[0]):
            rep.violation('R4', loc(amod, fn), f'ABCPropertyGraph.{name}', 'name uniqueness not tested before the insert', 'two elements of this class can share a name')
    nxpg = prog.cls(nxg.NXPG)
    an = nxg.method(prog, nxpg, nxpg.methods['add_node'])
    mixin = prog.cls(nxg.MIXIN)
    lk = set()
    for c in nxg.search_calls(mixin.methods['_find_node']):
        for op, f, v in nxg.parse_query(prog, c.args[1], mixin.module, mixin):
            if op == 'eq':
                lk.add(f)
    gf = None
    for c in walk_no_nested(an):
        if isinstance(c, ast.Call) and call_name(c) == 'node_exists':
            gf = set()
            for sc in nxg.search_calls(nxg.method(prog, nxpg, nxpg.methods['node_exists'])):
                for op, f, v in nxg.parse_query(prog, sc.args[1], nxpg.module, nxpg):
                    if op == 'eq':
                        gf.add(f)
    if gf is None:
        for sc in nxg.search_calls(an):
            gf = {f for op, f, v in nxg.parse_query(prog, sc.args[1], nxpg.module, nxpg) if op == 'eq'}
    rep.instance('R4', f'NetworkXPropertyGraph.add_node: id guard keyed on {sorted(gf) if gf is not None else None}, lookup keyed on {sorted(lk)}')
    if gf is None or not gf <= lk:
        rep.violation('R4', loc(nxpg.module, an), 'NetworkXPropertyGraph.add_node', f'id guard keyed on {sorted(gf) if gf else None}',
                      'node ids must be distinct whatever the class: the guard also matches on more fields than the lookup, so the same '
                      'id can be given to elements of two classes')
    # renaming
    me = prog.cls('fim.user.model_element:ModelElement')
    rn = me.methods.get('rename')
    has_test = any(isinstance(n, ast.If) and any(isinstance(x, ast.Raise) for x in n.body) for n in ast.walk(rn))
    rep.instance('R4', f'ModelElement.rename: uniqueness test present={has_test}')
    if not has_test:
        rep.violation('R4', loc(me.module, rn), 'ModelElement.rename', 'no uniqueness test before the name is written',
                      'rename() (and the name setter) write the Name property without testing that the new name is free in the '
                      'element\'s scope: n2.rename("n1") yields two nodes named n1 and the nodes view then shows only one of them')

    # ---- R5 ----
    vod = prog.cls('fim.view_only_dict:ViewOnlyDict')
    bases = [ast.unparse(b) for b in vod.base_exprs]
    rep.instance('R5', f'ViewOnlyDict bases {bases}; methods {sorted(vod.methods)}')
    if bases != ['Mapping']:
        rep.violation('R5', loc(vod.module, vod.node), 'ViewOnlyDict', f'bases {bases}', 'a view derived from a mutable mapping can be used to modify the listing')
    for mname in sorted(set(vod.methods) & MUTATOR_NAMES):
        rep.violation('R5', loc(vod.module, vod.methods[mname]), f'ViewOnlyDict.{mname}', f'mutator {mname}', 'the read-only view exposes a mutator')
    for m_, f in vod.methods.items():
        for n in walk_no_nested(f):
            if isinstance(n, ast.Return) and n.value is not None and isinstance(n.value, ast.Attribute) and 'dict' in n.value.attr:
                rep.violation('R5', loc(vod.module, n), f'ViewOnlyDict.{m_}', norm(n), 'the underlying dictionary escapes the view')
    for spec in ('fim.user.network_service:NetworkService', 'fim.user.interface:Interface', 'fim.user.link:Link', 'fim.user.node:Node',
                 'fim.user.component:Component', 'fim.user.topology:Topology'):
        cls = prog.cls(spec)
        fns = list(cls.methods.items()) + [(k + '.getter', v['getter']) for k, v in cls.properties.items() if 'getter' in v]
        for name, fn in fns:
            for n in walk_no_nested(fn):
                if isinstance(n, ast.Return) and n.value is not None:
                    v = n.value
                    cache_ref = any(isinstance(x, ast.Attribute) and x.attr == '_interfaces' for x in ast.walk(v))
                    if isinstance(v, ast.Name):
                        # a local that merely names the cache
                        defs_ = [a.value for a in walk_no_nested(fn) if isinstance(a, ast.Assign) and any(isinstance(t, ast.Name) and t.id == v.id for t in a.targets)]
                        if defs_ and all(isinstance(d, ast.Attribute) and d.attr == '_interfaces' for d in defs_):
                            cache_ref = True
                            v = defs_[0]
                    if cache_ref:
                        rep.instance('R5', f'{cls.name}.{name}: returns {norm(v, 60)}')
                        safe = (isinstance(v, ast.Call) and call_name(v) in ('tuple', 'copy', 'list', 'ViewOnlyDict', 'frozenset')) or \
                            (isinstance(v, ast.BinOp))
                        if isinstance(v, ast.Attribute) and v.attr == '_interfaces':
                            safe = False
                        if not safe and not isinstance(v, (ast.Call,)):
                            rep.violation('R5', loc(cls.module, n), f'{cls.name}.{name}', norm(n),
                                          'the interface cache itself is handed out: callers can modify what the handle reports')
                    if isinstance(v, ast.Name) and name.lstrip('_').startswith('list_') and not name.endswith('of_interfaces'):
                        # dictionary listings must be wrapped
                        rep.violation('R5', loc(cls.module, n), f'{cls.name}.{name}', norm(n), 'a listing is returned unwrapped (mutable)')
                    if isinstance(v, ast.Call) and call_name(v) == 'ViewOnlyDict':
                        rep.instance('R5', f'{cls.name}.{name}: returns {norm(v, 60)}')

    # ---- R6 ----
    for spec, names in (('fim.user.network_service:NetworkService', ['add_interface', 'connect_interface']),
                        ('fim.user.interface:Interface', ['add_child_interface'])):
        cls = prog.cls(spec)
        for name in names:
            fn = cls.methods.get(name)
            if fn is None:
                raise AnalysisError(f'{cls.qual}.{name} vanished')
            fq = f'{cls.name}.{name}'
            def _is_creation(c):
                return isinstance(c, ast.Call) and isinstance(c.func, ast.Name) and c.func.id == 'Interface' and \
                    ast.unparse(kwarg(c, 'parent_node_id') or ast.Constant(None)) == 'self.node_id' and \
                    'NEW' in ast.unparse(kwarg(c, 'etype') or ast.Constant(None))
            creations = [c for c in walk_no_nested(fn) if _is_creation(c)]
            if not creations:
                raise AnalysisError(f'{fq}: child interface creation not found')
            for cr in creations:
                holder = getattr(cr, '_parent', None)
                var = holder.targets[0].id if isinstance(holder, ast.Assign) and len(holder.targets) == 1 and isinstance(holder.targets[0], ast.Name) else None
                apps = [c for c in walk_no_nested(fn) if isinstance(c, ast.Call) and call_name(c) == 'append' and
                        ast.unparse(c.func.value) == 'self._interfaces' and c.args and
                        ((var is not None and ast.unparse(c.args[0]) == var) or c.args[0] is cr)]
                rep.instance('R6', f'{fq}: Interface(NEW under self) ' + (f'bound to a local; ' if var else 'not bound; ') + f'self._interfaces.append(<it>) x{len(apps)}')
                if len(apps) != 1 or apps[0].lineno < cr.lineno:
                    rep.violation('R6', loc(cls.module, cr), fq, 'child interface created but ' + ('appended %d times' % len(apps) if apps else 'never appended to self._interfaces'),
                                  f'{fq} creates a child interface under this element without recording it in the handle\'s interface list: '
                                  f'interface_list / the duplicate-name guard (which read the list) do not see it')
                p = apps[0] if apps else None
                while p is not None and p is not fn:
                    p = p._parent
                    if isinstance(p, (ast.If, ast.For, ast.While, ast.Try)):
                        rep.violation('R6', loc(cls.module, apps[0]), fq, 'cache update is conditional', 'the cache update must happen whenever the interface was created')
                        break
    # peer() relies on add_interface for the bookkeeping: it must not append again
    ns = prog.cls('fim.user.network_service:NetworkService')
    pr = ns.methods.get('peer')
    extra = [c for c in walk_no_nested(pr) if isinstance(c, ast.Call) and call_name(c) == 'append' and '_interfaces' in ast.unparse(c.func.value)]
    rep.instance('R6', f'NetworkService.peer: explicit cache appends {len(extra)} (add_interface does the bookkeeping)')
    for c in extra:
        rep.violation('R6', loc(ns.module, c), 'NetworkService.peer', norm(c), 'the interface is recorded twice (add_interface already appends it)')

    # ---- R12: handle caches follow removals (shared with C08) ----
    rep.rule('R12', 'the interface cache of a handle is rebuilt without the removed child after every removal through it', floor=5)
    from .c08 import check_cache_after_removal
    check_cache_after_removal(prog, rep, 'R12')
    rep.rule('R13', 'removing a sub-interface leaves its parent port (and so the peer of the service port joined to it) in place', floor=1)
    from .c08 import check_child_removal_keeps_parent
    check_child_removal_keeps_parent(prog, rep, 'R13')
    rep.rule('R14', 'a created element is recorded for the rollback before the next step that can fail (no peerless port is left behind)', floor=2)
    from .c09 import check_recorded_before_next_step
    check_recorded_before_next_step(prog, rep, 'R14')
    rep.rule('R16', 'a topology-wide view keyed by name is backed by a name-uniqueness test over all the elements it lists', floor=3)
    check_name_keyed_views(prog, rep, 'R16')
    rep.rule('R17', 'a handler that undoes a partly made connection and re-raises catches Exception (no peerless port is left behind)', floor=5)
    from .c09 import check_rollback_handler_breadth
    check_rollback_handler_breadth(prog, rep, 'R17')
    rep.rule('R15', 'unpeer removes ports only after establishing that the two services peer (no port is left without a peer)', floor=2)
    from .c08 import check_unpeer_shape
    check_unpeer_shape(prog, rep, 'R15')

    # ---- R7 ----
    for spec in ('fim.user.topology:Topology',):
        cls = prog.cls(spec)
        for name, fn in cls.methods.items():
            for loop in [n for n in walk_no_nested(fn) if isinstance(n, ast.For)]:
                incs = {ast.unparse(n.target) for n in ast.walk(loop) if isinstance(n, ast.AugAssign) and isinstance(n.op, ast.Add)
                        and isinstance(n.target, ast.Name)}
                # an index taken from enumerate(...) advances once per iteration by construction
                if isinstance(loop.iter, ast.Call) and isinstance(loop.iter.func, ast.Name) and loop.iter.func.id == 'enumerate' and \
                        isinstance(loop.target, ast.Tuple) and isinstance(loop.target.elts[0], ast.Name):
                    ev = loop.target.elts[0].id
                    used = any(isinstance(x, ast.Name) and x.id == ev and isinstance(x.ctx, ast.Load) for x in ast.walk(loop))
                    reassigned = any(isinstance(x, ast.Name) and x.id == ev and isinstance(x.ctx, ast.Store) for b_ in loop.body for x in ast.walk(b_))
                    if used:
                        rep.instance('R7', f'{cls.name}.{name}: index {ev} from enumerate(...)')
                        if reassigned:
                            rep.violation('R7', loc(cls.module, loop), f'{cls.name}.{name}', f'{ev} reset inside the loop',
                                          f'the index {ev} used to derive ids is reassigned inside the loop')
                for v in incs:
                    resets = [s for s in loop.body if isinstance(s, ast.Assign) and any(ast.unparse(t) == v for t in s.targets)]
                    blk = loop._parent.body if loop in getattr(loop._parent, 'body', []) else loop._parent.orelse
                    inits = [s for s in blk[:blk.index(loop)] if isinstance(s, ast.Assign) and any(ast.unparse(t) == v for t in s.targets)]
                    rep.instance('R7', f'{cls.name}.{name}: index {v}: initialised before loop={bool(inits)}, reset inside={len(resets)}')
                    if resets or not inits:
                        rep.violation('R7', loc(cls.module, resets[0] if resets else loop), f'{cls.name}.{name}', f'{v} reset inside the loop',
                                      f'the index {v} used to derive ids is reset on every iteration: all derived ids are the same and '
                                      f'the second insertion collides')
    sw = prog.cls('fim.user.topology:Topology').methods.get('add_switch')
    loops = [n for n in walk_no_nested(sw) if isinstance(n, ast.For)]
    rep.instance('R7', f'Topology.add_switch: ports over {norm(loops[0].iter) if loops else None}')
    if not loops or ' '.join(ast.unparse(loops[0].iter).split()) not in ('range(1, nports + 1)', 'range(1, 1 + nports)'):
        rep.violation('R7', loc(prog.cls("fim.user.topology:Topology").module, sw), 'Topology.add_switch', 'port loop', 'ports p1..pN must be created for N = nports')
    elif f'{{{ast.unparse(loops[0].target)}}}' not in ast.unparse(loops[0]):
        rep.violation('R7', loc(prog.cls("fim.user.topology:Topology").module, sw), 'Topology.add_switch', 'port names not derived from the loop index', 'port names/ids must differ per port')

    # ---- R9: links join only interfaces ----
    rep.rule('R9', 'a new Link is connected to Interface objects only (type test before the graph is touched)', floor=1)
    lk = prog.cls('fim.user.link:Link')
    li = inline(prog, lk, lk.methods['__init__'])
    lcfg = CFG(li)
    ldom = lcfg.dominators()
    adds = [c for c in walk_no_nested(li) if isinstance(c, ast.Call) and call_name(c) == 'add_network_link_sliver']
    if not adds:
        raise AnalysisError('Link.__init__: add_network_link_sliver call not found')
    iparam = 'interfaces'
    type_tests = []
    for t in lcfg.nodes:
        if t.kind != 'test' or t.tag not in ('if', 'assert'):
            continue
        e = t.ast
        ok_ = False
        for c in ast.walk(e):
            # all(isinstance(x, Interface) for x in interfaces)   /   any(not isinstance(...) ...)
            if isinstance(c, ast.Call) and isinstance(c.func, ast.Name) and c.func.id in ('all', 'any') and c.args and \
                    isinstance(c.args[0], (ast.GeneratorExp, ast.ListComp)):
                g = c.args[0].generators[0]
                if isinstance(g.iter, ast.Name) and g.iter.id == iparam and any(
                        isinstance(x, ast.Call) and isinstance(x.func, ast.Name) and x.func.id == 'isinstance' and len(x.args) == 2 and
                        ast.unparse(x.args[1]) == 'Interface' for x in ast.walk(c.args[0].elt)):
                    ok_ = True
        if ok_ and (t.tag == 'assert' or any(isinstance(x, ast.Raise) for x in ast.walk(getattr(e, '_parent', e)))):
            type_tests.append(t)
    an = flow.node_of(lcfg, adds[0])
    guarded = an is not None and any(t.id in ldom.get(an.id, set()) for t in type_tests)
    # a loop that tests every element before the insertion is accepted as well
    if not guarded:
        for l in walk_no_nested(li):
            if isinstance(l, ast.For) and isinstance(l.iter, ast.Name) and l.iter.id == iparam and isinstance(l.target, ast.Name) and \
                    any(isinstance(x, ast.Call) and isinstance(x.func, ast.Name) and x.func.id == 'isinstance' and len(x.args) == 2 and
                        ast.unparse(x.args[1]) == 'Interface' and isinstance(x.args[0], ast.Name) and x.args[0].id == l.target.id for x in ast.walk(l)) and \
                    any(isinstance(x, (ast.Raise, ast.Assert)) for x in ast.walk(l)):
                hn = [nd for nd in lcfg.nodes if nd.kind == 'test' and nd.tag == 'for' and nd.ast is l]
                guarded = bool(hn) and an is not None and hn[0].id in ldom.get(an.id, set())
    rep.instance('R9', f'Link.__init__: element type tests before the insertion: {len(type_tests)}; insertion guarded: {guarded}')
    if not guarded:
        rep.violation('R9', loc(lk.module, adds[0]), 'Link.__init__', 'elements of `interfaces` are not type-checked before the link is inserted',
                      'the constructor takes the node_id of whatever objects it is given: topology.add_link(interfaces=[node1, node2]) creates a '
                      'Link that is connected to NetworkNodes (or components, services), which the published model rules forbid')

    # ---- R10: the type of an element comes from the vocabulary of its kind ----
    rep.rule('R10', 'set_type of every sliver class validates the type against the enumeration of that kind of element', floor=5)
    VOCAB = {'fim.slivers.network_node:NodeSliver': 'NodeType', 'fim.slivers.attached_components:ComponentSliver': 'ComponentType',
             'fim.slivers.interface_info:InterfaceSliver': 'InterfaceType', 'fim.slivers.network_service:NetworkServiceSliver': 'ServiceType',
             'fim.slivers.network_link:NetworkLinkSliver': 'LinkType'}
    for spec, enum_name in VOCAB.items():
        sc = prog.cls(spec)
        owner, st = sc.find_method('set_type')
        if st is None:
            raise AnalysisError(f'{sc.name}.set_type vanished')
        sti = inline(prog, owner, st)
        tparam = [p_ for p_ in func_params(sti) if p_ != 'self'][0]
        checked = None
        for n in walk_no_nested(sti):
            test = n.test if isinstance(n, (ast.Assert, ast.If)) else None
            if test is None:
                continue
            if isinstance(n, ast.If) and not any(isinstance(x, ast.Raise) for x in ast.walk(n)):
                continue
            for c in ast.walk(test):
                if isinstance(c, ast.Call) and isinstance(c.func, ast.Name) and c.func.id == 'isinstance' and len(c.args) == 2 and \
                        isinstance(c.args[0], ast.Name) and c.args[0].id == tparam:
                    checked = c.args[1]
        # the store must come after the test
        stores = [n for n in walk_no_nested(sti) if isinstance(n, ast.Assign) and any(ast.unparse(t) == 'self.resource_type' for t in n.targets)]
        vocab = None
        if checked is not None:
            if isinstance(checked, ast.Attribute) and isinstance(checked.value, ast.Name) and checked.value.id in ('self', 'cls'):
                o2, e2 = sc.find_assign(checked.attr)
                vocab = ast.unparse(e2) if e2 is not None else None
            else:
                vocab = ast.unparse(checked)
        rep.instance('R10', f'{sc.name}.set_type (defined in {owner.name}) checks the type against {vocab}')
        if checked is None or vocab != enum_name or not stores:
            rep.violation('R10', loc(owner.module, st), f'{sc.name}.set_type', f'type of a {sc.name} is not checked against {enum_name}',
                          f'{sc.name}.set_type stores whatever it is given (found vocabulary: {vocab}): element.set_property(\'type\', ...) can put a '
                          f'value outside {enum_name} into the model, which the published model rules do not allow')

    # ---- R11: interfaces generated for catalogue components carry a type ----
    rep.rule('R11', 'every catalogue component type that has interfaces gets typed interfaces', floor=3)
    from . import c18
    comps_ = prog.data_file(c18.COMPS)
    with_ifs = sorted({c_.get('Type') for c_ in comps_ if isinstance(c_, dict) and c_.get('Interfaces')})
    disp_ = c18.interface_kind_dispatch(prog)
    ccat_ = prog.cls(c18.CCAT)
    for t_ in with_ifs:
        rep.instance('R11', f'catalogue type {t_}: generated interfaces are {disp_.get(t_)}')
        if not disp_.get(t_) or disp_.get(t_) == '?':
            rep.violation('R11', loc(ccat_.module, ccat_.methods['generate_component']), 'ComponentCatalog.generate_component', f'no interface type for component type {t_}',
                          f'the interfaces generated for {t_} components are stored without a Type: the model contains ConnectionPoints '
                          f'that the published rules (every element has a type from the allowed vocabulary) reject')

    # ---- R8 ----
    ci = ns.methods.get('connect_interface')
    pif = [n for n in walk_no_nested(ci) if isinstance(n, ast.Assign) and isinstance(n.value, ast.Call) and isinstance(n.value.func, ast.Name)
           and n.value.func.id == 'Interface' and 'ServicePort' in ast.unparse(n.value)]
    lnk = [n for n in walk_no_nested(ci) if isinstance(n, ast.Call) and isinstance(n.func, ast.Name) and n.func.id == 'Link' and 'NEW' in ast.unparse(n)]
    rep.instance('R8', f'connect_interface: port {norm(pif[0], 60) if pif else None}; link {norm(lnk[0], 60) if lnk else None}')
    ok = bool(pif) and bool(lnk) and pif[0].lineno < lnk[0].lineno
    if ok:
        ifs = kwarg(lnk[0], 'interfaces')
        ok = ifs is not None and isinstance(ifs, (ast.List, ast.Tuple)) and {ast.unparse(e) for e in ifs.elts} == {'interface', pif[0].targets[0].id}
        between = [n for n in walk_no_nested(ci) if isinstance(n, ast.Return) and pif[0].lineno < n.lineno < lnk[0].lineno]
        ok = ok and not between
    if not ok:
        rep.violation('R8', loc(ns.module, ci), 'NetworkService.connect_interface', 'service port and link not created as a unit',
                      'every service port must get exactly one peer: the link joining the node interface and the new port must follow the port')
    def link_sink(st):
        if isinstance(st, (ast.Expr, ast.Assign)) and isinstance(st.value, ast.Call) and isinstance(st.value.func, ast.Name) and st.value.func.id == 'Link':
            return kwarg(st.value, 'ltype')
        return None
    try:
        outs = branch_values(inline(prog, ns, ci).body, link_sink, follow_loops=True)
    except Unknown as u:
        raise AnalysisError(f'connect_interface: link type selection not analysable: {u}')
    iparam = [p_ for p_ in func_params(ci) if p_ != 'self'][0]
    # the link type chosen for each kind of interface: the ltype argument evaluated under "interface.type is T" (if/else,
    # conditional expression, lookup table with default alike)
    cii = inline(prog, ns, ci)
    cenv = {k_: v_ for k_, v_ in local_env(cii).items() if isinstance(v_, (ast.Name, ast.Attribute, ast.Subscript))}
    fold8 = lambda e_: prog.const_eval(e_, ns.module, ns)
    tkey = ctext(ast.parse(f'{iparam}.type', mode='eval').body)
    sel = {}
    for T in prog.enum_members('fim.slivers.interface_info:InterfaceType'):
        bind = {tkey: prog.const_eval(ast.parse(f'InterfaceType.{T}', mode='eval').body, ns.module, ns)}
        vals = set()
        for o in outs:
            holds = True
            for n_ in o.cond_nodes:
                try:
                    if any(ctext(x) == tkey for x in ast.walk(n_)) and not eval_test(n_, bind, fold8):
                        holds = False
                        break
                except Unknown:
                    pass
            if not holds:
                continue
            try:
                v_ = value_under(o.value, bind, fold8, cenv, cii)
                vals.add(getattr(v_, 'name', str(v_)))
            except Unknown:
                vals.add('?' + o.vtext)
        sel[T] = vals
    rep.instance('R8', f'connect_interface: link type by interface kind {dict((k, sorted(v)) for k, v in sel.items())}')
    if not sel or any(v != ({'L2Path'} if k == 'SharedPort' else {'Patch'}) for k, v in sel.items()):
        rep.violation('R8', loc(ns.module, ci), 'NetworkService.connect_interface', 'link type selection', 'shared ports are linked by L2Path, others by Patch')


TP = 'fim/user/topology.py'
UNS = 'fim/user/network_service.py'
AP = 'fim/graph/abc_property_graph.py'
MUTANTS = [
    {'name': 'interface-name-guard-reads-handle-cache', 'file': 'fim/user/network_service.py', 'rule': 'R4',
     'find': '        all_names = [known[i] if i in known else\n                     self.topo.graph_model.get_node_properties(node_id=i)[1][ABCPropertyGraph.PROP_NAME]\n                     for i in model_ids]\n', 'replace': '        all_names = list(known.values())\n'},
    {'name': 'rules-lose-service-type', 'file': RULES, 'rule': 'R1', 'find': '\\"L2STS\\", \\"L2Multisite\\", ', 'replace': '\\"L2STS\\", '},
    {'name': 'enum-member-added-without-rule', 'file': 'fim/slivers/interface_info.py', 'rule': 'R1',
     'find': '    SubInterface = enum.auto()\n', 'replace': '    SubInterface = enum.auto()\n    LoopbackPort = enum.auto()\n'},
    {'name': 'component-services-read-through-connects', 'file': AP, 'rule': 'R2',
     'find': "        nss = self.get_first_neighbor(node_id=node_id, rel=ABCPropertyGraph.REL_HAS,\n                                      node_label=ABCPropertyGraph.CLASS_NetworkService)\n        if nss is not None and len(nss) > 0:\n            nsi = NetworkServiceInfo()\n            for s in nss:\n                nssl = self.build_deep_ns_sliver(node_id=s)\n                nsi.add_network_service(nssl)\n            cs.network_service_info = nsi",
     'replace': "        nss = self.get_first_neighbor(node_id=node_id, rel=ABCPropertyGraph.REL_CONNECTS,\n                                      node_label=ABCPropertyGraph.CLASS_NetworkService)\n        if nss is not None and len(nss) > 0:\n            nsi = NetworkServiceInfo()\n            for s in nss:\n                nssl = self.build_deep_ns_sliver(node_id=s)\n                nsi.add_network_service(nssl)\n            cs.network_service_info = nsi"},
    {'name': 'component-owner-edge-dropped', 'file': AP, 'rule': 'R3',
     'find': '        self.add_link(node_a=parent_node_id, rel=ABCPropertyGraph.REL_HAS, node_b=component.node_id)\n', 'replace': ''},
    {'name': 'node-name-guard-dropped', 'file': TP, 'rule': 'R4',
     'find': "        if name in self._list_nodes().keys():\n            raise TopologyException('Node names must be unique within topology.')\n", 'replace': ''},
    {'name': 'interface-list-returns-cache', 'file': UNS, 'rule': 'R5',
     'find': '        return tuple(self._interfaces)\n\n    @property\n    def interface_list(self):\n        """\n        List of names of service interfaces', 'replace': '        return self._interfaces\n\n    @property\n    def interface_list(self):\n        """\n        List of names of service interfaces'},
    {'name': 'add-interface-cache-not-updated', 'file': UNS, 'rule': 'R6',
     'find': '                        **kwargs)\n        self._interfaces.append(iff)\n        return iff', 'replace': '                        **kwargs)\n        return iff'},
    {'name': 'facility-index-reset-in-loop', 'file': TP, 'rule': 'R7',
     'find': '                iindex = 0\n                for iname, ilabels, icapacities in interfaces:\n', 'replace': '                for iname, ilabels, icapacities in interfaces:\n                    iindex = 0\n'},
    {'name': 'link-accepts-any-object', 'file': 'fim/user/link.py', 'rule': 'R9',
     'find': '            if not all(isinstance(iff, Interface) for iff in interfaces):\n                raise TopologyException("Links connect interfaces only: every element of the list must be an Interface.")\n',
     'replace': ''},
    {'name': 'service-type-vocabulary-dropped', 'file': 'fim/slivers/network_service.py', 'rule': 'R10',
     'find': '    TYPE_CLASS = ServiceType\n', 'replace': ''},
]
TWINS = [
    {'name': 'uniqueness-through-local-listing', 'file': TP,
     'find': "        if name in self._list_nodes().keys():\n            raise TopologyException('Node names must be unique within topology.')",
     'replace': "        existing = self._list_nodes()\n        if name in existing:\n            raise TopologyException('Node names must be unique within topology.')"},
]
