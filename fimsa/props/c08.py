"""
C08 -- removal and disconnection delete exactly the owned structure and nothing else.

R1 handle-cache coherence on removal: every removal of a child interface in a class that caches `_interfaces` is followed
   by a filter of the cache of the *same* object whose child was removed, fed from that same cache, on the removed id
R2 removal cascade vs containment schema: each remove_* covers exactly the child pairs its element owns, iterates every
   neighbour list it collects, applies the sharing conditions (only child -> parent goes; exactly two ends -> link goes),
   and sub-interface removal keeps the parent port
R3 collect before delete: neighbour lists of an element are collected before that element is deleted
R4 disconnect first: Topology.remove_node / remove_facility and Node.remove_component disconnect ServicePort peers of every
   interface before the graph-level removal
"""
import ast

from ..core import AnalysisError, norm, loc, walk_no_nested, attr_chain, call_name, kwarg
from ..schema import containment_schema

APG = 'fim.graph.abc_property_graph:ABCPropertyGraph'
REMOVERS = {
    'remove_network_node_with_components_nss_cps_and_links': ('NetworkNode', {('has', 'Component'): 'remove_component_with_nss_cps_and_links',
                                                                            ('has', 'NetworkService'): 'remove_ns_with_cps_and_links'}),
    'remove_component_with_nss_cps_and_links': ('Component', {('has', 'NetworkService'): 'remove_ns_with_cps_and_links'}),
    'remove_ns_with_cps_and_links': ('NetworkService', {('connects', 'ConnectionPoint'): 'remove_cp_and_links'}),
    'remove_network_link': ('Link', {}),
}


def run(prog, rep):
    rep.extra['explanation'] = (
        'All removal paths are analysed as siblings: handle classes that cache their interfaces must filter the cache of '
        'the object whose child was removed (same object on both sides of the assignment, same id as the removal); the '
        'graph-level removers must recurse over exactly the child pairs of the containment schema, iterate what they '
        'collect, apply the two sharing conditions with their exact comparators and collect before deleting; the topology '
        'level must disconnect service-port peers first. The frame condition (nothing else changes) is not decided.')
    rep.rule('R1', 'cache of the right object filtered after a child removal', floor=5)
    rep.rule('R2', 'removal cascade covers exactly the owned schema pairs with the sharing conditions', floor=10)
    rep.rule('R3', 'neighbour lists collected before the element is deleted', floor=4)
    rep.rule('R4', 'service-port peers disconnected before graph-level removal', floor=3)

    # ---- R1 ----
    for spec in ('fim.user.network_service:NetworkService', 'fim.user.interface:Interface'):
        cls = prog.cls(spec)
        mod = cls.module
        for name, fn in cls.methods.items():
            removals = [c for c in walk_no_nested(fn) if isinstance(c, ast.Call) and call_name(c) == 'remove_cp_and_links']
            if name == '__init__':
                continue
            for rc in removals:
                ch = attr_chain(rc.func)
                owner = ch[0] if ch else None
                rid = kwarg(rc, 'node_id') or (rc.args[0] if rc.args else None)
                fq = f'{cls.name}.{name}'
                rid_txt = ast.unparse(rid) if rid is not None else None
                # cache filters in this function
                filt = []
                for n in walk_no_nested(fn):
                    if isinstance(n, ast.Assign) and isinstance(n.targets[0], ast.Attribute) and n.targets[0].attr == '_interfaces':
                        filt.append(n)
                ok = False
                detail = None
                for a in filt:
                    tgt_owner = ast.unparse(a.targets[0].value)
                    srcs = [ast.unparse(x.value) for x in ast.walk(a.value) if isinstance(x, ast.Attribute) and x.attr == '_interfaces']
                    ids = [ast.unparse(x.comparators[0]) for x in ast.walk(a.value) if isinstance(x, ast.Compare) and isinstance(x.ops[0], ast.NotEq)
                           and 'node_id' in ast.unparse(x.left)]
                    if tgt_owner == owner and ids and ids[0] == rid_txt:
                        detail = (tgt_owner, srcs, a)
                        if srcs == [owner] and a.lineno > rc.lineno:
                            ok = True
                rep.instance('R1', f'{fq}: removal of {rid_txt} on {owner}: cache filter {"ok" if ok else ("wrong" if detail else "missing")}')
                if ok:
                    continue
                if detail is None:
                    rep.violation('R1', loc(mod, rc), fq, f'{norm(rc, 90)} without a filter of {owner}._interfaces',
                                  f'{fq} removes the child {rid_txt} of `{owner}` from the model but never removes it from '
                                  f'{owner}._interfaces: the handle keeps reporting the removed interface (and refuses to reuse its name)')
                else:
                    tgt_owner, srcs, a = detail
                    rep.violation('R1', loc(mod, a), fq, norm(a, 120),
                                  f'{tgt_owner}._interfaces is rebuilt from {srcs} instead of from {tgt_owner}._interfaces: the handle '
                                  f'ends up with another object\'s interfaces')

    # ---- R2 / R3 ----
    apg = prog.cls(APG)
    amod = apg.module
    schema = containment_schema(prog)
    for rname, (start_cls, children) in REMOVERS.items():
        fn = apg.methods.get(rname)
        if fn is None:
            raise AnalysisError(f'ABCPropertyGraph.{rname} vanished')
        fq = f'ABCPropertyGraph.{rname}'
        # the class test names the start class
        labels_tested = [ast.unparse(n.test) for n in fn.body if isinstance(n, ast.If)]
        if not any(f'CLASS_{start_cls}' in t for t in labels_tested):
            rep.violation('R2', loc(amod, fn), fq, 'start class not tested', f'{rname} must verify that the element is a {start_cls}')
        got = {}
        for n in walk_no_nested(fn):
            if isinstance(n, ast.Assign) and isinstance(n.value, ast.Call) and call_name(n.value) == 'get_first_neighbor':
                pr = schema.pairs_of_call(n.value, apg)[0]
                got[pr] = n
        own = schema.owned_children_of(start_cls)
        rep.instance('R2', f'{fq}: collects {sorted(got)}; schema children of {start_cls}: {sorted(own)}')
        for pr in sorted(own - set(got)):
            rep.violation('R2', loc(amod, fn), fq, f'owned pair {pr} not collected',
                          f'{start_cls} elements own children through {pr}; {rname} never looks for them, so they stay in the model as orphans')
        for pr in sorted(set(got) - own):
            rep.violation('R2', loc(amod, got[pr]), fq, f'pair {pr} is not owned by {start_cls}',
                          f'{rname} follows {pr}, which is not an ownership pair of {start_cls}: it deletes elements the element does not own')
        for pr, callee in children.items():
            if pr not in got:
                continue
            var = got[pr].targets[0].id
            loops = [l for l in walk_no_nested(fn) if isinstance(l, ast.For) and ast.unparse(l.iter) == var]
            rec = [c for l in loops for c in ast.walk(l) if isinstance(c, ast.Call) and call_name(c) == callee]
            rep.instance('R2', f'{fq}: {pr} -> for each: {callee}')
            if not loops or not rec:
                rep.violation('R2', loc(amod, got[pr]), fq, f'{pr} children not all removed with {callee}',
                              f'every {pr[1]} owned by the element must be removed with {callee}')
        # R3: collection precedes the deletion of the element itself
        dels = [c for c in walk_no_nested(fn) if isinstance(c, ast.Call) and call_name(c) == 'delete_node' and
                ast.unparse(kwarg(c, 'node_id') or ast.Constant(None)) == 'node_id']
        rep.instance('R3', f'{fq}: delete at line {dels[0].lineno if dels else None}; collections at {[n.lineno for n in got.values()]}')
        if not dels:
            rep.violation('R3', loc(amod, fn), fq, 'element itself not deleted', f'{rname} does not delete the element')
        for pr, n in got.items():
            if dels and n.lineno > dels[0].lineno:
                rep.violation('R3', loc(amod, n), fq, f'{pr} collected after the element was deleted',
                              'once the element is deleted its neighbours can no longer be found: the owned children stay in the model')
    check_cp_remover(prog, rep, 'R2')
    # sub-interface removal keeps the parent
    iface = prog.cls('fim.user.interface:Interface')
    rci = iface.methods.get('remove_child_interface')
    calls = [c for c in walk_no_nested(rci) if isinstance(c, ast.Call) and call_name(c) == 'remove_cp_and_links']
    rep.instance('R2', f'Interface.remove_child_interface: {norm(calls[0], 100) if calls else None}')
    dpv = kwarg(calls[0], 'delete_parent') if calls else None
    if not calls or dpv is None or not (isinstance(dpv, ast.Constant) and dpv.value is False):
        rep.violation('R2', loc(iface.module, rci), 'Interface.remove_child_interface', 'delete_parent=False not passed',
                      'removing the last sub-interface of a dedicated port also deletes the port itself (which belongs to the NIC)')
    fnd = [c for c in walk_no_nested(rci) if isinstance(c, ast.Call) and call_name(c) == 'find_child_connection_point_by_name']
    if not fnd or ast.unparse(kwarg(fnd[0], 'parent_node_id') or ast.Constant(None)) != 'self.node_id':
        rep.violation('R2', loc(iface.module, rci), 'Interface.remove_child_interface', 'child not looked up under this interface', 'the child must be found among the children of this interface')

    # ---- R4 ----
    sites = [('fim.user.topology:Topology', 'remove_node', 'remove_network_node_with_components_nss_cps_and_links'),
             ('fim.user.topology:Topology', 'remove_facility', 'remove_network_node_with_components_nss_cps_and_links'),
             ('fim.user.node:Node', 'remove_component', 'remove_component_with_nss_cps_and_links')]
    for spec, name, remover in sites:
        cls = prog.cls(spec)
        fn = cls.methods.get(name)
        if fn is None:
            raise AnalysisError(f'{cls.qual}.{name} vanished')
        fq = f'{cls.name}.{name}'
        rm = [c for c in walk_no_nested(fn) if isinstance(c, ast.Call) and call_name(c) == remover]
        loops = [l for l in walk_no_nested(fn) if isinstance(l, ast.For) and 'interface_list' in ast.unparse(l.iter)]
        disc = [c for l in loops for c in ast.walk(l) if isinstance(c, ast.Call) and call_name(c) == 'disconnect_interface']
        peers = [c for l in loops for c in ast.walk(l) if isinstance(c, ast.Call) and call_name(c) == 'get_peers' and
                 'ServicePort' in ast.unparse(c)]
        rep.instance('R4', f'{fq}: loop over {norm(loops[0].iter) if loops else None}; disconnects={len(disc)}; removal {remover}={len(rm)}')
        ok = bool(rm) and bool(loops) and bool(disc) and bool(peers) and loops[0].lineno < rm[0].lineno
        if ok:
            d = disc[0]
            ok = ast.unparse(d.args[0] if d.args else ast.Constant(None)) == ast.unparse(loops[0].target) and \
                'get_parent_element(peers[0])' in ast.unparse(d.func)
        if not ok:
            rep.violation('R4', loc(cls.module, fn), fq, 'peers not disconnected before the removal',
                          f'{fq} must, for every interface of the element, disconnect it from the service that owns its ServicePort '
                          f'peer before removing the element; otherwise the service-side port and link stay behind')
    # remove_switch delegates to remove_node
    topo = prog.cls('fim.user.topology:Topology')
    rs = topo.methods.get('remove_switch')
    rep.instance('R4', 'Topology.remove_switch delegates to remove_node')
    if rs is None or not any(isinstance(c, ast.Call) and call_name(c) == 'remove_node' for c in walk_no_nested(rs)):
        rep.violation('R4', loc(topo.module, rs or topo.node), 'Topology.remove_switch', 'does not delegate to remove_node', 'switch removal must disconnect peers like node removal')


def check_cp_remover(prog, rep, rule):
    """remove_cp_and_links: collects the four neighbour lists through schema pairs, iterates all of them and applies the two
    sharing conditions with their exact comparators (shared with C07: removal must not orphan interfaces)."""
    apg = prog.cls(APG)
    amod = apg.module
    schema = containment_schema(prog)
    # remove_cp_and_links
    rc = apg.methods.get('remove_cp_and_links')
    if rc is None:
        raise AnalysisError('remove_cp_and_links vanished')
    fq = 'ABCPropertyGraph.remove_cp_and_links'
    assigns = {}
    for n in ast.walk(rc):
        if isinstance(n, ast.Assign) and isinstance(n.value, ast.Call) and call_name(n.value) == 'get_first_neighbor':
            assigns[n.targets[0].id] = (n, schema.pairs_of_call(n.value, apg)[0])
    rep.instance(rule, f'{fq}: neighbour lists {[(k, v[1]) for k, v in assigns.items()]}')
    want = {'parents': ('connects', 'ConnectionPoint'), 'children': ('connects', 'ConnectionPoint'), 'links': ('connects', 'Link'),
            'connected_interfaces': ('connects', 'ConnectionPoint')}
    for var, pr in want.items():
        if var not in assigns or assigns[var][1] != pr:
            rep.violation(rule, loc(amod, rc), fq, f'{var} is not collected through {pr}', f'remove_cp_and_links must look at {var} through {pr}')
    # every collected list is iterated (or measured), never only indexed
    for var, (n, pr) in assigns.items():
        iterated = any(isinstance(l, ast.For) and ast.unparse(l.iter) == var for l in ast.walk(rc))
        measured = any(isinstance(c, ast.Call) and call_name(c) == 'len' and c.args and ast.unparse(c.args[0]) == var for c in ast.walk(rc))
        indexed = [s for s in ast.walk(rc) if isinstance(s, ast.Subscript) and ast.unparse(s.value) == var]
        rep.instance(rule, f'{fq}: {var}: iterated={iterated} measured={measured} indexed={len(indexed)}')
        if not iterated and not measured:
            rep.violation(rule, loc(amod, n), fq, f'{var} is collected but only {"indexed" if indexed else "ignored"}',
                          f'only one element of {var} is handled: with several (e.g. a dedicated port with two or more sub-interfaces) '
                          f'the others stay in the model without an owner')
        if indexed and var in ('parents', 'links'):
            rep.violation(rule, loc(amod, indexed[0]), fq, f'{norm(indexed[0])} used instead of iterating {var}',
                          f'only the first element of {var} is handled')
    conds = {}
    for n in ast.walk(rc):
        if isinstance(n, ast.If):
            t = ast.unparse(n.test)
            if 'len(children)' in t:
                conds['children'] = n
            if 'len(connected_interfaces)' in t:
                conds['links'] = n
    rep.instance(rule, f'{fq}: sharing conditions {[norm(c.test) for c in conds.values()]}')
    ch = conds.get('children')
    if ch is None or ast.unparse(ch.test).replace(' ', '') not in ('len(children)==1anddelete_parent', 'delete_parentandlen(children)==1'):
        rep.violation(rule, loc(amod, ch or rc), fq, f'parent condition {norm(ch.test) if ch else None}',
                      'a parent interface goes with its child only when that child is its only one and the caller allows it')
    lk = conds.get('links')
    if lk is None or ast.unparse(lk.test).replace(' ', '') != 'len(connected_interfaces)==2':
        rep.violation(rule, loc(amod, lk or rc), fq, f'link condition {norm(lk.test) if lk else None}',
                      'a link goes with a removed interface only when exactly one other interface is attached to it; a link '
                      'shared by three or more interfaces must survive the removal of one end')
    dp = [a for a in rc.args.args if a.arg == 'delete_parent']
    dflt = rc.args.defaults[-1] if rc.args.defaults else None
    if not dp or not (isinstance(dflt, ast.Constant) and dflt.value is True):
        rep.violation(rule, loc(amod, rc), fq, 'delete_parent parameter', 'remove_cp_and_links must keep its delete_parent switch (default True)')
    final = [l for l in ast.walk(rc) if isinstance(l, ast.For) and 'interfaces_to_delete' in ast.unparse(l.iter) and 'links_to_delete' in ast.unparse(l.iter)]
    if not final or not any(isinstance(c, ast.Call) and call_name(c) == 'delete_node' for c in ast.walk(final[0])):
        rep.violation(rule, loc(amod, rc), fq, 'collected interfaces and links not deleted', 'the collected sets must be deleted')


UNS = 'fim/user/network_service.py'
AP = 'fim/graph/abc_property_graph.py'
MUTANTS = [
    {'name': 'unpeer-filters-from-own-cache', 'file': UNS, 'rule': 'R1',
     'find': 'ns._interfaces = list(filter((lambda x: x.node_id != sp[-2]), ns._interfaces))', 'replace': 'ns._interfaces = list(filter((lambda x: x.node_id != sp[-2]), self._interfaces))'},
    {'name': 'remove-interface-cache-not-updated', 'file': UNS, 'rule': 'R1',
     'find': "        self.topo.graph_model.remove_cp_and_links(node_id=node_id)\n        # remove from interface list as well\n        self._interfaces = list(filter((lambda x: x.node_id != node_id), self._interfaces))\n\n    def peer(",
     'replace': "        self.topo.graph_model.remove_cp_and_links(node_id=node_id)\n\n    def peer("},
    {'name': 'component-remover-skips-services', 'file': AP, 'rule': 'R2',
     'find': '        self.delete_node(node_id=node_id)\n        for ns in network_services:\n            self.remove_ns_with_cps_and_links(node_id=ns)\n', 'replace': '        self.delete_node(node_id=node_id)\n'},
    {'name': 'ns-deleted-before-interfaces-collected', 'file': AP, 'rule': 'R3',
     'find': "        interfaces = self.get_first_neighbor(node_id=node_id, rel=ABCPropertyGraph.REL_CONNECTS,\n                                             node_label=ABCPropertyGraph.CLASS_ConnectionPoint)\n        self.delete_node(node_id=node_id)\n        for iif in interfaces:",
     'replace': "        self.delete_node(node_id=node_id)\n        interfaces = self.get_first_neighbor(node_id=node_id, rel=ABCPropertyGraph.REL_CONNECTS,\n                                             node_label=ABCPropertyGraph.CLASS_ConnectionPoint)\n        for iif in interfaces:"},
    {'name': 'remove-node-without-disconnect', 'file': 'fim/user/topology.py', 'rule': 'R4',
     'find': "        for i in self.nodes[name].interface_list:\n            # disconnect if connected to a network service\n            peers = i.get_peers(itype=InterfaceType.ServicePort)\n            if peers:\n                if len(peers) == 1:\n                    # disconnect from its parent service\n                    self.get_parent_element(peers[0]).disconnect_interface(i)\n                else:\n                    raise TopologyException(f'Interface {i.name} has more than one peer, this is a model error.')\n\n        self.graph_model.remove_network_node_with_components_nss_cps_and_links(\n            node_id=self._get_node_by_name(name=name).node_id)\n\n    def add_facility",
     'replace': "        self.graph_model.remove_network_node_with_components_nss_cps_and_links(\n            node_id=self._get_node_by_name(name=name).node_id)\n\n    def add_facility"},
]
TWINS = [
    {'name': 'cache-filter-by-comprehension', 'file': UNS,
     'find': '        self._interfaces = list(filter((lambda x: x.node_id != peers[0].node_id), self._interfaces))', 'replace': '        self._interfaces = [x for x in self._interfaces if x.node_id != peers[0].node_id]'},
]
