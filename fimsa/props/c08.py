"""
C08 -- removal and disconnection delete exactly the owned structure and nothing else.

R1 handle-cache coherence on removal: every removal of a child interface in a class that caches `_interfaces` is followed
   by a filter of the cache of the *same* object whose child was removed, fed from that same cache, on the removed id
R2 removal cascade vs containment schema: each remove_* covers exactly the child pairs its element owns, iterates every
   neighbour list it collects, applies the sharing conditions (only child -> parent goes; exactly two ends -> link goes),
   and sub-interface removal keeps the parent port
R3 collect before delete: neighbour lists of an element are collected before that element is deleted
R4 disconnect first: Topology.remove_node / remove_facility and Node.remove_component disconnect ServicePort peers of every
   interface before the graph-level removal
"""
import ast

from ..core import AnalysisError, norm, loc, walk_no_nested, attr_chain, call_name, kwarg
from ..schema import containment_schema
from ..normalize import inline, canon, conjuncts, local_env, expand, ctext, loopify, name_calls, _enclosing
from ..core import func_params
from ..cfg import CFG
from .. import flow

APG = 'fim.graph.abc_property_graph:ABCPropertyGraph'
REMOVERS = {
    'remove_network_node_with_components_nss_cps_and_links': ('NetworkNode', {('has', 'Component'): 'remove_component_with_nss_cps_and_links',
                                                                            ('has', 'NetworkService'): 'remove_ns_with_cps_and_links'}),
    'remove_component_with_nss_cps_and_links': ('Component', {('has', 'NetworkService'): 'remove_ns_with_cps_and_links'}),
    'remove_ns_with_cps_and_links': ('NetworkService', {('connects', 'ConnectionPoint'): 'remove_cp_and_links'}),
    'remove_network_link': ('Link', {}),
}


def run(prog, rep):
    rep.extra['explanation'] = (
        'All removal paths are analysed as siblings: handle classes that cache their interfaces must filter the cache of '
        'the object whose child was removed (same object on both sides of the assignment, same id as the removal); the '
        'graph-level removers must recurse over exactly the child pairs of the containment schema, iterate what they '
        'collect, apply the two sharing conditions with their exact comparators and collect before deleting; the topology '
        'level must disconnect service-port peers first. The frame condition (nothing else changes) is not decided.')
    rep.rule('R1', 'cache of the right object filtered after a child removal', floor=5)
    rep.rule('R2', 'removal cascade covers exactly the owned schema pairs with the sharing conditions', floor=10)
    rep.rule('R3', 'neighbour lists collected before the element is deleted', floor=4)
    rep.rule('R4', 'service-port peers disconnected before graph-level removal', floor=3)
    rep.rule('R5', 'unpeer removes ports only after establishing that the two services peer (five-element path between ServicePorts)', floor=2)
    check_unpeer_shape(prog, rep, 'R5')
    rep.rule('R6', 'disconnect_interface removes only a port that belongs to the service it is called on', floor=1)
    check_disconnect_ownership(prog, rep, 'R6')

    # ---- R1 ----
    check_cache_after_removal(prog, rep, 'R1')

    # ---- R2 / R3 ----
    apg = prog.cls(APG)
    amod = apg.module
    schema = containment_schema(prog)
    for rname, (start_cls, children) in REMOVERS.items():
        fn = apg.methods.get(rname)
        if fn is None:
            raise AnalysisError(f'ABCPropertyGraph.{rname} vanished')
        fq = f'ABCPropertyGraph.{rname}'
        # the class test names the start class
        fn = inline(prog, apg, fn, exclude=tuple(REMOVERS) + ('remove_cp_and_links',))
        # the class test names the start class: a rejecting test on membership of the folded class label in the node's labels
        tested = False
        for n in walk_no_nested(fn):
            if isinstance(n, ast.If) and any(isinstance(x, ast.Raise) for x in n.body):
                t = canon(n.test)
                if isinstance(t, ast.Compare) and len(t.ops) == 1 and isinstance(t.ops[0], (ast.NotIn, ast.NotEq)) and \
                        schema.fold(t.left, apg) == start_cls:
                    tested = True
        if not tested:
            rep.violation('R2', loc(amod, fn), fq, 'start class not tested', f'{rname} must verify that the element is a {start_cls}')
        # the cascade removes an interface with everything below it: inside the graph-level removers the parent switch of
        # remove_cp_and_links stays at its default (only removing a single sub-interface through its parent turns it off)
        for c in walk_no_nested(fn):
            if isinstance(c, ast.Call) and call_name(c) == 'remove_cp_and_links':
                dpv_ = kwarg(c, 'delete_parent') or (c.args[1] if len(c.args) > 1 else None)
                rep.instance('R2', f'{fq}: remove_cp_and_links(delete_parent={norm(dpv_) if dpv_ is not None else "default"})')
                if dpv_ is not None and not (isinstance(dpv_, ast.Constant) and dpv_.value is True):
                    rep.violation('R2', loc(amod, c), fq, f'remove_cp_and_links(delete_parent={norm(dpv_)})',
                                  f'{rname} removes the interfaces of the element with delete_parent={norm(dpv_)}: the interfaces joined to them '
                                  f'as parent/child (sub-interfaces of a dedicated port) are owned by the removed element too and stay behind')
        got = {}
        for n in walk_no_nested(fn):
            if isinstance(n, ast.Assign) and isinstance(n.value, ast.Call) and call_name(n.value) == 'get_first_neighbor':
                pr = schema.pairs_of_call(n.value, apg)[0]
                got[pr] = n
        own = schema.owned_children_of(start_cls)
        rep.instance('R2', f'{fq}: collects {sorted(got)}; schema children of {start_cls}: {sorted(own)}')
        for pr in sorted(own - set(got)):
            rep.violation('R2', loc(amod, fn), fq, f'owned pair {pr} not collected',
                          f'{start_cls} elements own children through {pr}; {rname} never looks for them, so they stay in the model as orphans')
        for pr in sorted(set(got) - own):
            rep.violation('R2', loc(amod, got[pr]), fq, f'pair {pr} is not owned by {start_cls}',
                          f'{rname} follows {pr}, which is not an ownership pair of {start_cls}: it deletes elements the element does not own')
        for pr, callee in children.items():
            if pr not in got:
                continue
            var = got[pr].targets[0].id
            loops = [l for l in walk_no_nested(fn) if isinstance(l, ast.For) and ast.unparse(l.iter) == var]
            rec = [c for l in loops for c in ast.walk(l) if isinstance(c, ast.Call) and call_name(c) == callee]
            rep.instance('R2', f'{fq}: {pr} -> for each: {callee}')
            if not loops or not rec:
                rep.violation('R2', loc(amod, got[pr]), fq, f'{pr} children not all removed with {callee}',
                              f'every {pr[1]} owned by the element must be removed with {callee}')
        # R3: collection precedes the deletion of the element itself
        dels = [c for c in walk_no_nested(fn) if isinstance(c, ast.Call) and call_name(c) == 'delete_node' and
                ast.unparse(kwarg(c, 'node_id') or ast.Constant(None)) == 'node_id']
        rep.instance('R3', f'{fq}: delete at line {dels[0].lineno if dels else None}; collections at {[n.lineno for n in got.values()]}')
        if not dels:
            rep.violation('R3', loc(amod, fn), fq, 'element itself not deleted', f'{rname} does not delete the element')
        for pr, n in got.items():
            if dels and n.lineno > dels[0].lineno:
                rep.violation('R3', loc(amod, n), fq, f'{pr} collected after the element was deleted',
                              'once the element is deleted its neighbours can no longer be found: the owned children stay in the model')
    check_cp_remover(prog, rep, 'R2')
    # sub-interface removal keeps the parent
    iface = prog.cls('fim.user.interface:Interface')
    rci = iface.methods.get('remove_child_interface')
    # ... and first disconnects the sub-interface from the service it is connected to (the service-side port goes with it)
    if rci is not None:
        rcfg = CFG(rci)
        rdom = rcfg.dominators()
        rm_ = [c for c in walk_no_nested(rci) if isinstance(c, ast.Call) and call_name(c) == 'remove_cp_and_links']
        disc_ = [c for c in walk_no_nested(rci) if isinstance(c, ast.Call) and call_name(c) == 'disconnect_interface']
        peers_ = [c for c in walk_no_nested(rci) if isinstance(c, ast.Call) and call_name(c) == 'get_peers' and
                  any(isinstance(x, ast.Attribute) and x.attr == 'ServicePort' for x in ast.walk(c))]
        okd = False
        if rm_ and disc_ and peers_:
            pn_ = flow.node_of(rcfg, peers_[0])
            rn_ = flow.node_of(rcfg, rm_[0])
            dn_ = flow.node_of(rcfg, disc_[0])
            # the peer query runs on every path to the removal, the disconnect precedes the removal, and what is disconnected
            # is the handle whose peers were queried
            same_handle = disc_[0].args and ast.unparse(disc_[0].args[0]) == ast.unparse(peers_[0].func.value)
            okd = pn_ is not None and rn_ is not None and dn_ is not None and pn_.id in rdom.get(rn_.id, set()) and \
                rcfg.paths_avoiding(dn_, rn_, set()) and not rcfg.paths_avoiding(rn_, dn_, set()) and bool(same_handle)
        rep.instance('R4', f'Interface.remove_child_interface: sub-interface disconnected from its service before the removal: {okd}')
        if not okd:
            rep.violation('R4', loc(iface.module, rci), 'Interface.remove_child_interface', 'sub-interface not disconnected before the removal',
                          'a sub-interface that is connected to a service is removed together with its link, but the service-side port created '
                          'for it stays in the service without a peer: the peering artefacts of the removed element must go with it')
    check_child_removal_keeps_parent(prog, rep, 'R2')
    fnd = [c for c in walk_no_nested(rci) if isinstance(c, ast.Call) and call_name(c) == 'find_child_connection_point_by_name']
    if not fnd or ast.unparse(kwarg(fnd[0], 'parent_node_id') or ast.Constant(None)) != 'self.node_id':
        rep.violation('R2', loc(iface.module, rci), 'Interface.remove_child_interface', 'child not looked up under this interface', 'the child must be found among the children of this interface')

    # a slice-wide service that peers with other services: the ports those services hold for it are removed with it
    topo_ = prog.cls('fim.user.topology:Topology')
    trn = topo_.methods.get('remove_network_service')
    if trn is None:
        raise AnalysisError('Topology.remove_network_service vanished')
    trn_i = inline(prog, topo_, trn)
    tcfg = CFG(trn_i)
    rm_ns = [c for c in walk_no_nested(trn_i) if isinstance(c, ast.Call) and call_name(c) == 'remove_ns_with_cps_and_links']
    peer_loops = []
    for l in [n for n in walk_no_nested(trn_i) if isinstance(n, ast.For)]:
        gp = [c for c in ast.walk(l) if isinstance(c, ast.Call) and call_name(c) == 'get_peers' and any(isinstance(x, ast.Attribute) and x.attr == 'ServicePort' for x in ast.walk(c))]
        rmcp = [c for c in ast.walk(l) if isinstance(c, ast.Call) and call_name(c) in ('remove_cp_and_links', 'unpeer', 'remove_interface')]
        if gp and rmcp:
            peer_loops.append(l)
    okp = False
    if rm_ns and peer_loops:
        hn = [nd for nd in tcfg.nodes if nd.kind == 'test' and nd.tag == 'for' and nd.ast is peer_loops[0]]
        rn = flow.node_of(tcfg, rm_ns[0])
        okp = bool(hn) and rn is not None and hn[0].id in tcfg.dominators().get(rn.id, set())
    rep.instance('R4', f'Topology.remove_network_service: peering ports held by other services are removed first: {okp}')
    if not okp:
        rep.violation('R4', loc(topo_.module, trn), 'Topology.remove_network_service', 'peering ports of other services not removed',
                      'a service that was peered with another one (peer()) is removed with its own peering port and the link, but the port the '
                      'other service holds for it stays there without a link: the peering artefacts of the removed element must go with it')
    # ---- R4 ----
    sites = [('fim.user.topology:Topology', 'remove_node', 'remove_network_node_with_components_nss_cps_and_links', ('nodes',)),
             ('fim.user.topology:Topology', 'remove_facility', 'remove_network_node_with_components_nss_cps_and_links', ('facilities', 'nodes')),
             ('fim.user.node:Node', 'remove_component', 'remove_component_with_nss_cps_and_links', ('components',)),
             ('fim.user.node:Node', 'remove_network_service', 'remove_ns_with_cps_and_links', ('network_services',))]
    for spec, name, remover, colls in sites:
        cls = prog.cls(spec)
        fn0 = cls.methods.get(name)
        if fn0 is None:
            raise AnalysisError(f'{cls.qual}.{name} vanished')
        fn = inline(prog, cls, fn0)
        env = local_env(fn)
        fq = f'{cls.name}.{name}'
        nparam = [p_ for p_ in func_params(fn) if p_ != 'self'][0]
        rm = [c for c in walk_no_nested(fn) if isinstance(c, ast.Call) and call_name(c) == remover]

        def own_interfaces(it):
            """is `it` the interface list of exactly the element named by the parameter?  self.<coll>[<name>].interface_list"""
            e = expand(it, env)
            if isinstance(e, ast.Call) and isinstance(e.func, ast.Name) and e.func.id in ('list', 'tuple') and len(e.args) == 1:
                e = e.args[0]
            if not (isinstance(e, ast.Attribute) and e.attr in ('interface_list', 'interfaces')):
                return None
            base = e.value
            if e.attr == 'interfaces' and isinstance(base, ast.Call):
                return None
            if isinstance(base, ast.Subscript) and isinstance(base.slice, ast.Name) and base.slice.id == nparam and \
                    isinstance(base.value, ast.Attribute) and isinstance(base.value.value, ast.Name) and base.value.value.id == 'self':
                return base.value.attr
            if isinstance(base, ast.Call) and call_name(base) in ('_get_node_by_name', 'get_node_by_name') and \
                    any(isinstance(a_, ast.Name) and a_.id == nparam for a_ in list(base.args) + [k.value for k in base.keywords]):
                return 'nodes'
            return '?' + ast.unparse(base)
        def with_children(it):
            """(collection, True) when ``it`` ranges over the interfaces of the element AND over their sub-interfaces:
            [x for top in <own interfaces> for x in (top,) + tuple(top.interface_list)] and equivalent forms"""
            e = expand(it, env)
            if isinstance(e, ast.Call) and isinstance(e.func, ast.Name) and e.func.id in ('list', 'tuple') and len(e.args) == 1 and not e.keywords:
                e = e.args[0]
            # chain.from_iterable(<E> for top in <X>) ranges over the same elements as (x for top in <X> for x in <E>)
            if isinstance(e, ast.Call) and (attr_chain(e.func) or [None])[-2:] == ['chain', 'from_iterable'] and len(e.args) == 1 and \
                    isinstance(e.args[0], (ast.ListComp, ast.GeneratorExp)) and len(e.args[0].generators) == 1:
                inner = e.args[0]
                e = ast.GeneratorExp(elt=ast.Name(id='__flat', ctx=ast.Load()),
                                     generators=[inner.generators[0],
                                                 ast.comprehension(target=ast.Name(id='__flat', ctx=ast.Store()), iter=inner.elt, ifs=[], is_async=0)])
                for n_ in ast.walk(e):
                    for ch_ in ast.iter_child_nodes(n_):
                        ch_._parent = n_
            if isinstance(e, (ast.ListComp, ast.GeneratorExp)) and len(e.generators) == 2 and isinstance(e.generators[0].target, ast.Name):
                base_ = own_interfaces(e.generators[0].iter)
                top_ = e.generators[0].target.id
                second = e.generators[1].iter
                has_top = any(isinstance(x, ast.Name) and x.id == top_ and not isinstance(getattr(x, '_parent', None), ast.Attribute) for x in ast.walk(second)) or \
                    any(isinstance(x, (ast.Tuple, ast.List)) and any(isinstance(y, ast.Name) and y.id == top_ for y in x.elts) for x in ast.walk(second))
                has_kids = any(isinstance(x, ast.Attribute) and x.attr in ('interface_list', 'interfaces') and isinstance(x.value, ast.Name) and x.value.id == top_
                               for x in ast.walk(second))
                elt_ok = isinstance(e.elt, ast.Name) and isinstance(e.generators[1].target, ast.Name) and e.elt.id == e.generators[1].target.id
                if base_ is not None and has_top and has_kids and elt_ok and not e.generators[0].ifs and not e.generators[1].ifs:
                    return base_, True
            return None
        child_cover = {}
        loops = []
        for l in [l_ for l_ in walk_no_nested(fn) if isinstance(l_, ast.For) and isinstance(l_.target, ast.Name)]:
            wc = with_children(l.iter)
            if wc is not None:
                loops.append((l, wc[0]))
                child_cover[id(l)] = True
            else:
                loops.append((l, own_interfaces(l.iter)))
        loops = [(l, w) for l, w in loops if w is not None and any(isinstance(c, ast.Call) and call_name(c) == 'disconnect_interface' for c in ast.walk(l))]
        rep.instance('R4', f'{fq}: disconnect loop over {norm(loops[0][0].iter) if loops else None} ({loops[0][1] if loops else None}); removal {remover}={len(rm)}')
        # the loop visits every interface: it is never left by break / return (an unconnected interface is skipped, not the rest)
        for l_, _w in loops:
            for x_ in ast.walk(l_):
                if isinstance(x_, (ast.Break, ast.Return)) and not any(isinstance(p_, (ast.For, ast.While)) and p_ is not l_ for p_ in _anc8(x_, l_)):
                    rep.violation('R4', loc(cls.module, x_), fq, f'{type(x_).__name__.lower()} inside the disconnect loop',
                                  f'the loop that disconnects the interfaces of the element from their services is left at the first interface '
                                  f'that needs nothing done (e.g. an unconnected port): the interfaces after it are not disconnected, the element is '
                                  f'removed, and the service ports that faced them stay in the model without a peer')
        ok = bool(rm) and bool(loops)
        why = 'peers not disconnected before the removal'
        if ok:
            l, which = loops[0]
            v = l.target.id
            if which not in colls:
                ok = False
                why = f'the disconnect loop ranges over {norm(l.iter, 60)}, not over the interfaces of the element being removed'
            peers = {}
            for n_ in ast.walk(l):
                if isinstance(n_, ast.Assign) and isinstance(n_.value, ast.Call) and call_name(n_.value) == 'get_peers' and \
                        isinstance(n_.value.func.value, ast.Name) and n_.value.func.value.id == v and isinstance(n_.targets[0], ast.Name) and \
                        any(isinstance(x, ast.Attribute) and x.attr == 'ServicePort' for x in ast.walk(n_.value)):
                    peers[n_.targets[0].id] = n_
            disc = [c for c in ast.walk(l) if isinstance(c, ast.Call) and call_name(c) == 'disconnect_interface']
            good = False
            for d in disc:
                a0 = d.args[0] if d.args else (d.keywords[0].value if d.keywords else None)
                recv = d.func.value
                lenv = {k: val for k, val in local_env(l).items() if k not in peers}
                recv = expand(recv, lenv)
                if isinstance(a0, ast.Name) and a0.id == v and isinstance(recv, ast.Call) and call_name(recv) == 'get_parent_element' and recv.args:
                    r0 = expand(recv.args[0], {k: val for k, val in lenv.items() if k not in peers})
                    if isinstance(r0, ast.Subscript) and isinstance(r0.value, ast.Name) and r0.value.id in peers and \
                            isinstance(r0.slice, ast.Constant) and r0.slice.value == 0:
                        good = True
            if ok and not good:
                ok = False
                why = 'the interface is not disconnected through the service that owns its ServicePort peer'
            if ok and not child_cover.get(id(l)):
                ok = False
                why = ('the disconnect loop covers the interfaces of the element but not their sub-interfaces: a sub-interface that is connected '
                       'to a service keeps its service-side port (without a link) after the removal')
            if ok:
                cfg = CFG(fn)
                dom = cfg.dominators()
                head = [nd for nd in cfg.nodes if nd.kind == 'test' and nd.tag == 'for' and nd.ast is l]
                rn = flow.node_of(cfg, rm[0])
                if not head or rn is None or rn.id not in dom or head[0].id not in dom[rn.id]:
                    ok = False
                    why = 'the removal is reachable without running the disconnect loop'
        if not ok:
            rep.violation('R4', loc(cls.module, fn), fq, why,
                          f'{fq} must, for every interface of the element, disconnect it from the service that owns its ServicePort '
                          f'peer before removing the element; otherwise the service-side port and link stay behind'
                          if 'not over' not in why else
                          f'{fq}: {why}: interfaces that belong to other parts of the node are disconnected from their services as well, '
                          f'although only this element is being removed')
    # disconnect_interface removes exactly the peer it found
    nsc = prog.cls('fim.user.network_service:NetworkService')
    di = inline(prog, nsc, nsc.methods['disconnect_interface'])
    denv = local_env(di)
    iparam = [p_ for p_ in func_params(di) if p_ != 'self'][0]
    for c in walk_no_nested(di):
        if isinstance(c, ast.Call) and call_name(c) == 'remove_cp_and_links':
            rid = kwarg(c, 'node_id') or (c.args[0] if c.args else None)
            e = expand(rid, denv)
            good = isinstance(e, ast.Attribute) and e.attr == 'node_id' and isinstance(e.value, ast.Subscript) and \
                isinstance(e.value.slice, ast.Constant) and e.value.slice.value == 0 and isinstance(e.value.value, ast.Call) and \
                call_name(e.value.value) == 'get_peers' and isinstance(e.value.value.func.value, ast.Name) and e.value.value.func.value.id == iparam
            rep.instance('R4', f'NetworkService.disconnect_interface removes {norm(e, 70)}')
            if not good:
                rep.violation('R4', loc(nsc.module, c), 'NetworkService.disconnect_interface', f'removes {norm(rid, 60)} rather than the peer found for the interface',
                              'disconnect_interface must delete exactly the ServicePort that get_peers() reports for the given interface (by its node id); '
                              'a port looked up some other way (e.g. by name) can be a different port of the service, whose peering is then '
                              'deleted while the requested interface stays connected')
    # remove_switch delegates to remove_node
    topo = prog.cls('fim.user.topology:Topology')
    rs = topo.methods.get('remove_switch')
    rep.instance('R4', 'Topology.remove_switch delegates to remove_node')
    if rs is None or not any(isinstance(c, ast.Call) and call_name(c) == 'remove_node' for c in walk_no_nested(rs)):
        rep.violation('R4', loc(topo.module, rs or topo.node), 'Topology.remove_switch', 'does not delegate to remove_node', 'switch removal must disconnect peers like node removal')


def check_cache_after_removal(prog, rep, rule):
    """After a child interface is removed from the model through a handle, the interface cache of that same handle is
    rebuilt from itself without the removed id (shared with C07: the views must list exactly what the model holds)."""
    for spec in ('fim.user.network_service:NetworkService', 'fim.user.interface:Interface'):
        cls = prog.cls(spec)
        mod = cls.module
        for name, fn in cls.methods.items():
            removals = [c for c in walk_no_nested(fn) if isinstance(c, ast.Call) and call_name(c) == 'remove_cp_and_links']
            if name == '__init__':
                continue
            for rc in removals:
                ch = attr_chain(rc.func)
                owner = ch[0] if ch else None
                rid = kwarg(rc, 'node_id') or (rc.args[0] if rc.args else None)
                fq = f'{cls.name}.{name}'
                rid_txt = ast.unparse(rid) if rid is not None else None
                # cache filters in this function
                filt = []
                for n in walk_no_nested(fn):
                    if isinstance(n, ast.Assign) and isinstance(n.targets[0], ast.Attribute) and n.targets[0].attr == '_interfaces':
                        filt.append(n)
                ok = False
                detail = None
                for a in filt:
                    tgt_owner = ast.unparse(a.targets[0].value)
                    srcs = [ast.unparse(x.value) for x in ast.walk(a.value) if isinstance(x, ast.Attribute) and x.attr == '_interfaces']
                    ids = [ast.unparse(x.comparators[0]) for x in ast.walk(a.value) if isinstance(x, ast.Compare) and isinstance(x.ops[0], ast.NotEq)
                           and 'node_id' in ast.unparse(x.left)]
                    if tgt_owner == owner and ids and ids[0] == rid_txt:
                        detail = (tgt_owner, srcs, a)
                        if srcs == [owner] and a.lineno > rc.lineno:
                            ok = True
                if not ok and detail is None and _never_cached(fn, rc, rid):
                    rep.instance(rule, f'{fq}: removal of {rid_txt}: the element was created here and is not yet on any handle cache when it is removed')
                    continue
                rep.instance(rule, f'{fq}: removal of {rid_txt} on {owner}: cache filter {"ok" if ok else ("wrong" if detail else "missing")}')
                if ok:
                    continue
                if detail is None:
                    rep.violation(rule, loc(mod, rc), fq, f'{norm(rc, 90)} without a filter of {owner}._interfaces',
                                  f'{fq} removes the child {rid_txt} of `{owner}` from the model but never removes it from '
                                  f'{owner}._interfaces: the handle keeps reporting the removed interface (and refuses to reuse its name)')
                else:
                    tgt_owner, srcs, a = detail
                    rep.violation(rule, loc(mod, a), fq, norm(a, 120),
                                  f'{tgt_owner}._interfaces is rebuilt from {srcs} instead of from {tgt_owner}._interfaces: the handle '
                                  f'ends up with another object\'s interfaces')



def check_child_removal_keeps_parent(prog, rep, rule):
    """Removing a sub-interface never takes the parent port with it: Interface.remove_child_interface calls the connection
    point remover with the ``delete_parent`` switch off (explicitly - its default is on, for whole-port removal). Shared
    with C07 (a parent port deleted behind its service port leaves that service port without a peer)."""
    iface = prog.cls('fim.user.interface:Interface')
    rci = iface.methods.get('remove_child_interface')
    if rci is None:
        raise AnalysisError('Interface.remove_child_interface vanished')
    rci = inline(prog, iface, rci)
    env = local_env(rci)
    calls = [c for c in walk_no_nested(rci) if isinstance(c, ast.Call) and call_name(c) == 'remove_cp_and_links']
    rep.instance(rule, f'Interface.remove_child_interface: {norm(calls[0], 100) if calls else None}')
    asm = prog.cls('fim.graph.slices.abc_asm:ABCASMPropertyGraph')
    _, target = asm.find_method('remove_cp_and_links')
    params = [a.arg for a in target.args.args if a.arg != 'self'] if target is not None else ['node_id', 'delete_parent']
    for c in calls or [None]:
        dpv = None
        if c is not None:
            dpv = kwarg(c, 'delete_parent')
            if dpv is None and 'delete_parent' in params and len(c.args) > params.index('delete_parent'):
                dpv = c.args[params.index('delete_parent')]
            if dpv is not None:
                dpv = expand(dpv, env)
        if c is None or dpv is None or not (isinstance(dpv, ast.Constant) and dpv.value is False):
            rep.violation(rule, loc(iface.module, c if c is not None else rci), 'Interface.remove_child_interface', 'delete_parent=False not passed',
                          'removing the last sub-interface of a dedicated port also deletes the port itself (which belongs to the NIC) and the '
                          'links attached to it; a service port that peered with the parent port is left without a peer')


def check_unpeer_shape(prog, rep, rule):
    """NetworkService.unpeer removes two ports only after it has established that the two services peer: the path between them
    is exactly service - port - link - port - service (five elements) and both ports are ServicePorts. Any other path (through a
    node or a third service both are connected to) must be refused - otherwise the ports that connect the services to that
    node are deleted and the ports facing them are left without a peer. Shared with C07."""
    from ..normalize import resolve_helper
    uns = prog.cls('fim.user.network_service:NetworkService')
    fn0 = uns.methods.get('unpeer')
    if fn0 is None:
        raise AnalysisError('NetworkService.unpeer vanished')
    fn = inline(prog, uns, fn0)
    env = local_env(fn)
    paths = [a for a in walk_no_nested(fn) if isinstance(a, ast.Assign) and isinstance(a.value, ast.Call) and call_name(a.value) == 'get_nodes_on_shortest_path']
    rems = [c for c in walk_no_nested(fn) if isinstance(c, ast.Call) and call_name(c) == 'remove_cp_and_links']
    if not paths or len(rems) < 2:
        raise AnalysisError('NetworkService.unpeer: path lookup / port removals not recognised')
    ptxt = ctext(paths[0].value)

    def mentions_service_port(e, depth=0):
        if any(isinstance(x, ast.Attribute) and x.attr == 'ServicePort' for x in ast.walk(e)):
            return True
        if depth < 2:
            for c in ast.walk(e):
                if isinstance(c, ast.Call):
                    r = resolve_helper(prog, uns, uns.module, c)
                    if r is not None and any(mentions_service_port(st, depth + 1) for st in r[0].body):
                        return True
        return False
    for r_ in rems:
        arg = kwarg(r_, 'node_id') or (r_.args[0] if r_.args else None)
        atxt = ctext(expand(arg, env)) if arg is not None else None
        _, conds = _enclosing(r_, fn)
        cjs = [cj for c_ in conds for cj in conjuncts(canon(expand(c_, env)))]
        len5 = any(isinstance(cj, ast.Compare) and len(cj.ops) == 1 and isinstance(cj.ops[0], ast.Eq) and
                   any(isinstance(x, ast.Call) and isinstance(x.func, ast.Name) and x.func.id == 'len' and x.args and ctext(x.args[0]) == ptxt
                       for x in (cj.left, cj.comparators[0])) and
                   any(isinstance(x, ast.Constant) and x.value == 5 for x in (cj.left, cj.comparators[0])) for cj in cjs)
        # the removed element is established to be a port of one of the two services: its type is tested, or it is found among
        # the connection points of the service
        owned = any(atxt is not None and atxt in ctext(cj) and
                    any(isinstance(x, ast.Call) and call_name(x) in ('get_all_ns_or_link_connection_points', 'get_parent', 'find_connection_point_by_name')
                        for x in ast.walk(cj)) for cj in cjs)
        typed = owned or any(atxt is not None and atxt in ctext(cj) and mentions_service_port(cj) for cj in cjs)
        rep.instance(rule, f'NetworkService.unpeer: {norm(r_, 70)} only on a five-element path: {len5}; removed port established to be a port of the service: {typed}')
        if not len5 or not typed:
            rep.violation(rule, loc(uns.module, r_), 'NetworkService.unpeer', f'{norm(r_, 70)} without establishing that the services peer',
                          'unpeer takes whatever shortest path joins the two services and deletes its second and second-to-last element; for '
                          'services that do not peer but are both connected to one node (or both peer with a third service) these are the '
                          'ports that connect them to that node / service: the ports are deleted with their links and the ports facing them '
                          'are left without a peer, instead of "do not peer" being raised')


def _anc8(node, stop):
    out = []
    p = getattr(node, '_parent', None)
    while p is not None and p is not stop:
        out.append(p)
        p = getattr(p, '_parent', None)
    return out


def check_disconnect_ownership(prog, rep, rule):
    """NetworkService.disconnect_interface removes a port only after it has established that the port is one of THIS service's:
    the removal is guarded by a test that relates the port to ``self.node_id`` (membership in the service's own connection
    points, or its parent being this service)."""
    uns = prog.cls('fim.user.network_service:NetworkService')
    fn0 = uns.methods.get('disconnect_interface')
    if fn0 is None:
        raise AnalysisError('NetworkService.disconnect_interface vanished')
    fn = inline(prog, uns, fn0)
    env = local_env(fn)
    rems = [c for c in walk_no_nested(fn) if isinstance(c, ast.Call) and call_name(c) == 'remove_cp_and_links']
    if not rems:
        raise AnalysisError('NetworkService.disconnect_interface: port removal not found')
    for r_ in rems:
        arg = kwarg(r_, 'node_id') or (r_.args[0] if r_.args else None)
        roots = {x.id for x in ast.walk(arg) if isinstance(x, ast.Name)} if arg is not None else set()
        _, conds = _enclosing(r_, fn)
        owned = False
        for c_ in conds:
            for cj in conjuncts(canon(c_)):
                names = {x.id for x in ast.walk(cj) if isinstance(x, ast.Name)}
                txt = ctext(expand(cj, env))
                if (names & roots or any(ctext(expand(ast.Name(id=n_, ctx=ast.Load()), env)) in txt for n_ in roots)) and 'self.node_id' in txt:
                    owned = True
        # the candidates may also have been filtered by ownership before one is picked
        if not owned:
            for n_ in roots:
                e_ = env.get(n_)
                if e_ is not None and 'self.node_id' in ctext(expand(e_, env)):
                    owned = True
        rep.instance(rule, f'NetworkService.disconnect_interface: {norm(r_, 70)} only for a port of this service: {owned}')
        if not owned:
            rep.violation(rule, loc(uns.module, r_), 'NetworkService.disconnect_interface', f'{norm(r_, 70)} whatever service the port belongs to',
                          'disconnect_interface removes the peer of the given interface without checking that this peer is a port of THIS service: '
                          'called on another service (or for an interface joined to another node by a plain link) it deletes that other '
                          "service's port and link - or the other node's interface - and leaves this service untouched")


def check_cp_remover(prog, rep, rule):
    """remove_cp_and_links: collects the four neighbour lists through schema pairs, iterates all of them and applies the two
    sharing conditions with their exact comparators (shared with C07: removal must not orphan interfaces).
    Roles are assigned by data flow (what each lookup starts from), not by variable names; helpers are inlined."""
    apg = prog.cls(APG)
    amod = apg.module
    schema = containment_schema(prog)
    rc0 = apg.methods.get('remove_cp_and_links')
    if rc0 is None:
        raise AnalysisError('remove_cp_and_links vanished')
    rc = name_calls(loopify(inline(prog, apg, rc0)), {'get_first_neighbor'})
    fq = 'ABCPropertyGraph.remove_cp_and_links'
    params = func_params(rc)
    idp = [p_ for p_ in params if p_ not in ('self', 'delete_parent')]
    if not idp:
        raise AnalysisError(f'{fq}: node id parameter not found')
    idp = idp[0]
    # alias groups of plain name-to-name assignments
    alias = {}

    def find(x):
        while alias.get(x, x) != x:
            x = alias[x]
        return x
    for n in walk_no_nested(rc):
        if isinstance(n, ast.Assign) and len(n.targets) == 1 and isinstance(n.targets[0], ast.Name) and isinstance(n.value, ast.Name):
            alias[find(n.targets[0].id)] = find(n.value.id)
    same = lambda x, y: find(x) == find(y)
    loops = [l for l in walk_no_nested(rc) if isinstance(l, ast.For) and isinstance(l.target, ast.Name)]

    def loop_source(var):
        """name of the collection a loop variable ranges over (None if `var` is not a loop variable)"""
        for l in loops:
            if l.target.id == var:
                names = [x.id for x in ast.walk(l.iter) if isinstance(x, ast.Name)]
                return names[0] if names else None
        return None
    lookups = []
    for n in walk_no_nested(rc):
        if isinstance(n, ast.Assign) and isinstance(n.value, ast.Call) and call_name(n.value) == 'get_first_neighbor' and isinstance(n.targets[0], ast.Name):
            src = kwarg(n.value, 'node_id') or (n.value.args[0] if n.value.args else None)
            lookups.append((n.targets[0].id, n, schema.pairs_of_call(n.value, apg)[0], src.id if isinstance(src, ast.Name) else None))
    roles = {}
    for var, n, pr, src in lookups:
        if src is not None and same(src, idp) and pr == ('connects', 'ConnectionPoint'):
            roles['parents'] = (var, n, pr)
    for var, n, pr, src in lookups:
        ls = loop_source(src) if src else None
        if ls is None:
            continue
        if 'parents' in roles and same(ls, roles['parents'][0]) and pr == ('connects', 'ConnectionPoint'):
            roles['children'] = (var, n, pr)
        elif pr == ('connects', 'Link'):
            roles['links'] = (var, n, pr)
    for var, n, pr, src in lookups:
        ls = loop_source(src) if src else None
        if ls is not None and 'links' in roles and same(ls, roles['links'][0]) and pr == ('connects', 'ConnectionPoint'):
            roles['connected_interfaces'] = (var, n, pr)
    rep.instance(rule, f'{fq}: neighbour lists {[(k, v[0], v[2]) for k, v in roles.items()]} of {len(lookups)} lookups')
    want = {'parents': ('connects', 'ConnectionPoint'), 'children': ('connects', 'ConnectionPoint'), 'links': ('connects', 'Link'),
            'connected_interfaces': ('connects', 'ConnectionPoint')}
    for role, pr in want.items():
        if role not in roles:
            rep.violation(rule, loc(amod, rc), fq, f'{role} is not collected through {pr}', f'remove_cp_and_links must look at {role} through {pr}')
    for var, n, pr, src in lookups:
        if not any(v[1] is n for v in roles.values()):
            rep.violation(rule, loc(amod, n), fq, f'lookup through {pr} has no role in the removal', f'remove_cp_and_links follows {pr} from an unexpected element')
    # every collected list is iterated (or measured), never only indexed

    def uses(var):
        iterated = any(isinstance(l, ast.For) and any(isinstance(x, ast.Name) and same(x.id, var) for x in ast.walk(l.iter)) for l in ast.walk(rc))
        measured = any(isinstance(c, ast.Call) and call_name(c) == 'len' and c.args and isinstance(c.args[0], ast.Name) and same(c.args[0].id, var) for c in ast.walk(rc))
        indexed = [s_ for s_ in ast.walk(rc) if isinstance(s_, ast.Subscript) and isinstance(s_.value, ast.Name) and same(s_.value.id, var)]
        return iterated, measured, indexed
    for role, (var, n, pr) in roles.items():
        iterated, measured, indexed = uses(var)
        rep.instance(rule, f'{fq}: {role}: iterated={iterated} measured={measured} indexed={len(indexed)}')
        if not iterated and not measured:
            rep.violation(rule, loc(amod, n), fq, f'{role} is collected but only {"indexed" if indexed else "ignored"}',
                          f'only one element of {role} is handled: with several (e.g. a dedicated port with two or more sub-interfaces) '
                          f'the others stay in the model without an owner')
        if indexed and role in ('parents', 'links'):
            rep.violation(rule, loc(amod, indexed[0]), fq, f'only one element of {role} is used instead of iterating them',
                          f'only the first element of {role} is handled')
    # the two sharing conditions

    def len_eq(cj, var, k):
        return isinstance(cj, ast.Compare) and len(cj.ops) == 1 and isinstance(cj.ops[0], ast.Eq) and isinstance(cj.left, ast.Call) and call_name(cj.left) == 'len' \
            and cj.left.args and isinstance(cj.left.args[0], ast.Name) and same(cj.left.args[0].id, var) and isinstance(cj.comparators[0], ast.Constant) \
            and cj.comparators[0].value == k

    def doom_conditions(role):
        """conjuncts under which an element of the collection ``role`` is put on a deletion set (enclosing tests and guard
        clauses of the ``<set>.add(<loop variable over role>)`` statement)"""
        if role not in roles:
            return None, None
        for c in ast.walk(rc):
            if isinstance(c, ast.Call) and call_name(c) == 'add' and c.args and isinstance(c.args[0], ast.Name):
                ls = loop_source(c.args[0].id)
                if ls is not None and same(ls, roles[role][0]):
                    _, cs_ = _enclosing(c, rc)
                    return c, [cj for c_ in cs_ for cj in conjuncts(canon(c_))]
        return None, None
    ch, ch_cjs = doom_conditions('parents')
    lk, lk_cjs = doom_conditions('links')
    rep.instance(rule, f'{fq}: sharing conditions {[[norm(c, 40) for c in x] for x in (ch_cjs, lk_cjs) if x is not None]}')
    okc = False
    if ch_cjs is not None and 'children' in roles:
        okc = len(ch_cjs) == 2 and any(len_eq(c, roles['children'][0], 1) for c in ch_cjs) and any(isinstance(c, ast.Name) and c.id == 'delete_parent' for c in ch_cjs)
    if not okc:
        rep.violation(rule, loc(amod, ch or rc), fq, f'parent condition {[norm(c, 40) for c in ch_cjs] if ch_cjs is not None else None}',
                      'a parent interface goes with its child only when that child is its only one and the caller allows it')
    okl = False
    if lk_cjs is not None and 'connected_interfaces' in roles:
        okl = len(lk_cjs) == 1 and len_eq(lk_cjs[0], roles['connected_interfaces'][0], 2)
    if not okl:
        rep.violation(rule, loc(amod, lk or rc), fq, f'link condition {[norm(c, 40) for c in lk_cjs] if lk_cjs is not None else None}',
                      'a link goes with a removed interface only when exactly one other interface is attached to it; a link '
                      'shared by three or more interfaces must survive the removal of one end')
    dp = [a for a in rc0.args.args if a.arg == 'delete_parent']
    dflt = rc0.args.defaults[-1] if rc0.args.defaults else None
    if not dp or not (isinstance(dflt, ast.Constant) and dflt.value is True):
        rep.violation(rule, loc(amod, rc), fq, 'delete_parent parameter', 'remove_cp_and_links must keep its delete_parent switch (default True)')
    # the two collected sets are deleted
    dels = [c for c in ast.walk(rc) if isinstance(c, ast.Call) and call_name(c) == 'delete_node']
    deleted_sets = set()
    for c in dels:
        for l in _ancestors_of(c, rc):
            if isinstance(l, ast.For):
                deleted_sets |= {find(x.id) for x in ast.walk(l.iter) if isinstance(x, ast.Name)}
    need = []
    for c in ast.walk(rc):
        if isinstance(c, ast.Call) and call_name(c) == 'add' and isinstance(c.func.value, ast.Name) and c.args and isinstance(c.args[0], ast.Name):
            need.append(find(c.func.value.id))
    if not dels or not need or not set(need) <= deleted_sets:
        rep.violation(rule, loc(amod, rc), fq, 'collected interfaces and links not deleted', 'the collected sets must be deleted')


def _ancestors_of(node, fn):
    p = getattr(node, '_parent', None)
    while p is not None and p is not fn:
        yield p
        p = getattr(p, '_parent', None)


def _never_cached(fn, rc, rid):
    """The removed id is `<X>.node_id` of an element X constructed in this function (etype NEW) that is put on a handle cache
    only by an explicit `._interfaces.append(X)` which cannot have run before the removal (no CFG path append -> removal)."""
    if not (isinstance(rid, ast.Attribute) and rid.attr == 'node_id' and isinstance(rid.value, ast.Name)):
        return False
    x = rid.value.id
    created = [n for n in walk_no_nested(fn) if isinstance(n, ast.Assign) and any(isinstance(t, ast.Name) and t.id == x for t in n.targets)
               and isinstance(n.value, ast.Call) and isinstance(n.value.func, ast.Name) and
               any(k.arg == 'etype' and 'NEW' in ast.unparse(k.value) for k in n.value.keywords)]
    others = [n for n in walk_no_nested(fn) if isinstance(n, ast.Assign) and any(isinstance(t, ast.Name) and t.id == x for t in n.targets)]
    if not created or len(others) != len(created):
        return False
    appends = [c for c in walk_no_nested(fn) if isinstance(c, ast.Call) and call_name(c) in ('append', 'add', 'insert', 'extend') and
               any(isinstance(a, ast.Name) and a.id == x for a in ast.walk(c))]
    if not appends:
        return True
    from ..cfg import CFG
    from .. import flow
    cfg = CFG(fn)
    target = flow.node_of(cfg, rc)
    for ap in appends:
        start = flow.node_of(cfg, ap)
        if start is None or target is None:
            return False
        seen, stack = set(), [start]
        while stack:
            n = stack.pop()
            if n.id in seen:
                continue
            seen.add(n.id)
            stack.extend(s_ for s_, _ in n.succ)
        if target.id in seen:
            return False
    return True


UNS = 'fim/user/network_service.py'
AP = 'fim/graph/abc_property_graph.py'
MUTANTS = [
    {'name': 'disconnect-removes-foreign-port', 'file': 'fim/user/network_service.py', 'rule': 'R6',
     'find': "        if peers[0].node_id not in self.topo.graph_model.get_all_ns_or_link_connection_points(link_id=self.node_id):\n            raise TopologyException(f'Interface {interface} is not connected to network service {self.name}')\n",
     'replace': ""},
    {'name': 'unpeer-any-path', 'file': 'fim/user/network_service.py', 'rule': 'R5',
     'find': "        if len(sp) != 5 or \\\n                sp[1] not in self.topo.graph_model.get_all_ns_or_link_connection_points(link_id=self.node_id) or \\\n                sp[-2] not in self.topo.graph_model.get_all_ns_or_link_connection_points(link_id=ns.node_id):",
     'replace': "        if len(sp) == 0:"},
    {'name': 'sub-interfaces-not-disconnected-on-node-removal', 'file': 'fim/user/topology.py', 'rule': 'R4',
     'find': "        for i in [x for top in self.nodes[name].interface_list for x in (top,) + tuple(top.interface_list)]:", 'replace': "        for i in self.nodes[name].interface_list:"},
    {'name': 'child-interface-removed-without-disconnect', 'file': 'fim/user/interface.py', 'rule': 'R4',
     'find': "                self.topo.get_parent_element(peers[0]).disconnect_interface(child)\n", 'replace': "                pass\n"},
    {'name': 'unpeer-filters-from-own-cache', 'file': UNS, 'rule': 'R1',
     'find': 'ns._interfaces = list(filter((lambda x: x.node_id != sp[-2]), ns._interfaces))', 'replace': 'ns._interfaces = list(filter((lambda x: x.node_id != sp[-2]), self._interfaces))'},
    {'name': 'remove-interface-cache-not-updated', 'file': UNS, 'rule': 'R1',
     'find': "        self.topo.graph_model.remove_cp_and_links(node_id=node_id)\n        # remove from interface list as well\n        self._interfaces = list(filter((lambda x: x.node_id != node_id), self._interfaces))\n\n    def peer(",
     'replace': "        self.topo.graph_model.remove_cp_and_links(node_id=node_id)\n\n    def peer("},
    {'name': 'component-remover-skips-services', 'file': AP, 'rule': 'R2',
     'find': '        self.delete_node(node_id=node_id)\n        for ns in network_services:\n            self.remove_ns_with_cps_and_links(node_id=ns)\n', 'replace': '        self.delete_node(node_id=node_id)\n'},
    {'name': 'ns-deleted-before-interfaces-collected', 'file': AP, 'rule': 'R3',
     'find': "        interfaces = self.get_first_neighbor(node_id=node_id, rel=ABCPropertyGraph.REL_CONNECTS,\n                                             node_label=ABCPropertyGraph.CLASS_ConnectionPoint)\n        self.delete_node(node_id=node_id)\n        for iif in interfaces:",
     'replace': "        self.delete_node(node_id=node_id)\n        interfaces = self.get_first_neighbor(node_id=node_id, rel=ABCPropertyGraph.REL_CONNECTS,\n                                             node_label=ABCPropertyGraph.CLASS_ConnectionPoint)\n        for iif in interfaces:"},
    {'name': 'remove-node-without-disconnect', 'file': 'fim/user/topology.py', 'rule': 'R4',
     'find': "        # (sub-interfaces are connected to services on their own)\n        for i in [x for top in self.nodes[name].interface_list for x in (top,) + tuple(top.interface_list)]:\n            # disconnect if connected to a network service\n            peers = i.get_peers(itype=InterfaceType.ServicePort)\n            if peers:\n                if len(peers) == 1:\n                    # disconnect from its parent service\n                    self.get_parent_element(peers[0]).disconnect_interface(i)\n                else:\n                    raise TopologyException(f'Interface {i.name} has more than one peer, this is a model error.')\n\n        self.graph_model.remove_network_node_with_components_nss_cps_and_links(\n            node_id=self._get_node_by_name(name=name).node_id)\n\n    def add_facility",
     'replace': "        self.graph_model.remove_network_node_with_components_nss_cps_and_links(\n            node_id=self._get_node_by_name(name=name).node_id)\n\n    def add_facility"},
]
TWINS = [
    {'name': 'cache-filter-by-comprehension', 'file': UNS,
     'find': '        self._interfaces = list(filter((lambda x: x.node_id != peers[0].node_id), self._interfaces))', 'replace': '        self._interfaces = [x for x in self._interfaces if x.node_id != peers[0].node_id]'},
]
