"""
C04 -- graphs sharing the in-memory store are isolated; clones are independent.

R1 every node enumeration (nxq.search_nodes) over the store is scoped by a GraphID conjunct on the right id
R2 every write through the store graph addresses nodes by an internal id obtained from a scoped lookup; the store
   graph is handed to no bulk-mutating function
R3 allocators only advance by the inserted count; nothing is inserted before an import is validated
R4 clone = extract (a copy) -> add under the new id
R5 whole-store operations are confined to the storage classes; a graph is deleted through a scoped query
R6 re-import: the one-graph-per-store flavour may skip an import only when a non-empty graph is stored under the id
   (its table is a defaultdict and del_graph keeps the key, so membership alone does not mean "imported")
"""
import ast

from ..core import AnalysisError, norm, loc, walk_no_nested, attr_chain, call_name, kwarg, func_params
from ..normalize import local_env, expand, ctext, canon, conjuncts, negate, _enclosing
from .. import nxgraph as nxg
from .. import flow



def _anc(node, fn):
    out = []
    p = getattr(node, '_parent', None)
    while p is not None and p is not fn:
        out.append(p)
        p = getattr(p, '_parent', None)
    return out


def run(prog, rep):
    rep.extra['explanation'] = (
        'All queries over the shared store are parsed and required to carry an eq-conjunct on GraphID with the graph id of '
        'the handle (or the id parameter); every write through the store graph is required to address nodes through an '
        'internal id that def-use analysis traces to a scoped lookup, and the store graph object must not be passed to '
        'any mutating function; allocator updates and insertion-after-validation are checked in both storage classes; '
        'clone and whole-store operations are checked structurally. The frame condition over histories is not decided.')
    rep.rule('R1', 'node enumeration is scoped by GraphID', floor=17)
    rep.rule('R2', 'writes address nodes through scoped internal ids; store graph not passed to mutating functions', floor=14)
    rep.rule('R3', 'allocator discipline; insertion only after validation', floor=8)
    rep.rule('R4', 'clone goes extract(copy) -> add', floor=1)
    rep.rule('R5', 'whole-store operations confined to the storage classes', floor=2)
    rep.rule('R6', 'a deleted or merely looked-up graph id can be imported again (one-graph-per-store flavour)', floor=1)

    nxg.check_store_scoping(prog, rep, 'R1', 'R2', 'R5')

    # ---- R3 ----
    nxg.check_allocators(prog, rep, 'R3')

    # ---- R6: an id that was deleted (or only looked up) can be imported again ----
    dj = nxg.storage_class(prog, nxg.DISJ_SHELL)
    init = dj.methods.get('__init__')
    auto = set()      # attributes that are defaultdicts: reading self.X[k] creates the entry
    for n in walk_no_nested(init):
        if isinstance(n, ast.Assign) and isinstance(n.value, ast.Call) and call_name(n.value) == 'defaultdict':
            for t in n.targets:
                ch = attr_chain(t)
                if ch and ch[0] == 'self' and len(ch) == 2:
                    auto.add(ch[1])
    ag0 = dj.methods.get('add_graph')
    if ag0 is None:
        raise AnalysisError('disjoint add_graph vanished')
    ag = nxg.method(prog, dj, ag0)
    gid = [p_ for p_ in func_params(ag) if p_ != 'self'][0]
    # the conditions under which the import is skipped: the negation of each guard (enclosing test or preceding guard
    # clause) of the statement that stores the imported graph
    stores = [x for x in walk_no_nested(ag) if isinstance(x, ast.Assign) and isinstance(x.targets[0], ast.Subscript) and
              isinstance(x.targets[0].slice, ast.Name) and x.targets[0].slice.id == gid and (attr_chain(x.targets[0].value) or [None])[:1] == ['self']]
    if not stores:
        raise AnalysisError('disjoint add_graph: the statement that stores the imported graph was not found')
    _, guards_ = _enclosing(stores[0], ag)
    for g_ in guards_:
        n = g_
        skip = canon(negate(canon(g_)))
        cjs = conjuncts(skip)
        member = [c for c in cjs if isinstance(c, ast.Compare) and len(c.ops) == 1 and isinstance(c.ops[0], ast.In) and
                  isinstance(c.left, ast.Name) and c.left.id == gid and (attr_chain(c.comparators[0]) or [None, None])[:1] == ['self']]
        if not member:
            continue
        store_attr = attr_chain(member[0].comparators[0])[1]
        others = [c for c in cjs if c is not member[0]]
        rep.instance('R6', f'{dj.name}.add_graph skips the import when `{norm(skip, 90)}`')
        if others:
            continue        # presence is not judged by membership alone
        # membership alone: sound only if no entry can exist without an imported graph
        leftovers = []
        dg = dj.methods.get('del_graph')
        removes = dg is not None and any(
            (isinstance(x, ast.Delete) and any(ast.unparse(t).startswith(f'self.{store_attr}[') for t in x.targets)) or
            (isinstance(x, ast.Call) and call_name(x) == 'pop' and ast.unparse(x.func.value) == f'self.{store_attr}')
            for x in ast.walk(nxg.method(prog, dj, dg)))
        if not removes:
            leftovers.append('del_graph empties the graph but keeps its entry')
        if store_attr in auto:
            for mname, m_ in dj.methods.items():
                if mname in ('add_graph', 'add_graph_direct', '__init__'):
                    continue
                if any(isinstance(x, ast.Subscript) and isinstance(x.ctx, ast.Load) and ast.unparse(x.value) == f'self.{store_attr}' for x in ast.walk(m_)):
                    leftovers.append(f'{mname} reads self.{store_attr}[id], which creates an empty entry in the defaultdict')
        if leftovers:
            rep.violation('R6', loc(dj.module, stores[0]), f'{dj.name}.add_graph', f'import skipped when `{norm(skip, 80)}`',
                          f'add_graph treats any entry of self.{store_attr} as an imported graph and silently skips the import, but '
                          f'entries exist without a graph: {"; ".join(leftovers[:3])}. Deleting a graph and importing it again under '
                          f'the same id (or importing under an id that was only looked up) yields an empty graph on this store '
                          f'while the shared store imports it')

    # a rejected import changes nothing: inside the storage add_graph methods no rejection is reachable once the store has
    # been changed (in particular the graph already stored under the id is only removed when the new one is known to be good)
    from ..cfg import CFG
    STORE_MUT = ('remove_nodes_from', 'add_nodes_from', 'add_edges_from', 'clear', 'remove_node', 'add_node')
    for shell_ in (nxg.SHARED_SHELL, nxg.DISJ_SHELL):
        st_ = nxg.storage_class(prog, shell_)
        for mname in ('add_graph', 'add_graph_direct'):
            f0 = st_.methods.get(mname)
            if f0 is None:
                continue
            fi = nxg.method(prog, st_, f0)
            fcfg = CFG(fi)
            muts = []
            for c in walk_no_nested(fi):
                if isinstance(c, ast.Call) and call_name(c) in STORE_MUT and isinstance(c.func, ast.Attribute) and \
                        ast.unparse(c.func.value).startswith('self.graphs'):
                    muts.append(c)
                if isinstance(c, ast.Assign) and any(isinstance(t, ast.Subscript) and ast.unparse(t.value) == 'self.graphs' for t in c.targets):
                    muts.append(c)
            raises = [r for r in walk_no_nested(fi) if isinstance(r, ast.Raise) and r.exc is not None and
                      not any(isinstance(p_, ast.ExceptHandler) for p_ in _anc(r, fi))]
            bad = None
            for m_ in muts:
                mn = flow.node_of(fcfg, m_)
                for r in raises:
                    rn = flow.node_of(fcfg, r)
                    if mn is not None and rn is not None and mn is not rn and fcfg.paths_avoiding(mn, rn, set()):
                        bad = (m_, r)
                        break
                if bad:
                    break
            rep.instance('R3', f'{st_.name}.{mname}: {len(muts)} store mutation(s), {len(raises)} rejection(s); a rejection is reachable after a mutation: {bool(bad)}')
            if bad:
                rep.violation('R3', loc(st_.module, bad[0]), f'{st_.name}.{mname}', f'{norm(bad[0], 60)} precedes a rejection',
                              f'the store is changed by `{norm(bad[0], 60)}` and the import can still be rejected afterwards (`{norm(bad[1], 70)}`): '
                              f're-importing under an id in use with a graph that is refused (a node without NodeID) destroys the graph that was '
                              f'stored under that id although nothing is imported')

    # ---- R4 ----
    nxpg = prog.cls(nxg.NXPG)
    cg = nxpg.methods.get('clone_graph')
    if cg is None:
        raise AnalysisError('NetworkXPropertyGraph.clone_graph vanished')
    cg = nxg.method(prog, nxpg, cg)
    cenv = local_env(cg)
    rep.instance('R4', f'clone_graph: {[norm(s, 90) for s in cg.body if isinstance(s, (ast.Assign, ast.Expr)) and not isinstance(getattr(s, "value", None), ast.Constant)]}')
    ext = [n for n in walk_no_nested(cg) if isinstance(n, ast.Call) and call_name(n) == 'extract_graph']
    add = [n for n in walk_no_nested(cg) if isinstance(n, ast.Call) and call_name(n) == 'add_graph']
    params = func_params(cg)

    def arg(call, i, name):
        return kwarg(call, name) or (call.args[i] if len(call.args) > i else None)
    if not ext or ctext(arg(ext[0], 0, 'graph_id'), cenv) != 'self.graph_id':
        rep.violation('R4', loc(nxpg.module, cg), 'NetworkXPropertyGraph.clone_graph', 'source not extracted by its own id', 'the clone must start from a copy of this graph')
    new_id = [p for p in params if p != 'self']
    if not add or not new_id or ctext(arg(add[0], 0, 'graph_id'), cenv) != new_id[0]:
        rep.violation('R4', loc(nxpg.module, cg), 'NetworkXPropertyGraph.clone_graph', 'copy not added under the new id',
                      'the clone must be inserted with add_graph(new_graph_id, ...) which relabels to fresh internal ids and stamps the new GraphID')
    if add and ext:
        g = arg(add[0], 1, 'graph')
        src_ok = g is not None and any(isinstance(c, ast.Call) and call_name(c) == 'extract_graph' for v in ([g] + (flow.reaching_values(cg, g.id) if isinstance(g, ast.Name) else []))
                                       for c in ast.walk(v))
        if not src_ok:
            rep.violation('R4', loc(nxpg.module, cg), 'NetworkXPropertyGraph.clone_graph', 'clone source', 'the clone is not built from the extracted copy')
    if any(isinstance(c, ast.Call) and call_name(c) == 'get_graph' for c in ast.walk(cg)):
        rep.violation('R4', loc(nxpg.module, cg), 'NetworkXPropertyGraph.clone_graph', 'clone touches the live store graph', 'clone must work on an extracted copy')

    # ---- R5 ----
    st = nxg.storage_class(prog, nxg.SHARED_SHELL)
    dg = [f for n, f in st.methods.items() if n.endswith('del_graph_nl')]
    if not dg:
        raise AnalysisError('non-locking delete helper vanished')
    dg = nxg.method(prog, st, dg[0])
    rm = [n for n in walk_no_nested(dg) if isinstance(n, ast.Call) and call_name(n) == 'remove_nodes_from']
    sc = nxg.search_calls(dg)
    rep.instance('R5', f'{st.name}.{dg.name}: {norm(rm[0]) if rm else "?"} from {norm(sc[0].args[1]) if sc else "?"}')
    ok = False
    if rm and sc:
        conj = nxg.parse_query(prog, sc[0].args[1], st.module, st)
        scoped_q = any(op == 'eq' and f == 'GraphID' and ast.unparse(v) == 'graph_id' for op, f, v in conj) and len(conj) == 1
        var = None
        for n in walk_no_nested(dg):
            if isinstance(n, ast.Assign) and any(x is sc[0] for x in ast.walk(n.value)):
                var = n.targets[0].id
        ok = scoped_q and var is not None and ast.unparse(rm[0].args[0]) == var
    if not ok:
        rep.violation('R5', loc(st.module, dg), f'{st.name}.{dg.name}', 'delete is not exactly the scoped query result',
                      'deleting a graph must remove exactly the nodes whose GraphID equals the given id')
    for cname, fname in ((st, 'del_all_graphs'),):
        fn = cname.methods.get(fname)
        rep.instance('R5', f'{cname.name}.{fname}')
    # get_graph of the shared store ignores the id (documented): recorded as a note for readers
    rep.note('validate_graph reads every node of the shared store (get_graph ignores the id); it changes nothing, so it does '
             'not contradict isolation')


NX = 'fim/graph/networkx_property_graph.py'
MUTANTS = [
    {'name': 'existing-graph-deleted-before-validation', 'file': 'fim/graph/networkx_property_graph.py', 'rule': 'R3',
     'find': "                # relabel incoming graph nodes to integers, then merge\n                temp_graph = nx.convert_node_labels_to_integers(graph, first_label=self.start_id)\n                # set/overwrite GraphID property on all nodes\n",
     'replace': "                self.__del_graph_nl(graph_id)\n                temp_graph = nx.convert_node_labels_to_integers(graph, first_label=self.start_id)\n"},
    {'name': 'find-all-nodes-unscoped', 'file': 'fim/graph/networkx_mixin.py', 'rule': 'R1',
     'find': "                                            {'eq': [ABCPropertyGraph.GRAPH_ID, self.graph_id]}))\n        if len(query_match) == 0:\n            raise PropertyGraphQueryException(graph_id=self.graph_id, node_id=None,\n                                              msg=\"Unable to find graph nodes\")",
     'replace': "                                            {'eq': [ABCPropertyGraph.PROP_CLASS, 'NetworkNode']}))\n        if len(query_match) == 0:\n            raise PropertyGraphQueryException(graph_id=self.graph_id, node_id=None,\n                                              msg=\"Unable to find graph nodes\")"},
    {'name': 'stitch-nodes-unscoped', 'file': NX, 'rule': 'R1',
     'find': "                                                {'eq': [ABCPropertyGraph.GRAPH_ID, self.graph_id]},\n                                                {'eq': [ABCPropertyGraph.PROP_STITCH_NODE, 'true']}",
     'replace': "                                                {'eq': [ABCPropertyGraph.PROP_STITCH_NODE, 'true']}"},
    {'name': 'update-nodes-property-over-all-store', 'file': NX, 'rule': 'R2',
     'find': '        for n in graph_nodes:\n            self.storage.get_graph(self.graph_id).nodes[n][prop_name] = prop_val',
     'replace': '        for n in self.storage.get_graph(self.graph_id).nodes:\n            self.storage.get_graph(self.graph_id).nodes[n][prop_name] = prop_val'},
    {'name': 'start-id-not-advanced-by-count', 'file': NX, 'rule': 'R3', 'count': 2,
     'find': 'self.start_id = self.start_id + len(temp_graph.nodes())', 'replace': 'self.start_id = len(self.graphs.nodes()) + 1'},
    {'name': 'clone-adds-live-extract-under-old-id', 'file': NX, 'rule': 'R4',
     'find': '        self.storage.add_graph(new_graph_id, new_graph)', 'replace': '        self.storage.add_graph(self.graph_id, new_graph)'},
    {'name': 'delete-graph-clears-store', 'file': NX, 'rule': 'R5',
     'find': '        self.storage.del_graph(self.graph_id)\n\n    def get_node_properties', 'replace': '        self.storage.get_graph(self.graph_id).clear()\n\n    def get_node_properties'},
    {'name': 'reimport-skipped-on-leftover-entry', 'file': 'fim/graph/networkx_property_graph_disjoint.py', 'rule': 'R6',
     'find': 'if graph_id in self.graphs.keys() and len(self.graphs[graph_id].nodes) > 0:', 'replace': 'if graph_id in self.graphs.keys():'},
]
TWINS = [
    {'name': 'conjunct-order-swapped', 'file': NX,
     'find': "                                                {'eq': [ABCPropertyGraph.GRAPH_ID, self.graph_id]},\n                                                {'eq': [ABCPropertyGraph.PROP_STITCH_NODE, 'true']}",
     'replace': "                                                {'eq': [ABCPropertyGraph.PROP_STITCH_NODE, 'true']},\n                                                {'eq': [ABCPropertyGraph.GRAPH_ID, self.graph_id]}"},
]
