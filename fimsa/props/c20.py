"""
C20 -- store lock discipline and identifier allocation.

R1 exactly-once release: abstract lock depth over the CFG (with exceptional edges) of every method of the two
   storage classes; depth must be 0 at every exit, never 2, never -1.
R2 no call to a locking method while the lock is held; non-locking helpers (``*_nl``) only called at depth 1.
R3 lockset: every access to the id allocators (``start_id``, ``graph_node_ids``) and every structural access to
   ``graphs`` inside the storage classes happens at depth 1 (or inside a ``*_nl`` helper).
R4 singleton creation (check-then-create of ``storage_instance``) happens under a lock.
"""
import ast

from ..core import AnalysisError, norm, walk_no_nested, attr_chain, loc, qualname
from ..cfg import CFG, solve_forward, witness, describe_path, enumerate_paths

STORES = [
    ('fim.graph.networkx_property_graph', 'NetworkXGraphStorage'),
    ('fim.graph.networkx_property_graph_disjoint', 'NetworkXGraphStorageDisjoint'),
]

STRUCT_MUTATORS = {'add_node', 'add_nodes_from', 'add_edge', 'add_edges_from', 'remove_node', 'remove_nodes_from',
                   'remove_edge', 'remove_edges_from', 'clear', 'update', 'pop', 'popitem', 'setdefault'}
ALLOCATORS = {'start_id', 'graph_node_ids'}


def lock_attrs(cls):
    """Attributes of self assigned a Lock() in __init__."""
    init = cls.methods.get('__init__')
    out = set()
    if init is None:
        return out
    for n in ast.walk(init):
        if isinstance(n, ast.Assign) and isinstance(n.value, ast.Call):
            f = ast.unparse(n.value.func)
            if f in ('Lock', 'threading.Lock', 'RLock', 'threading.RLock'):
                for t in n.targets:
                    ch = attr_chain(t)
                    if ch and len(ch) == 2 and ch[0] == 'self':
                        out.add((ch[1], 'R' if 'RLock' in f else 'L'))
    return out


def lock_op(stmt, locks):
    """'acquire' / 'release' if stmt is exactly ``self.<lock>.acquire()`` / ``.release()``; else None."""
    if isinstance(stmt, ast.Expr) and isinstance(stmt.value, ast.Call) and not stmt.value.args \
            and not stmt.value.keywords:
        ch = attr_chain(stmt.value.func)
        if ch and len(ch) == 3 and ch[0] == 'self' and ch[1] in locks and ch[2] in ('acquire', 'release'):
            return ch[2]
    return None


def is_lock_with(withstmt, locks):
    if len(withstmt.items) != 1:
        return False
    ch = attr_chain(withstmt.items[0].context_expr)
    return bool(ch and len(ch) == 2 and ch[0] == 'self' and ch[1] in locks)


def make_may_raise(locks):
    def may_raise(node):
        if node is None:
            return False
        if isinstance(node, ast.stmt):
            if lock_op(node, locks):
                return False            # threading.Lock.acquire()/release() on a held/unheld lock: total here
            if isinstance(node, ast.Expr) and isinstance(node.value, ast.Call):
                ch = attr_chain(node.value.func)
                # dict.clear() / nx.Graph.clear() cannot fail
                if ch == ['self', 'graphs', 'clear'] and not node.value.args:
                    return False
            if isinstance(node, ast.Return):
                return may_raise(node.value)
            if isinstance(node, ast.Assign) and all(isinstance(t, ast.Name) for t in node.targets):
                return may_raise(node.value)
        if isinstance(node, (ast.Name, ast.Constant)):
            return False
        if isinstance(node, ast.Attribute) and isinstance(node.value, ast.Name) and node.value.id == 'self':
            return False                # reading an attribute of self that __init__ always sets
        if isinstance(node, ast.BinOp) and isinstance(node.left, (ast.Name, ast.Constant)) \
                and isinstance(node.right, (ast.Name, ast.Constant)) and False:
            return False
        for n in walk_no_nested(node):
            if isinstance(n, (ast.Call, ast.Subscript, ast.BinOp, ast.Compare, ast.Starred, ast.Await)):
                return True
            if isinstance(n, ast.Attribute) and not (isinstance(n.value, ast.Name) and n.value.id == 'self'):
                return True
        return False
    return may_raise


def run(prog, rep):
    rep.extra['explanation'] = (
        'Static lock-depth analysis of every method of the two in-memory storage classes over a statement-level CFG '
        'with exceptional edges (R1), lock-held call discipline (R2), lockset of allocator/structure accesses (R3) '
        'and locking of the singleton creation (R4). Decides the clause "the store lock is released exactly once on '
        'every path" completely and, by mutual exclusion, "no identifier is issued twice / inserts under the lock are '
        'not lost" for the storage operations; outcomes of interleavings of the unlocked graph-level operations are '
        'not decided.')
    rep.assume('threading.Lock.acquire()/release() do not raise when used as paired here; dict.clear()/nx.Graph.clear() '
               'cannot fail; every other call, subscript, comparison, arithmetic or foreign attribute access may raise')
    rep.rule('R1', 'lock depth is 0 at every normal and exceptional exit of each storage method, never 2, never <0',
             floor=13)
    rep.rule('R2', 'no locking method is called while the lock is held; *_nl helpers are called only with the lock held')
    rep.rule('R3', 'allocator (start_id, graph_node_ids) and graphs-structure accesses happen with the lock held',
             floor=20)
    rep.rule('R4', 'check-then-create of the storage singleton is inside a lock', floor=2)

    for modname, shell in STORES:
        mod = prog.module(modname)
        shell_cls = mod.classes.get(shell)
        if shell_cls is None:
            raise AnalysisError(f'anchor class {modname}:{shell} vanished')
        inner = [c for c in shell_cls.inner.values()]
        if len(inner) != 1:
            raise AnalysisError(f'{shell} is expected to hold exactly one inner storage class')
        store = inner[0]
        locks = {a for a, _ in lock_attrs(store)}
        if not locks:
            raise AnalysisError(f'{store.qual}.__init__ creates no Lock')
        may_raise = make_may_raise(locks)

        # which methods acquire the lock (directly)
        acquiring = set()
        for name, fn in store.methods.items():
            for n in ast.walk(fn):
                if isinstance(n, ast.stmt) and lock_op(n, locks) == 'acquire':
                    acquiring.add(name)
                if isinstance(n, (ast.With, ast.AsyncWith)) and is_lock_with(n, locks):
                    acquiring.add(name)
        nl_helpers = {name for name in store.methods if name.endswith('_nl')}

        # private helpers that do not take the lock themselves inherit the lock state of their callers: their entry depths
        # are the depths at their call sites inside the store class (fixpoint; a helper nobody calls, or one that is also
        # referenced from outside the store class, is entered at depth 0 as well)
        def plain_transfer(node, depth):
            if node.kind == 'stmt' and node.ast is not None:
                op = lock_op(node.ast, locks)
                if op == 'acquire':
                    return (depth + 1,) if depth < 1 else (depth,)
                if op == 'release':
                    return (depth - 1,) if depth > 0 else (depth,)
            if node.kind == 'with_enter' and is_lock_with(node.ast, locks):
                return (depth + 1,) if depth < 1 else (depth,)
            if node.kind == 'with_exit' and is_lock_with(node.ast, locks):
                return (max(depth - 1, 0),)
            return (depth,)

        def _private(n_):
            return n_.startswith('_') and not (n_.startswith('__') and n_.endswith('__'))
        inheriting = {n_ for n_ in store.methods if _private(n_) and n_ not in acquiring and n_ not in nl_helpers}
        entry_depths = {n_: ({1} if n_ in nl_helpers else set() if n_ in inheriting else {0}) for n_ in store.methods}
        outside = set()
        for n_ in ast.walk(mod.tree):
            if isinstance(n_, ast.Attribute) and n_.attr in inheriting and not (isinstance(n_.value, ast.Name) and n_.value.id == 'self'):
                outside.add(n_.attr)
        for n_ in outside:
            entry_depths[n_].add(0)
        cfgs = {}
        changed = True
        rounds = 0
        while changed and rounds < 20:
            changed = False
            rounds += 1
            for n_, f_ in store.methods.items():
                if n_ == '__init__' or not entry_depths[n_]:
                    continue
                if n_ not in cfgs:
                    cfgs[n_] = CFG(f_, may_raise=may_raise)
                st_ = solve_forward(cfgs[n_], sorted(entry_depths[n_]), plain_transfer)
                for node in cfgs[n_].nodes:
                    if node.ast is None or node.kind in ('join', 'handler', 'entry', 'exit', 'raise_exit', 'with_enter', 'with_exit'):
                        continue
                    ds = st_.get(node.id) or set()
                    if not ds:
                        continue
                    for sub in walk_no_nested(node.ast):
                        if isinstance(sub, ast.Call):
                            ch = attr_chain(sub.func)
                            if ch and len(ch) == 2 and ch[0] == 'self' and ch[1] in inheriting and not ds <= entry_depths[ch[1]]:
                                entry_depths[ch[1]] |= ds
                                changed = True
        for n_ in inheriting:
            if not entry_depths[n_]:
                entry_depths[n_] = {0}
            rep.note(f'{store.name}.{n_}: private helper without locking of its own, entered at lock depth(s) '
                     f'{sorted(entry_depths[n_])} (from its call sites)')

        for name, fn in store.methods.items():
            if name == '__init__':
                continue
            fq = f'{store.name}.{name}'
            # every mention of the lock must be in a recognised form
            for n in ast.walk(fn):
                if isinstance(n, ast.Attribute) and isinstance(n.value, ast.Name) and n.value.id == 'self' \
                        and n.attr in locks:
                    par = getattr(n, '_parent', None)
                    ok = False
                    if isinstance(par, ast.Attribute) and par.attr in ('acquire', 'release'):
                        call = getattr(par, '_parent', None)
                        st = getattr(call, '_parent', None)
                        ok = isinstance(st, ast.Expr) and lock_op(st, locks) is not None
                    elif isinstance(par, ast.withitem):
                        ok = True
                    if not ok:
                        raise AnalysisError(f'{mod.relpath}: unrecognised use of the lock in {fq}: '
                                            f'{norm(getattr(n, "_parent", n))}')
            cfg = CFG(fn, may_raise=may_raise)
            events = []   # violations discovered inside transfer

            def transfer(node, depth, _fq=fq):
                if node.kind == 'stmt' and node.ast is not None:
                    op = lock_op(node.ast, locks)
                    if op == 'acquire':
                        if depth >= 1:
                            events.append(('double-acquire', node, depth))
                            return (depth,)      # would deadlock; do not propagate 2
                        return (depth + 1,)
                    if op == 'release':
                        if depth <= 0:
                            events.append(('release-unlocked', node, depth))
                            return (depth,)
                        return (depth - 1,)
                if node.kind == 'with_enter' and is_lock_with(node.ast, locks):
                    if depth >= 1:
                        events.append(('double-acquire', node, depth))
                        return (depth,)
                    return (depth + 1,)
                if node.kind == 'with_exit' and is_lock_with(node.ast, locks):
                    return (max(depth - 1, 0),)
                return (depth,)

            parents = {}
            state = solve_forward(cfg, sorted(entry_depths[name]), transfer, parents=parents)

            if name in acquiring:
                rep.instance('R1', fq, detail={'file': mod.relpath, 'cfg_nodes': len(cfg.nodes),
                                               'exit_depths': sorted(state[cfg.exit.id]),
                                               'raise_exit_depths': sorted(state[cfg.raise_exit.id])})
                for exit_node, label in ((cfg.exit, 'normal exit'), (cfg.raise_exit, 'exceptional exit')):
                    for d in sorted(state[exit_node.id]):
                        if d != 0:
                            path = describe_path(witness(cfg, parents, exit_node, d))
                            rep.violation('R1', loc(mod, fn), fq, f'lock depth {d} at {label}',
                                          f'the store lock is still held ({d}) when {name} leaves through its {label}: '
                                          f'later callers block forever', witness=path)
                seen_ev = set()
                for kind, node, d in events:
                    key = (kind, node.id)
                    if key in seen_ev:
                        continue
                    seen_ev.add(key)
                    path = describe_path(witness(cfg, parents, node, d))
                    if kind == 'release-unlocked':
                        rep.violation('R1', loc(mod, node.ast), fq, f'release at depth {d}: {norm(node.ast)}',
                                      'the lock is released on a path where it is not held '
                                      '(RuntimeError: release unlocked lock)', witness=path)
                    else:
                        rep.violation('R1', loc(mod, node.ast), fq, f'acquire at depth {d}: {norm(node.ast)}',
                                      'the non re-entrant lock is acquired while already held (self-deadlock)',
                                      witness=path)
            elif name in nl_helpers:
                if state[cfg.exit.id] - {1} or state[cfg.raise_exit.id] - {1}:
                    rep.violation('R1', loc(mod, fn), fq, 'non-locking helper changes lock depth',
                                  f'{name} is a non-locking helper but acquires/releases the lock')

            # locals that name a stored graph object (bound from self.graphs[...] / self.graphs): working on them is working on
            # the structure itself
            galias = set()
            for a_ in walk_no_nested(fn):
                if isinstance(a_, ast.Assign) and len(a_.targets) == 1 and isinstance(a_.targets[0], ast.Name):
                    v_ = a_.value
                    if (isinstance(v_, ast.Subscript) and ast.unparse(v_.value) == 'self.graphs') or ast.unparse(v_) == 'self.graphs':
                        galias.add(a_.targets[0].id)
            # R2 / R3 : per statement node, look at accesses with the entry depth set
            for node in cfg.nodes:
                if node.ast is None or node.kind in ('join', 'handler', 'entry', 'exit', 'raise_exit'):
                    continue
                if node.id not in state or not state[node.id]:
                    continue
                depths = state[node.id]
                if node.kind in ('with_enter', 'with_exit'):
                    continue
                if node.kind == 'test' and node.tag == 'for':
                    continue   # the iterable expression is evaluated (and checked) on the 'iter' node
                held = depths == {1}
                target = node.ast
                for sub in walk_no_nested(target):
                    # R2: calls to methods of this class
                    if isinstance(sub, ast.Call):
                        ch = attr_chain(sub.func)
                        if ch and len(ch) == 2 and ch[0] == 'self':
                            callee = ch[1]
                            # name mangling: self.__x inside the class
                            if callee in acquiring and callee in store.methods:
                                rep.instance('R2', f'{fq} -> {callee}', detail={'depths': sorted(depths)})
                                if depths & {1}:
                                    rep.violation('R2', loc(mod, sub), fq, norm(sub),
                                                  f'{callee}() acquires the store lock but is called while '
                                                  f'{name} already holds it (self-deadlock)')
                            if callee in nl_helpers:
                                rep.instance('R2', f'{fq} -> {callee}', detail={'depths': sorted(depths)})
                                if not held:
                                    rep.violation('R2', loc(mod, sub), fq, norm(sub),
                                                  f'non-locking helper {callee}() is called without the lock held')
                    # R3: allocator / structure accesses
                    acc = None
                    if isinstance(sub, ast.Attribute) and isinstance(sub.value, ast.Name) and sub.value.id == 'self':
                        if sub.attr in ALLOCATORS:
                            acc = f'self.{sub.attr}'
                        elif sub.attr == 'graphs':
                            par = getattr(sub, '_parent', None)
                            if isinstance(par, ast.Subscript) and par.value is sub:
                                acc = 'self.graphs[...]'
                            elif isinstance(par, ast.Attribute) and par.value is sub:
                                gp = getattr(par, '_parent', None)
                                if isinstance(gp, ast.Call) and gp.func is par and par.attr in STRUCT_MUTATORS | {'keys'}:
                                    acc = f'self.graphs.{par.attr}()'
                                elif par.attr in ('nodes', 'edges'):
                                    acc = f'self.graphs.{par.attr}'
                            elif isinstance(par, ast.Call) and sub in par.args:
                                acc = 'self.graphs passed to a call'
                            elif isinstance(par, ast.Compare):
                                acc = 'membership test on self.graphs'
                    if acc is None and isinstance(sub, ast.Call) and isinstance(sub.func, ast.Attribute) and isinstance(sub.func.value, ast.Name) and \
                            sub.func.value.id in galias:
                        # a method applied to a local that names a stored graph (copy, clear, add_*, nodes ...): reads or changes the structure
                        acc = f'<stored graph {sub.func.value.id}>.{sub.func.attr}()'
                    if acc is None and isinstance(sub, ast.Attribute) and isinstance(sub.value, ast.Name) and sub.value.id in galias and \
                            sub.attr in ('nodes', 'edges', 'adj') and not isinstance(getattr(sub, '_parent', None), ast.Call):
                        acc = f'<stored graph {sub.value.id}>.{sub.attr}'
                    if acc:
                        rep.instance('R3', f'{fq}: {acc} in {norm(enclosing(node))}', detail={'depths': sorted(depths)})
                        if not held:
                            rep.violation('R3', loc(mod, sub), fq, f'{acc} in {norm(enclosing(node))}',
                                          f'{acc} is accessed on a path where the store lock is not held '
                                          f'(depths {sorted(depths)}): concurrent callers may read a stale id or '
                                          f'interleave with a structural change')

        # R4 singleton creation in the shell class
        init = shell_cls.methods.get('__init__')
        if init is None:
            raise AnalysisError(f'{shell}.__init__ vanished')
        found = False
        for n in ast.walk(init):
            if isinstance(n, ast.Assign):
                for t in n.targets:
                    ch = attr_chain(t)
                    if ch and ch[-1] == 'storage_instance':
                        found = True
                        rep.instance('R4', f'{shell}.__init__: {norm(n)}')
                        p = n
                        guarded = False
                        tested_inside = False
                        tests_seen = []
                        while p is not None and p is not init:
                            p = getattr(p, '_parent', None)
                            if isinstance(p, ast.If) and any(isinstance(x, ast.Attribute) and x.attr == 'storage_instance' for x in ast.walk(p.test)):
                                tests_seen.append(p)
                            if isinstance(p, (ast.With, ast.AsyncWith)):
                                for it in p.items:
                                    txt = ast.unparse(it.context_expr)
                                    if 'lock' in txt.lower():
                                        guarded = True
                                        # the existence test that decides the creation must have been evaluated under this lock
                                        tested_inside = any(any(x is t_ for x in ast.walk(p)) for t_ in tests_seen)
                        if guarded and not tested_inside:
                            rep.violation('R4', loc(mod, n), f'{shell}.__init__', f'{norm(n, 70)} (existence test outside the lock)',
                                          'the singleton is created under the lock, but whether it already exists is only tested before the '
                                          'lock is taken and not again inside it: two threads that both find it missing create it one after '
                                          'the other, and the second store replaces the first - graphs already added to the first are lost')
                        # the test must be inside the same with
                        if not guarded:
                            rep.violation('R4', loc(mod, n), f'{shell}.__init__', norm(n),
                                          'the storage singleton is created by an unguarded check-then-create: two '
                                          'threads constructing their first importer concurrently get two stores and '
                                          'graphs added to the first one are lost')
        if not found:
            raise AnalysisError(f'{shell}.__init__ no longer assigns storage_instance')


def enclosing(node):
    a = node.ast
    if node.kind == 'test' and isinstance(a, ast.expr):
        return a
    if isinstance(a, (ast.For, ast.AsyncFor)):
        return a.iter
    return a


def thorough(prog, rep):
    """Explicit path enumeration of every critical section with a printed path-class count."""
    total = 0
    capped = False
    per = {}
    for modname, shell in STORES:
        mod = prog.module(modname)
        store = list(mod.classes[shell].inner.values())[0]
        locks = {a for a, _ in lock_attrs(store)}
        for name, fn in store.methods.items():
            if name == '__init__':
                continue
            cfg = CFG(fn, may_raise=make_may_raise(locks))
            paths, cap = enumerate_paths(cfg, cap=100000)
            capped = capped or cap
            bad = 0
            for p in paths:
                depth = 1 if name.endswith('_nl') else 0
                for node, ek in p:
                    if ek == 'x' or ek is None:
                        continue
                    if node.kind == 'stmt' and node.ast is not None:
                        op = lock_op(node.ast, locks)
                        depth += {'acquire': 1, 'release': -1}.get(op, 0)
                    elif node.kind == 'with_enter' and is_lock_with(node.ast, locks):
                        depth += 1
                    elif node.kind == 'with_exit' and is_lock_with(node.ast, locks):
                        depth -= 1
                want = 1 if name.endswith('_nl') else 0
                if depth != want:
                    bad += 1
            per[f'{store.name}.{name}'] = {'paths': len(paths), 'unbalanced': bad}
            total += len(paths)
    rep.extra['path_enumeration'] = {'paths': total, 'capped': capped, 'per_function': per}


NX = 'fim/graph/networkx_property_graph.py'
DJ = 'fim/graph/networkx_property_graph_disjoint.py'
MUTANTS = [
    {'name': 'disjoint-extract-copies-after-release', 'file': DJ, 'rule': 'R3',
     'find': "                return self.graphs[graph_id].copy()\n            finally:\n                self.lock.release()\n",
     'replace': "                graph = self.graphs[graph_id]\n            finally:\n                self.lock.release()\n            return graph.copy()\n"},
    {'name': 'shared-del_graph-finally-removed', 'file': NX, 'rule': 'R1',
     'find': '            try:\n                self.__del_graph_nl(graph_id)\n            finally:\n                self.lock.release()\n',
     'replace': '            self.__del_graph_nl(graph_id)\n            self.lock.release()\n'},
    {'name': 'disjoint-add_graph-double-release', 'file': DJ, 'rule': 'R1',
     'find': '                    # the lock is released in the finally clause\n                    return\n',
     'replace': '                    self.lock.release()\n                    return\n'},
    {'name': 'disjoint-extract-finally-removed', 'file': DJ, 'rule': 'R1',
     'find': '                return self.graphs[graph_id].copy()\n            finally:\n                self.lock.release()\n',
     'replace': '                ret = self.graphs[graph_id].copy()\n            except KeyError:\n                raise\n            self.lock.release()\n            return ret\n'},
    {'name': 'shared-add_graph-calls-locking-del_graph', 'file': NX, 'rule': 'R2', 'count': 2,
     'find': '                    self.__del_graph_nl(graph_id)\n', 'replace': '                    self.del_graph(graph_id)\n'},
    {'name': 'shared-blank-node-return-after-release', 'file': NX, 'rule': 'R3',
     'find': '                self.start_id = self.start_id + 1\n                return self.start_id - 1\n            except Exception as e:\n                raise e\n            finally:\n                self.lock.release()\n',
     'replace': '                self.start_id = self.start_id + 1\n            except Exception as e:\n                raise e\n            finally:\n                self.lock.release()\n            return self.start_id - 1\n'},
    {'name': 'disjoint-counter-bump-after-release', 'file': DJ, 'rule': 'R3',
     'find': '                self.graph_node_ids[graph_id] += 1\n                self.graphs[graph_id].add_node(new_id, GraphID=graph_id, **attrs)\n            except Exception as e:\n                raise e\n            finally:\n                self.lock.release()\n',
     'replace': '                self.graphs[graph_id].add_node(new_id, GraphID=graph_id, **attrs)\n            except Exception as e:\n                raise e\n            finally:\n                self.lock.release()\n            self.graph_node_ids[graph_id] += 1\n'},
    {'name': 'shared-extract-early-return-before-try', 'file': NX, 'rule': 'R1',
     'find': '            self.lock.acquire()\n            try:\n                # extract copy of graph from store or return None\n',
     'replace': '            self.lock.acquire()\n            if graph_id is None:\n                return None\n            try:\n                # extract copy of graph from store or return None\n'},
    {'name': 'singleton-lock-removed', 'file': NX, 'rule': 'R4',
     'find': '        with NetworkXGraphStorage.storage_instance_lock:\n            if not NetworkXGraphStorage.storage_instance:\n                NetworkXGraphStorage.storage_instance = NetworkXGraphStorage.__NetworkXGraphStorage(logger=logger)\n',
     'replace': '        if not NetworkXGraphStorage.storage_instance:\n            NetworkXGraphStorage.storage_instance = NetworkXGraphStorage.__NetworkXGraphStorage(logger=logger)\n'},
]
TWINS = [
    {'name': 'with-lock-form', 'file': NX,
     'find': '            self.lock.acquire()\n            try:\n                self.__del_graph_nl(graph_id)\n            finally:\n                self.lock.release()\n',
     'replace': '            with self.lock:\n                self.__del_graph_nl(graph_id)\n'},
    {'name': 'pure-local-moved-out-of-section', 'file': DJ,
     'find': '            self.lock.acquire()\n            try:\n                # check this graph_id isn\'t already present\n                if graph_id in self.graphs.keys():\n                    self.graphs[graph_id].clear()\n                # relabel incoming graph nodes to integers, then merge\n                temp_graph = nx.convert_node_labels_to_integers(graph, 1)\n',
     'replace': '            temp_graph = nx.convert_node_labels_to_integers(graph, 1)\n            self.lock.acquire()\n            try:\n                if graph_id in self.graphs.keys():\n                    self.graphs[graph_id].clear()\n'},
    {'name': 'except-reraise-bare', 'file': NX, 'count': 4,
     'find': '            except Exception as e:\n                raise e\n', 'replace': '            except Exception:\n                raise\n'},
]
