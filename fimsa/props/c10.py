"""
C10 -- slice validation accepts a topology exactly when the constraint tables allow it.

R1 constraint tables have a row per enum member
R2 every property named in required/forbidden lists resolves to a getter that the validator's reader populates
R3 every constraint column is consulted on the validation path; every node view is validated
R4 comparator per column (min_interfaces <, num_interfaces >, num_sites >, num_instances >), each behind != NO_LIMIT;
   required-property test rejects unset values, forbidden-property test rejects set values
R5 every path to the creation of a service port passes the service guardrails
R7 the three constraint tables, folded to values, equal the tables pinned in /verif/data/c10_constraints.json
R6 single-site branch: an undeclared site is set to the inferred one, a declared site is compared with the inferred one
"""
import ast

from ..core import AnalysisError, norm, loc, walk_no_nested, attr_chain, call_name, Record
from ..cfg import CFG
from ..core import func_params
from ..normalize import unroll_const_loops, clone, _replace_node, truth_under, inline, local_env, expand, canon, ctext, conjuncts, branch_values, Unknown, _enclosing
from .. import flow
from . import c02

NSS = 'fim.slivers.network_service:NetworkServiceSliver'
NODES = 'fim.slivers.network_node:NodeSliver'
LINKS = 'fim.slivers.network_link:NetworkLinkSliver'
UNS = 'fim.user.network_service:NetworkService'
UNODE = 'fim.user.node:Node'
TOPO = 'fim.user.topology:Topology'


def run(prog, rep):
    rep.extra['explanation'] = (
        'The three constraint tables are folded to constants and compared with their enums; every property name they '
        'list is resolved against the getters of the sliver class and against the reader rows that populate the sliver '
        'the validator builds; the validation code is checked to consult each column with the right comparator behind '
        'the NO_LIMIT test, to validate every node view, to reach the guardrails before a service port is created, and '
        'to compare a declared site with the inferred one (small path analysis of the single-site branch). '
        'Accept/reject outcomes over the parameter product are not decided.')
    rep.rule('R1', 'constraint table has a row per enum member', floor=24)
    rep.rule('R2', 'listed property name resolves to a populated getter', floor=40)
    rep.rule('R3', 'every constraint column is read on the validation path; every node view validated', floor=9)
    rep.rule('R4', 'comparator per column behind the NO_LIMIT test; required/forbidden tests', floor=6)
    rep.rule('R5', 'service port creation is dominated by the guardrails', floor=2)
    rep.rule('R6', 'single-site branch stores / compares the inferred site', floor=1)

    nss = prog.cls(NSS)
    nodes = prog.cls(NODES)
    links = prog.cls(LINKS)
    tables = [
        (nss, 'ServiceConstraints', 'fim.slivers.network_service:ServiceType'),
        (nodes, 'NodeConstraints', 'fim.slivers.network_node:NodeType'),
        (links, 'LinkConstraints', 'fim.slivers.network_link:LinkType'),
    ]
    folded = {}
    for cls, tname, enum_spec in tables:
        table = prog.class_const(cls, tname)
        folded[tname] = table
        members = prog.enum_members(enum_spec)
        ename = enum_spec.split(':')[1]
        keys = {k.name for k in table if hasattr(k, 'name')}
        for m in members:
            rep.instance('R1', f'{cls.name}.{tname}[{ename}.{m}]')
            if m not in keys:
                rep.violation('R1', loc(cls.module, cls.assigns[tname]), f'{cls.name}.{tname}', f'no row for {ename}.{m}',
                              f'{tname} has no row for {ename}.{m}: validating (or creating) an element of that type '
                              f'raises KeyError instead of applying constraints')

    # R2: names resolve and are populated
    apg = prog.cls(c02.APG)
    for cls, tname, reader in ((nss, 'ServiceConstraints', 'network_service_sliver_from_graph_properties_dict'),
                               (nodes, 'NodeConstraints', 'node_sliver_from_graph_properties_dict')):
        rrows = c02.collect_reader_rows(prog, apg, reader)
        populated = {r['kw'] for r in rrows}
        setters = c02.setter_info(prog, cls)
        for key, rec in folded[tname].items():
            for col in ('required_properties', 'forbidden_properties'):
                for pname in rec.get(col, []):
                    _, getter = cls.find_method('get_' + pname)
                    rep.instance('R2', f'{tname}[{key}].{col}: {pname}',
                                 detail={'getter': getter is not None, 'populated': pname in populated})
                    fqn = f'{cls.name}.{tname}'
                    if getter is None:
                        rep.violation('R2', loc(cls.module, cls.assigns[tname]), fqn, f'{pname}: no getter get_{pname}',
                                      f'{col} of {key} lists {pname!r} but {cls.name} has no get_{pname}: the validator '
                                      f'skips the test (node) or raises AttributeError (service)')
                    elif pname not in populated:
                        rep.violation('R2', loc(cls.module, cls.assigns[tname]), fqn, f'{pname}: not populated by {reader}',
                                      f'{col} of {key} lists {pname!r} but the sliver the validator builds with {reader} '
                                      f'never has it set: the constraint can never fire')

    rep.rule('R7', 'constraint tables equal the pinned (documented) tables', floor=20)
    check_pinned_tables(prog, rep, 'R7')

    # R8: the tables are shared by every topology of the process: nothing stores into them or into one of their rows
    rep.rule('R8', 'no statement of the library stores into a constraint table or into a row taken from one', floor=3)
    TABLES = ('ServiceConstraints', 'NodeConstraints', 'LinkConstraints')
    nrows = 0
    for m_, c_, f_ in prog.all_functions():
        if not m_.name.startswith('fim.'):
            continue
        mentions = [x for x in ast.walk(f_) if isinstance(x, ast.Attribute) and x.attr in TABLES]
        if not mentions:
            continue
        nrows += 1
        fq8 = (c_.name + '.' if c_ else '') + f_.name
        env8 = local_env(f_)
        # locals that name a row (or the table): bound from an expression that reads a table
        rows = set()
        for a_ in walk_no_nested(f_):
            if isinstance(a_, ast.Assign) and len(a_.targets) == 1 and isinstance(a_.targets[0], ast.Name) and \
                    any(isinstance(x, ast.Attribute) and x.attr in TABLES for x in ast.walk(a_.value)) and \
                    isinstance(a_.value, (ast.Subscript, ast.Attribute, ast.Call)) and \
                    not (isinstance(a_.value, ast.Call) and call_name(a_.value) in ('copy', 'deepcopy', 'replace', '_replace', 'dict', 'list')):
                rows.add(a_.targets[0].id)
        stores = []
        for n in walk_no_nested(f_):
            tgts = []
            if isinstance(n, ast.Assign):
                tgts = n.targets
            elif isinstance(n, (ast.AugAssign, ast.AnnAssign)):
                tgts = [n.target]
            elif isinstance(n, ast.Delete):
                tgts = n.targets
            for t in tgts:
                for t2 in (t.elts if isinstance(t, (ast.Tuple, ast.List)) else [t]):
                    if isinstance(t2, (ast.Attribute, ast.Subscript)):
                        base = t2.value
                        if any(isinstance(x, ast.Attribute) and x.attr in TABLES for x in ast.walk(base)) or \
                                any(isinstance(x, ast.Name) and x.id in rows for x in ast.walk(base)):
                            stores.append((n, t2))
            if isinstance(n, ast.Call) and isinstance(n.func, ast.Attribute) and n.func.attr in ('update', 'pop', 'clear', 'setdefault', 'popitem', '__setattr__') and \
                    (any(isinstance(x, ast.Attribute) and x.attr in TABLES for x in ast.walk(n.func.value)) or
                     any(isinstance(x, ast.Name) and x.id in rows for x in ast.walk(n.func.value))):
                stores.append((n, n.func))
        rep.instance('R8', f'{fq8}: reads a constraint table; rows named {sorted(rows)}; stores into table or row: {len(stores)}')
        for n, t2 in stores:
            rep.violation('R8', loc(m_, n), fq8, f'{norm(n, 80)} stores into a constraint table row',
                          f'{norm(t2, 60)} is (part of) the class-level constraint table, one object shared by all topologies of the process: '
                          f'after this statement has run once (for instance while validating a substrate model) every later validation sees '
                          f'the changed limits, and services the documented table forbids are accepted')

    # R9: validate() walks the name-keyed service view: it sees every service only if service names are unique model-wide
    rep.rule('R9', 'the service view validate() walks lists every service (names unique over all services)', floor=1)
    from .c07 import check_name_keyed_views
    check_name_keyed_views(prog, rep, 'R9', only=('CLASS_NetworkService',))

    # R3 / R4 on the validation code of the service
    uns = prog.cls(UNS)
    vmod = uns.module
    vn = uns.methods.get('__validate_nstype_constraints')
    vc = uns.methods.get('validate_constraints')
    if vn is None or vc is None:
        raise AnalysisError('NetworkService validation methods vanished')
    topo = prog.cls(TOPO)
    tv = topo.methods.get('validate')
    if tv is None:
        raise AnalysisError('Topology.validate vanished')
    vn = inline(prog, uns, vn)
    vc = inline(prog, uns, vc)
    tv = inline(prog, topo, unroll_const_loops(prog, topo, tv, literal_iter=True))   # `for view in ('nodes', 'facilities'): getattr(self, view)` read row by row
    cols_read = set()

    def is_limit(e, col=None):
        """<...>ServiceConstraints[<type>].<col> (temporaries must have been expanded)"""
        return isinstance(e, ast.Attribute) and isinstance(e.value, ast.Subscript) and ast.unparse(e.value.value).endswith('ServiceConstraints') \
            and (col is None or e.attr == col)
    for fn in (vn, vc, tv):
        fenv = local_env(fn)
        for n in ast.walk(fn):
            if isinstance(n, ast.Attribute):
                e = expand(n, fenv)
                if is_limit(e):
                    cols_read.add(e.attr)
    rec_cols = [c for c in next(iter(folded['ServiceConstraints'].values())).keys() if c not in ('desc', 'layer')]
    for col in rec_cols:
        rep.instance('R3', f'ServiceConstraints column {col} consulted by validation: {col in cols_read}')
        if col not in cols_read:
            rep.violation('R3', loc(vmod, vn), 'NetworkService.validate_constraints', f'column {col} never consulted',
                          f'the constraint column {col} of ServiceConstraints is not read anywhere on the validation path')
    unode = prog.cls(UNODE)
    nvc = unode.methods.get('validate_constraints')
    ncols = {n.attr for n in ast.walk(nvc) if isinstance(n, ast.Attribute) and isinstance(n.value, ast.Subscript)
             and ast.unparse(n.value.value).endswith('NodeConstraints')}
    for col in ('required_properties', 'forbidden_properties'):
        rep.instance('R3', f'NodeConstraints column {col} consulted: {col in ncols}')
        if col not in ncols:
            rep.violation('R3', loc(unode.module, nvc), 'Node.validate_constraints', f'column {col} never consulted',
                          f'NodeConstraints.{col} is not read by Node.validate_constraints')
    # every node view validated, every service validated
    loops = [(ast.unparse(n.iter), [call_name(c) for c in ast.walk(n) if isinstance(c, ast.Call)])
             for n in tv.body if isinstance(n, ast.For)]
    views = {it for it, calls in loops if 'validate_constraints' in calls}
    for v in ('self.nodes.values()', 'self.facilities.values()', 'self.network_services.values()'):
        rep.instance('R3', f'Topology.validate validates {v}: {v in views}')
        if v not in views:
            rep.violation('R3', loc(topo.module, tv), 'Topology.validate', f'{v} not validated',
                          f'Topology.validate does not call validate_constraints on {v}: the per-type constraints of those '
                          f'elements are never enforced')

    # R4 comparators: path conditions of every rejection in __validate_nstype_constraints
    def raise_sink(st):
        return ast.Constant(value='raise') if isinstance(st, ast.Raise) else None
    class _Rej:
        def __init__(self, stmt, nodes):
            self.stmt = stmt
            self.cond_nodes = nodes
    venv = local_env(vn)
    rejections = []
    for r_ in walk_no_nested(vn):
        if isinstance(r_, ast.Raise):
            _, cs = _enclosing(r_, vn)
            nodes = []
            for c_ in cs:
                nodes.extend(conjuncts(canon(expand(c_, venv))))
            rejections.append(_Rej(r_, nodes))
    iparam = [p_ for p_ in func_params(vn) if p_ not in ('self', 'nstype')]
    iparam = iparam[-1] if iparam else 'interfaces'
    site_sets = {c.func.value.id for c in ast.walk(vn) if isinstance(c, ast.Call) and call_name(c) == 'add' and isinstance(c.func.value, ast.Name)
                 and c.args and isinstance(c.args[0], ast.Attribute) and c.args[0].attr == 'site'}

    def is_len_of(e, names):
        return isinstance(e, ast.Call) and isinstance(e.func, ast.Name) and e.func.id == 'len' and len(e.args) == 1 and \
            isinstance(e.args[0], ast.Name) and e.args[0].id in names

    def no_limit_guard(node, col):
        return isinstance(node, ast.Compare) and len(node.ops) == 1 and isinstance(node.ops[0], ast.NotEq) and \
            any(is_limit(x, col) for x in (node.left, node.comparators[0])) and \
            any(isinstance(x, ast.Attribute) and x.attr == 'NO_LIMIT' for x in (node.left, node.comparators[0]))
    want = {'min_interfaces': ('fewer', {iparam}), 'num_interfaces': ('more', {iparam}), 'num_sites': ('more', site_sets)}
    for col, (sense, names) in want.items():
        hits = []
        for o in rejections:
            for node in o.cond_nodes:
                if isinstance(node, ast.Compare) and len(node.ops) == 1 and any(is_limit(x, col) for x in (node.left, node.comparators[0])) \
                        and not no_limit_guard(node, col):
                    hits.append((o, node))
        rep.instance('R4', f'__validate_nstype_constraints: rejections conditioned on {col}: {sorted({ctext(n) for _, n in hits})}')
        if not hits:
            rep.violation('R4', loc(vmod, vn), 'NetworkService.__validate_nstype_constraints', f'{col} never compared',
                          f'no comparison against the {col} limit was found')
            continue
        for o, node in hits:
            l, r, op_ = node.left, node.comparators[0], node.ops[0]
            # canonical form has only < and <= (mirrored); "fewer than the limit": len < limit ; "more than the limit": limit < len
            ok = isinstance(op_, ast.Lt) and ((sense == 'fewer' and is_len_of(l, names) and is_limit(r, col)) or
                                              (sense == 'more' and is_limit(l, col) and is_len_of(r, names)))
            if not ok:
                rep.violation('R4', loc(vmod, o.stmt), 'NetworkService.__validate_nstype_constraints', ctext(node),
                              f'column {col} must reject exactly when the count is {"below" if sense == "fewer" else "above"} the limit')
            if not any(no_limit_guard(n2, col) for n2 in o.cond_nodes):
                rep.violation('R4', loc(vmod, o.stmt), 'NetworkService.__validate_nstype_constraints',
                              f'{col} test not behind != NO_LIMIT', f'the {col} limit is applied even when it is NO_LIMIT (0)')
    # the site limit is applied to the complete set of sites: the test is evaluated after the loop that collects the sites, or
    # inside it after the site of the current interface has been added
    for ss in site_sets:
        adds = [c for c in ast.walk(vn) if isinstance(c, ast.Call) and call_name(c) == 'add' and isinstance(c.func.value, ast.Name) and c.func.value.id == ss]
        tests = [n for n in ast.walk(vn) if isinstance(n, ast.If) and any(isinstance(x, ast.Raise) for x in n.body) and
                 any(is_len_of(x, {ss}) for x in ast.walk(n.test))]
        vcfg = CFG(vn)
        vdom = vcfg.dominators()
        for t in tests:
            loops_t = [p_ for p_ in _ancestors(t, vn) if isinstance(p_, (ast.For, ast.While))]
            coll = [l for l in loops_t if any(any(x is a for x in ast.walk(l)) for a in adds)]
            okt = True
            if coll:
                tn = flow.node_of(vcfg, t.test)
                okt = tn is not None and any(flow.node_of(vcfg, a) is not None and flow.node_of(vcfg, a).id in vdom.get(tn.id, ()) and
                                             _same_iteration(a, t, coll[0]) for a in adds)
            rep.instance('R4', f'__validate_nstype_constraints: site limit test {norm(t.test, 70)} sees the complete site set: {okt}')
            if not okt:
                rep.violation('R4', loc(vmod, t), 'NetworkService.__validate_nstype_constraints', 'site limit tested before the current site is counted',
                              'the site limit is compared inside the loop that collects the sites, before the site of the interface being '
                              'examined is added: the site of the last interface is never counted, so a service spanning one site too many validates')
    # num_instances in Topology.validate
    tvenv_ = local_env(tv)
    ni = [n for n in ast.walk(tv) if isinstance(n, ast.If) and isinstance(n.test, ast.Compare) and
          '.num_instances' in ast.unparse(expand(n.test, tvenv_)) and 'NO_LIMIT' not in ast.unparse(expand(n.test, tvenv_))]
    rep.instance('R4', f'Topology.validate: {[norm(n.test, 100) for n in ni]}')
    def _is_site_count(e, at):
        # the compared quantity is the per-site tally: the value variable of a loop over the items/values of a dictionary
        # that is incremented per service (or that dictionary indexed by the key variable of a loop over it)
        if isinstance(e, ast.Subscript) and isinstance(e.value, ast.Name) and isinstance(e.slice, ast.Name):
            for l in [p_ for p_ in _ancestors(at, tv) if isinstance(p_, ast.For)]:
                it = l.iter
                if isinstance(it, ast.Call) and isinstance(it.func, ast.Attribute) and it.func.attr == 'keys':
                    it = it.func.value
                if isinstance(it, ast.Name) and it.id == e.value.id and isinstance(l.target, ast.Name) and l.target.id == e.slice.id:
                    d = it.id
                    return any(isinstance(a, ast.AugAssign) and isinstance(a.op, ast.Add) and isinstance(a.target, ast.Subscript) and
                               isinstance(a.target.value, ast.Name) and a.target.value.id == d for a in ast.walk(tv))
            return False
        if not isinstance(e, ast.Name):
            return False
        for l in [p_ for p_ in _ancestors(at, tv) if isinstance(p_, ast.For)]:
            it = l.iter
            if not (isinstance(it, ast.Call) and isinstance(it.func, ast.Attribute) and it.func.attr in ('items', 'values') and
                    isinstance(it.func.value, (ast.Name, ast.Call))):
                continue
            tgt = l.target
            val = tgt.elts[1] if it.func.attr == 'items' and isinstance(tgt, ast.Tuple) and len(tgt.elts) == 2 else (tgt if it.func.attr == 'values' else None)
            if isinstance(val, ast.Name) and val.id == e.id and isinstance(it.func.value, ast.Call):
                # the tally is what a private helper of the class returns: a dictionary it increments per service
                from ..normalize import resolve_helper
                rh = resolve_helper(prog, topo, topo.module, it.func.value)
                if rh is None:
                    return False
                hfn = rh[0]
                rets = {r_.value.id for r_ in walk_no_nested(hfn) if isinstance(r_, ast.Return) and isinstance(r_.value, ast.Name)}
                return bool(rets) and any(isinstance(a, ast.AugAssign) and isinstance(a.op, ast.Add) and isinstance(a.target, ast.Subscript) and
                                          isinstance(a.target.value, ast.Name) and a.target.value.id in rets for a in ast.walk(hfn))
            if isinstance(val, ast.Name) and val.id == e.id:
                d = it.func.value.id
                dx = expand(it.func.value, local_env(tv))     # the tally named once more (what an inlined helper's return leaves behind)
                ds = {d} | ({dx.id} if isinstance(dx, ast.Name) else set())
                return any(isinstance(a, ast.AugAssign) and isinstance(a.op, ast.Add) and isinstance(a.target, ast.Subscript) and
                           isinstance(a.target.value, ast.Name) and a.target.value.id in ds for a in ast.walk(tv))
        return False
    if not ni or not (_is_site_count(expand(ni[0].test.left, local_env(tv)), ni[0]) and isinstance(ni[0].test.ops[0], ast.Gt)
                      and any(isinstance(x, ast.Raise) for x in ni[0].body)):
        rep.violation('R4', loc(topo.module, tv), 'Topology.validate', 'num_instances comparison',
                      'the per-site instance count must be rejected when count > num_instances')
    # required / forbidden property tests
    def _table_field(e, env):
        """Which column of a constraint table the expression resolves to (locals expanded), or None."""
        e = expand(e, env)
        if isinstance(e, ast.Attribute) and 'Constraints' in ast.unparse(e.value):
            return e.attr
        return None
    for cls, fn in ((uns, vc), (unode, nvc)):
        fq = f'{cls.name}.validate_constraints'
        fenv = local_env(fn)
        seen_cols = set()
        for n in walk_no_nested(fn):
            col = _table_field(n.iter, fenv) if isinstance(n, ast.For) else None
            if col in ('required_properties', 'forbidden_properties') and isinstance(n.target, ast.Name):
                seen_cols.add(col)
                var = n.target.id
                ifs = [x for x in n.body if isinstance(x, ast.If)]
                rep.instance('R4', f'{fq}: {col}: {norm(ifs[0].test, 110) if ifs else "?"}')
                if len(ifs) != 1 or not any(isinstance(x, ast.Raise) for x in ifs[0].body):
                    rep.violation('R4', loc(cls.module, n), fq, f'{col} loop does not raise',
                                  'the property constraint loop must raise on a violation')
                    continue
                test_ = ifs[0].test
                # a local predicate (nested def / lambda) applied to the loop variable stands for its returned expression
                for c in [c for c in ast.walk(test_) if isinstance(c, ast.Call) and isinstance(c.func, ast.Name) and len(c.args) == 1 and
                          isinstance(c.args[0], ast.Name) and c.args[0].id == var and not c.keywords]:
                    for d in ast.walk(fn):
                        body_ = None
                        if isinstance(d, ast.FunctionDef) and d.name == c.func.id and len(d.args.args) == 1 and len(d.body) >= 1 and \
                                isinstance(d.body[-1], ast.Return) and d.body[-1].value is not None and \
                                all(isinstance(x, ast.Expr) and isinstance(x.value, ast.Constant) for x in d.body[:-1]):
                            body_, par_ = d.body[-1].value, d.args.args[0].arg
                        elif isinstance(d, ast.Assign) and isinstance(d.value, ast.Lambda) and any(isinstance(t, ast.Name) and t.id == c.func.id for t in d.targets) \
                                and len(d.value.args.args) == 1:
                            body_, par_ = d.value.body, d.value.args.args[0].arg
                        if body_ is not None:
                            sub = clone(body_)
                            for x in ast.walk(sub):
                                if isinstance(x, ast.Name) and x.id == par_:
                                    x.id = var
                            test_ = sub if c is test_ else _replace_node(test_, c, sub)
                            break
                named = [c for c in ast.walk(test_) if isinstance(c, ast.Call) and call_name(c) in ('get_property', 'property_exists')]
                ok = bool(named) and all(c.args and isinstance(c.args[0], ast.Name) and c.args[0].id == var for c in named) and \
                    cond_rejects(test_, var, None, required=(col == 'required_properties'))
                if not ok:
                    kind = 'required' if col == 'required_properties' else 'forbidden'
                    rep.violation('R4', loc(cls.module, ifs[0]), fq, f'{kind}-property test',
                                  f'the {kind}-property test must reject ' +
                                  ('when the property is missing or falsy' if kind == 'required' else 'when the property is set') +
                                  f' (found `{norm(ifs[0].test, 120)}`)')
        for col in ('required_properties', 'forbidden_properties'):
            if col not in seen_cols:
                rep.violation('R4', loc(cls.module, fn), fq, f'{col} loop missing', f'no loop over the {col} column of the constraint table rejects a violation')
    # required interface types: every interface handed in is rejected unless its type is in the column
    venv = local_env(vc)
    rit_ok = False
    rit_desc = []
    for l in [n for n in walk_no_nested(vc) if isinstance(n, ast.For) and isinstance(n.target, ast.Name)]:
        if ast.unparse(expand(l.iter, venv)) not in func_params(vc):
            continue
        for t in [x for x in ast.walk(l) if isinstance(x, ast.If) and any(isinstance(r_, ast.Raise) for r_ in x.body)]:
            tc = canon(t.test)
            rit_desc.append(norm(tc, 80))
            if isinstance(tc, ast.Compare) and isinstance(tc.ops[0], ast.NotIn) and ast.unparse(tc.left) == f'{l.target.id}.type' and \
                    _table_field(tc.comparators[0], venv) == 'required_interface_types':
                rit_ok = True
    rep.instance('R4', f'validate_constraints: interface type test {rit_desc}')
    if not rit_ok:
        rep.violation('R4', loc(vmod, vc), 'NetworkService.validate_constraints', 'required_interface_types test',
                      'an interface whose type is not among the required interface types must be rejected')

    # R5 guardrails dominate service port creation
    ci = uns.methods.get('connect_interface')
    if ci is None:
        raise AnalysisError('connect_interface vanished')
    ci = inline(prog, uns, ci)
    cienv = local_env(ci)
    cfg = CFG(ci)
    dom = cfg.dominators()

    def mentions_enum(node, enum, member):
        return any(isinstance(x, ast.Attribute) and x.attr == member and isinstance(x.value, ast.Name) and x.value.id == enum for x in ast.walk(node))
    # the rejection "shared port on an L2PTP service": a raise all of whose guards hold when the service type is L2PTP and
    # the interface type SharedPort, and not all of them for a dedicated port (if-tests, tables and temporaries alike)
    ciparam = [p_ for p_ in func_params(ci) if p_ != 'self'][0]
    fold5 = lambda e_: prog.const_eval(e_, vmod, uns)
    l2ptp = prog.const_eval(ast.parse('ServiceType.L2PTP', mode='eval').body, vmod, uns)
    shared_ = prog.const_eval(ast.parse('InterfaceType.SharedPort', mode='eval').body, vmod, uns)
    dedic_ = prog.const_eval(ast.parse('InterfaceType.DedicatedPort', mode='eval').body, vmod, uns)

    def _root(e):
        while isinstance(e, (ast.Attribute, ast.Call, ast.Subscript)):
            e = e.func if isinstance(e, ast.Call) else e.value
        return e.id if isinstance(e, ast.Name) else None
    guard_tests = []
    for r_ in walk_no_nested(ci):
        if not isinstance(r_, ast.Raise):
            continue
        _, cs_ = _enclosing(r_, ci)
        cs_ = [canon(expand(c_, cienv)) for c_ in cs_ if getattr(c_, '_guard', None) != 'Raise']
        if not cs_:
            continue
        discr = {}
        for c_ in cs_:
            for x in ast.walk(c_):
                if (isinstance(x, ast.Call) and call_name(x) == 'get_type' and not x.args) or \
                        (isinstance(x, ast.Attribute) and x.attr in ('type', 'resource_type') and not isinstance(getattr(x, '_parent', None), ast.Call)):
                    discr[ctext(x)] = 'iface' if _root(x) == ciparam else 'service'

        def rejects(itype):
            bind = {k_: (itype if v_ == 'iface' else l2ptp) for k_, v_ in discr.items()}
            try:
                return all(truth_under(c_, bind, fold5) for c_ in cs_)
            except Unknown:
                return False
            except Exception:
                return False
        if discr and rejects(shared_) and not rejects(dedic_):
            guard_tests.append(r_)
    creates = [n for n in cfg.nodes if n.ast is not None and n.kind == 'stmt' and
               any(isinstance(c, ast.Call) and isinstance(c.func, ast.Name) and c.func.id in ('Interface', 'Link')
                   and any(k.arg == 'etype' and 'NEW' in ast.unparse(k.value) for k in c.keywords)
                   for c in walk_no_nested(n.ast))]
    if not creates:
        raise AnalysisError('connect_interface no longer creates the peer Interface/Link in the recognised way')
    rep.instance('R5', f'connect_interface: L2PTP + SharedPort rejection present: {bool(guard_tests)}')
    if not guard_tests:
        rep.violation('R5', loc(vmod, ci), 'NetworkService.connect_interface', 'L2PTP/SharedPort rule missing',
                      'the guardrails no longer refuse a shared port on an L2PTP service (or connect_interface no longer runs them)')
    # the tests that lead to that rejection are evaluated on every path to the creation of the port / link
    gtests = set()
    for r_ in guard_tests:
        p_ = getattr(r_, '_parent', None)
        while p_ is not None and p_ is not ci:
            if isinstance(p_, ast.If):
                tn = flow.node_of(cfg, p_.test)
                if tn is not None:
                    gtests.add(tn.id)
            p_ = getattr(p_, '_parent', None)
    for cr in creates:
        okd = bool(gtests) and any(g in dom.get(cr.id, set()) for g in gtests)
        rep.instance('R5', f'connect_interface: {norm(cr.ast, 80)} dominated by guardrails: {okd}')
        if guard_tests and not okd:
            rep.violation('R5', loc(vmod, cr.ast), 'NetworkService.connect_interface', norm(cr.ast, 100),
                          'a service port / link is created on a path that never ran the service guardrails: '
                          'connect_interface() called directly attaches combinations the service type cannot support '
                          '(e.g. a shared port to an L2PTP service)')
    # other creators of ServicePorts must go through connect_interface or be peer()/add_interface (substrate API)
    for m, cls, fn in prog.all_functions():
        if not m.name.startswith('fim.user'):
            continue
        for c in walk_no_nested(fn):
            if isinstance(c, ast.Call) and isinstance(c.func, ast.Name) and c.func.id == 'Interface' and \
                    any(k.arg == 'itype' and 'ServicePort' in ast.unparse(k.value) for k in c.keywords):
                fqn = (cls.name + '.' if cls else '') + fn.name
                rep.instance('R5', f'ServicePort created in {fqn}')
                if fqn != 'NetworkService.connect_interface':
                    rep.violation('R5', loc(m, c), fqn, norm(c, 100),
                                  f'{fqn} creates a ServicePort outside connect_interface, bypassing the guardrails')

    # R6 site inference / agreement: outcomes (rejections and stores of self.site) over the feasible paths of the function
    def site_sink(st):
        if isinstance(st, ast.Raise):
            return (ast.Constant(value='reject'), ast.Constant(value='reject'))
        if isinstance(st, ast.Assign) and any(ast.unparse(t) == 'self.site' for t in st.targets):
            return (ast.Constant(value='store'), st.value)
        return None
    try:
        souts = branch_values(vn.body, site_sink, follow_loops=True, opaque=tuple(site_sets), max_paths=20000)
    except Unknown as u:
        raise AnalysisError(f'__validate_nstype_constraints not analysable: {u}')

    def is_inferred(e):
        return any(isinstance(x, ast.Name) and x.id in site_sets for x in ast.walk(e))

    def site_counts(nodes):
        """the numbers of collected sites (0, 1, 2, 3 = more) compatible with every path condition that talks about the
        size of the site set"""
        dom = {0, 1, 2, 3}
        import operator as _op
        OPS = {ast.Eq: _op.eq, ast.NotEq: _op.ne, ast.Lt: _op.lt, ast.LtE: _op.le, ast.Gt: _op.gt, ast.GtE: _op.ge}

        def ev(n, k):
            if isinstance(n, ast.UnaryOp) and isinstance(n.op, ast.Not):
                r = ev(n.operand, k)
                return None if r is None else not r
            if isinstance(n, ast.BoolOp):
                rs = [ev(v, k) for v in n.values]
                if isinstance(n.op, ast.And):
                    return False if any(r is False for r in rs) else (None if any(r is None for r in rs) else True)
                return True if any(r is True for r in rs) else (None if any(r is None for r in rs) else False)
            if isinstance(n, ast.Name) and n.id in site_sets:
                return k > 0
            if isinstance(n, ast.Compare) and len(n.ops) == 1 and type(n.ops[0]) in OPS:
                l, r = n.left, n.comparators[0]
                if is_len_of(l, site_sets) and isinstance(r, ast.Constant) and isinstance(r.value, int):
                    return OPS[type(n.ops[0])](k, r.value)
                if is_len_of(r, site_sets) and isinstance(l, ast.Constant) and isinstance(l.value, int):
                    return OPS[type(n.ops[0])](l.value, k)
            return None
        for n in nodes:
            dom = {k for k in dom if ev(n, k) is not False}
        return dom

    def one_site(conds, nodes=None):
        if any(t in conds for ss in site_sets for t in (f'1 == len({ss})', f'len({ss}) == 1')):
            return True
        return nodes is not None and site_counts(nodes) == {1}
    stores_ok = compares_ok = multi_ok = False
    for o in souts:
        kind_ = o.target.value if isinstance(o.target, ast.Constant) else None
        cs = set(o.conds)
        if kind_ == 'store' and is_inferred(o.value) and one_site(cs, o.cond_nodes) and 'not self.site' in cs:
            stores_ok = True
        if kind_ == 'reject':
            ne = [n for n in o.cond_nodes if isinstance(n, ast.Compare) and isinstance(n.ops[0], ast.NotEq) and
                  {'declared' if ctext(x) == 'self.site' else ('inferred' if is_inferred(x) else 'other') for x in (n.left, n.comparators[0])} == {'declared', 'inferred'}]
            if ne and one_site(cs, o.cond_nodes) and 'self.site' in cs:
                compares_ok = True
            limit_rejection = any(isinstance(n, ast.Compare) and isinstance(n.ops[0], ast.Lt) and is_limit(n.left) and is_len_of(n.comparators[0], site_sets | {iparam})
                                  for n in o.cond_nodes) or any(isinstance(n, ast.Compare) and isinstance(n.ops[0], ast.Lt) and is_limit(n.comparators[0]) for n in o.cond_nodes)
            if 'self.site' in cs and not (site_counts(o.cond_nodes) & {0, 1}) and not ne and not limit_rejection:
                multi_ok = True
    rep.instance('R6', f'site outcomes: inferred site stored when undeclared={stores_ok}; declared compared with inferred={compares_ok}; multi-site with declared site rejected={multi_ok}')
    if not stores_ok:
        rep.violation('R6', loc(vmod, vn), 'NetworkService.__validate_nstype_constraints', 'inferred site not stored',
                      'when no site was declared, validation must record the site inferred from the interfaces')
    if not compares_ok:
        rep.violation('R6', loc(vmod, vn), 'NetworkService.__validate_nstype_constraints',
                      'declared site is not compared with the inferred site',
                      'there is no feasible path on which a declared site that differs from the site inferred from the connected '
                      'interfaces is rejected (the comparison is missing, compares the declared site with itself, or sits behind a '
                      'condition that excludes declared sites): a service declared at one site over interfaces of another site validates')
    if not multi_ok:
        rep.violation('R6', loc(vmod, vn), 'NetworkService.__validate_nstype_constraints', 'multi-site with declared site accepted',
                      'a multi-site service with a declared site must be rejected')


def _plain(v):
    """JSON-able form of a folded constant (enum members by name, records as dicts, sets sorted)"""
    if hasattr(v, 'enum') and hasattr(v, 'name'):
        return f'{v.enum}.{v.name}'
    if isinstance(v, dict):
        return {str(_plain(k)): _plain(x) for k, x in v.items()}
    if isinstance(v, (list, tuple)):
        return [_plain(x) for x in v]
    if isinstance(v, (set, frozenset)):
        return sorted(str(_plain(x)) for x in v)
    if isinstance(v, (str, int, float, bool)) or v is None:
        return v
    return repr(v)


TABLES = [('fim.slivers.network_service:NetworkServiceSliver', 'ServiceConstraints'),
          ('fim.slivers.network_node:NodeSliver', 'NodeConstraints'),
          ('fim.slivers.network_link:NetworkLinkSliver', 'LinkConstraints')]


def constraint_tables_as_json(prog):
    out = {}
    for spec, tname in TABLES:
        cls = prog.cls(spec)
        tbl = _plain(prog.class_const(cls, tname))
        # the free-text description of an entry is not a constraint
        out[tname] = {k: ({c: v for c, v in rec.items() if c != 'desc'} if isinstance(rec, dict) else rec) for k, rec in tbl.items()}
    return out


def check_pinned_tables(prog, rep, rule):
    """The documented per-type constraints are the tables as pinned under /verif/data; an edit to a table entry is reported
    with the entry and column (values are compared after folding, so reformatting the source is invisible)."""
    import json
    import os
    ref_path = os.path.join(os.path.dirname(os.path.dirname(os.path.dirname(os.path.abspath(__file__)))), 'data', 'c10_constraints.json')
    if not os.path.exists(ref_path):
        raise AnalysisError('pinned constraint tables (data/c10_constraints.json) missing')
    with open(ref_path) as f:
        ref = json.load(f)
    cur = constraint_tables_as_json(prog)
    for spec, tname in TABLES:
        cls = prog.cls(spec)
        r, c = ref.get(tname, {}), cur.get(tname, {})
        for key in sorted(set(r) | set(c)):
            rep.instance(rule, f'{tname}[{key}] equals the pinned entry: {r.get(key) == c.get(key)}')
            if key not in c:
                rep.violation(rule, loc(cls.module, cls.assigns[tname]), f'{cls.name}.{tname}', f'{key}: entry removed', f'the constraint entry for {key} was removed')
            elif key not in r:
                rep.violation(rule, loc(cls.module, cls.assigns[tname]), f'{cls.name}.{tname}', f'{key}: entry not in the pinned table',
                              f'a constraint entry for {key} was added that the pinned (documented) table does not have; re-pin with tools/pin_constraints.py if intended')
            elif r[key] != c[key]:
                cols = sorted(k2 for k2 in set(r[key]) | set(c[key]) if r[key].get(k2) != c[key].get(k2)) if isinstance(r[key], dict) and isinstance(c[key], dict) else ['value']
                for col in cols:
                    was = r[key].get(col) if isinstance(r[key], dict) else r[key]
                    now = c[key].get(col) if isinstance(c[key], dict) else c[key]
                    rep.violation(rule, loc(cls.module, cls.assigns[tname]), f'{cls.name}.{tname}', f'{key}.{col}: {was!r} -> {now!r}',
                                  f'the documented constraint {col} of {key} is {was!r}; the table now says {now!r}: validation accepts / rejects '
                                  f'other topologies than documented')


def _ancestors(node, fn):
    p = getattr(node, '_parent', None)
    while p is not None and p is not fn:
        yield p
        p = getattr(p, '_parent', None)


def _same_iteration(add_call, test_if, loop):
    """the add statement precedes the test in the body of `loop` (so within one iteration the test sees the new element)"""
    def top(n):
        while getattr(n, '_parent', None) is not loop:
            n = n._parent
        return n
    body = list(loop.body)
    ta, tt = top(add_call), top(test_if)
    if any(x is ta for x in body) and any(x is tt for x in body):
        return [i for i, x in enumerate(body) if x is ta][0] < [i for i, x in enumerate(body) if x is tt][0]
    return False


def cond_rejects(test, var, sv, required):
    """Evaluate the boolean structure of the required/forbidden test under the 4 combinations of
    (property_exists, value truthy) and compare with the specification."""
    def ev(e, exists, truthy):
        if isinstance(e, ast.BoolOp):
            vals = [ev(v, exists, truthy) for v in e.values]
            if None in vals:
                return None
            return all(vals) if isinstance(e.op, ast.And) else any(vals)
        if isinstance(e, ast.UnaryOp) and isinstance(e.op, ast.Not):
            v = ev(e.operand, exists, truthy)
            return None if v is None else (not v)
        if isinstance(e, ast.Call):
            cn = call_name(e)
            if isinstance(e.func, ast.Name) and e.func.id == 'bool' and len(e.args) == 1:
                return ev(e.args[0], exists, truthy)
            if cn == 'property_exists':
                return exists
            if cn == 'get_property':
                return truthy if exists else None
        return None
    ok = True
    for exists in (True, False):
        for truthy in (True, False):
            if not exists and truthy:
                continue
            try:
                v = _short_circuit(test, exists, truthy, ev)
            except Exception:
                return False
            if required:
                want = (not exists) or (not truthy)
            else:
                want = exists and truthy
            if v is None:
                # get_property evaluated on a non-existing property
                if 'property_exists' in ast.unparse(test):
                    return False
                v = (not truthy) if required else truthy
                want = (not truthy) if required else truthy
            if v != want:
                ok = False
    return ok


def _short_circuit(e, exists, truthy, ev):
    """python short-circuit evaluation so that get_property is not 'called' when guarded by property_exists."""
    if isinstance(e, ast.BoolOp):
        if isinstance(e.op, ast.And):
            for v in e.values:
                r = _short_circuit(v, exists, truthy, ev)
                if r is None:
                    return None
                if not r:
                    return False
            return True
        for v in e.values:
            r = _short_circuit(v, exists, truthy, ev)
            if r is None:
                return None
            if r:
                return True
        return False
    if isinstance(e, ast.UnaryOp) and isinstance(e.op, ast.Not):
        r = _short_circuit(e.operand, exists, truthy, ev)
        return None if r is None else (not r)
    if isinstance(e, ast.Call) and isinstance(e.func, ast.Name) and e.func.id == 'bool' and len(e.args) == 1 and not e.keywords:
        return _short_circuit(e.args[0], exists, truthy, ev)
    return ev(e, exists, truthy)


def analyse_single_site(stmts):
    """Tiny path analysis. Abstract values: 'declared' (value of self.site on entry), 'inferred' (from `sites`).
    Explore the two worlds declared-truthy / declared-falsy."""
    out = {'stores_inferred_when_undeclared': False, 'compares_declared_with_inferred': False}

    def kind(e, env, site_state):
        if isinstance(e, ast.Attribute) and ast.unparse(e) == 'self.site':
            return site_state[0]
        if isinstance(e, ast.Name):
            return env.get(e.id)
        if isinstance(e, ast.Call) and 'sites' in ast.unparse(e):
            return 'inferred'
        if isinstance(e, ast.Subscript) and 'sites' in ast.unparse(e):
            return 'inferred'
        return None

    def truth(e, env, site_state, declared_truthy):
        """truth value of a condition if it only depends on the declared site; else None"""
        if isinstance(e, ast.UnaryOp) and isinstance(e.op, ast.Not):
            t = truth(e.operand, env, site_state, declared_truthy)
            return None if t is None else (not t)
        k = kind(e, env, site_state)
        if k == 'declared':
            return declared_truthy
        if k == 'inferred':
            return True
        if isinstance(e, ast.BoolOp) and isinstance(e.op, ast.And):
            vals = [truth(v, env, site_state, declared_truthy) for v in e.values]
            if any(v is False for v in vals):
                return False
            if all(v is True for v in vals):
                return True
            return None
        return None

    def compare_kinds(e, env, site_state):
        res = []
        for n in ast.walk(e):
            if isinstance(n, ast.Compare) and isinstance(n.ops[0], (ast.NotEq, ast.Eq)):
                res.append({kind(n.left, env, site_state), kind(n.comparators[0], env, site_state)})
        return res

    def run_block(stmts, env, site_state, declared_truthy):
        for st in stmts:
            if isinstance(st, ast.Assign):
                k = kind(st.value, env, site_state)
                for t in st.targets:
                    if isinstance(t, ast.Name):
                        env[t.id] = k
                    elif ast.unparse(t) == 'self.site':
                        site_state[0] = k
                        if k == 'inferred' and not declared_truthy:
                            out['stores_inferred_when_undeclared'] = True
            elif isinstance(st, ast.If):
                has_raise = any(isinstance(x, ast.Raise) for x in st.body)
                t = truth(st.test, env, site_state, declared_truthy)
                if has_raise and declared_truthy:
                    # is this guard live in the declared world, and what does it compare?
                    conj = st.test.values if isinstance(st.test, ast.BoolOp) and isinstance(st.test.op, ast.And) else [st.test]
                    dead = any(truth(c, env, site_state, declared_truthy) is False for c in conj
                               if not isinstance(c, ast.Compare))
                    if not dead:
                        for ks in compare_kinds(st.test, env, site_state):
                            if ks == {'declared', 'inferred'}:
                                out['compares_declared_with_inferred'] = True
                if t is True:
                    run_block(st.body, env, site_state, declared_truthy)
                elif t is False:
                    run_block(st.orelse, env, site_state, declared_truthy)
                else:
                    e1, s1 = dict(env), list(site_state)
                    run_block(st.body, e1, s1, declared_truthy)
                    run_block(st.orelse, env, site_state, declared_truthy)
    for declared_truthy in (True, False):
        run_block(stmts, {}, ['declared'], declared_truthy)
    return out


UNSF = 'fim/user/network_service.py'
MUTANTS = [
    {'name': 'constraint-row-dropped', 'file': 'fim/slivers/network_link.py', 'rule': 'R1',
     'find': "        LinkType.L1Path: LinkConstraintRecord(layer=NSLayer.L1, num_interfaces=2,\n                                             desc='A wavelength.'),\n", 'replace': ''},
    {'name': 'forbidden-name-misspelled', 'file': 'fim/slivers/network_service.py', 'rule': 'R2',
     'find': "                                                        forbidden_properties=['controller_url'],",
     'replace': "                                                        forbidden_properties=['controller_uri'],"},
    {'name': 'num-interfaces-comparator-flipped', 'file': UNSF, 'rule': 'R4',
     'find': 'if len(interfaces) > NetworkServiceSliver.ServiceConstraints[nstype].num_interfaces:',
     'replace': 'if len(interfaces) >= NetworkServiceSliver.ServiceConstraints[nstype].num_interfaces:'},
    {'name': 'min-interfaces-nolimit-guard-dropped', 'file': UNSF, 'rule': 'R4',
     'find': '            if NetworkServiceSliver.ServiceConstraints[nstype].min_interfaces != NetworkServiceSliver.NO_LIMIT:\n                if len(interfaces) <',
     'replace': '            if True:\n                if len(interfaces) <'},
    {'name': 'guardrails-not-called-in-connect', 'file': UNSF, 'rule': 'R5',
     'find': '        self.__service_guardrails(\n            self.topo.graph_model.network_service_sliver_from_graph_properties_dict(node_properties), interface)\n',
     'replace': ''},
    {'name': 'site-compared-with-itself', 'file': UNSF, 'rule': 'R6',
     'find': '            inferred_site = sites.pop()\n            if not old_site:\n                self.site = inferred_site\n            elif old_site != inferred_site:',
     'replace': '            if not self.site:\n                self.site = sites.pop()\n            if old_site and old_site != self.site:'},
    {'name': 'facilities-not-validated', 'file': 'fim/user/topology.py', 'rule': 'R3',
     'find': '        for n in self.facilities.values():\n            n.validate_constraints()\n', 'replace': ''},
    {'name': 'forbidden-test-inverted', 'file': UNSF, 'rule': 'R4',
     'find': '        for fp in forb_props:\n            if ns_sliver.get_property(fp):', 'replace': '        for fp in forb_props:\n            if not ns_sliver.get_property(fp):'},
]
TWINS = [
    {'name': 'comparator-mirrored', 'file': UNSF,
     'find': 'if len(interfaces) > NetworkServiceSliver.ServiceConstraints[nstype].num_interfaces:',
     'replace': 'if NetworkServiceSliver.ServiceConstraints[nstype].num_interfaces < len(interfaces):'},
]
