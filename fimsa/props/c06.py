"""
C06 -- neighbour and path queries return exactly what their contract describes.

R1 filter-loop integrity: `for X in S: if <test on X>: L.append(E)` followed by S.difference(L) must append X
R2 no collection is mutated while its live view is iterated
R3 filtering and edge dropping operate on a private copy: the graph comes from extract_graph, and extract_graph
   returns a copy / freshly built graph in both stores
R4 NetworkXNoPath is caught where it is raised (eager call inside the try; lazy generator consumed inside the try)
R5 first/second neighbour queries: relationship filter then label filter; the start node is removed from the result
R6 the derived helpers pass (relationship, class) pairs of the containment schema
"""
import ast

from ..core import AnalysisError, norm, loc, walk_no_nested, attr_chain, call_name
from .. import nxgraph as nxg
from ..schema import containment_schema

LIVE_VIEW_METHODS = {'edges', 'nodes', 'neighbors', 'adjacency', 'items', 'keys', 'values', 'successors', 'predecessors'}
SIZE_MUTATORS = {'remove_edge', 'remove_node', 'remove_edges_from', 'remove_nodes_from', 'add_edge', 'add_node',
                 'add_edges_from', 'add_nodes_from', 'pop', 'popitem', 'clear', 'remove', 'discard', 'add', 'append',
                 'insert', 'extend'}
# networkx path functions that raise NetworkXNoPath; lazy = raised when the returned generator is iterated
NOPATH_EAGER = {'shortest_path', 'shortest_path_length', 'dijkstra_path', 'astar_path', 'bidirectional_shortest_path',
                'bellman_ford_path', 'single_source_shortest_path'}
NOPATH_LAZY = {'shortest_simple_paths', 'all_shortest_paths'}


def run(prog, rep):
    rep.extra['explanation'] = (
        'The query implementations of the NetworkX backend are analysed for the two ways a filter silently stops '
        'filtering (drop list fed with the wrong variable; mutation of a view under iteration), for operating on a copy, '
        'for catching "no path" where it is actually raised, and for the order filter-by-relationship -> filter-by-label '
        '-> exclude the start node. The helper traversals are compared with the containment schema. Exactness over all '
        'graphs and optimality of the path-with-hops result are not decided.')
    rep.rule('R1', 'drop-list filters append their own loop variable', floor=4)
    rep.rule('R2', 'no mutation of a collection while iterating its live view', floor=10)
    rep.rule('R3', 'queries filter a private copy of the graph', floor=6)
    rep.rule('R4', 'NetworkXNoPath is caught where it is raised', floor=1)
    rep.rule('R5', 'neighbour queries filter by relationship, then by label, and exclude the start node', floor=4)
    rep.rule('R6', 'helper traversals use schema pairs', floor=5)

    nxpg = prog.cls(nxg.NXPG)
    mixin = prog.cls(nxg.MIXIN)

    # ---- R1 ----
    for cls in (nxpg, mixin):
        for name, fn in cls.methods.items():
            for loop in [n for n in walk_no_nested(fn) if isinstance(n, ast.For) and isinstance(n.target, ast.Name)]:
                var = loop.target.id
                for st in loop.body:
                    if isinstance(st, ast.If) and len(st.body) == 1 and isinstance(st.body[0], ast.Expr) and \
                            isinstance(st.body[0].value, ast.Call) and call_name(st.body[0].value) == 'append':
                        ap = st.body[0].value
                        lst = ast.unparse(ap.func.value)
                        # is the list later used as the argument of a difference() ?
                        used = any(isinstance(c, ast.Call) and call_name(c) == 'difference' and c.args and ast.unparse(c.args[0]) == lst
                                   for c in ast.walk(fn))
                        if not used:
                            continue
                        fq = f'{cls.name}.{name}'
                        arg = ast.unparse(ap.args[0])
                        rep.instance('R1', f'{fq}: for {var} in {norm(loop.iter, 40)}: ... {lst}.append({arg})')
                        tested = {x.id for x in ast.walk(st.test) if isinstance(x, ast.Name)}
                        if arg != var:
                            rep.violation('R1', loc(cls.module, ap), fq, f'for {var} in {norm(loop.iter, 40)}: {lst}.append({arg})',
                                          f'the drop list of the filter over `{var}` is fed with `{arg}`: elements that fail the '
                                          f'test are never removed, so the filter (here: the relationship restriction) is ineffective')
                        elif var not in tested:
                            rep.violation('R1', loc(cls.module, st), fq, f'test does not mention {var}: {norm(st.test, 80)}',
                                          'the filter test does not depend on the element being filtered')

    # ---- R2 ----
    for m, cls, fn in prog.all_functions():
        if not (m.name.startswith('fim.graph') or m.name.startswith('fim.user')):
            continue
        for loop in [n for n in walk_no_nested(fn) if isinstance(n, (ast.For, ast.AsyncFor))]:
            it = loop.iter
            base = None
            live = False
            if isinstance(it, ast.Call) and isinstance(it.func, ast.Attribute) and it.func.attr in LIVE_VIEW_METHODS:
                base = ast.unparse(it.func.value)
                live = True
            elif isinstance(it, ast.Attribute) and it.attr in ('nodes', 'edges'):
                base = ast.unparse(it.value)
                live = True
            elif isinstance(it, (ast.Name, ast.Attribute)):
                base = ast.unparse(it)
                live = True
            if not live or base is None:
                continue
            fq = (cls.name + '.' if cls else '') + fn.name
            muts = []
            for c in ast.walk(loop):
                if c is it:
                    continue
                if isinstance(c, ast.Call) and isinstance(c.func, ast.Attribute) and c.func.attr in SIZE_MUTATORS and \
                        ast.unparse(c.func.value) == base and not _inside(c, it):
                    muts.append(c)
                if isinstance(c, ast.Delete):
                    for t in c.targets:
                        if isinstance(t, ast.Subscript) and ast.unparse(t.value) == base:
                            muts.append(c)
            rep.instance('R2', f'{fq}: for ... in {norm(it, 50)} (live view of {base}); size-changing calls on {base} in body: {len(muts)}')
            for c in muts:
                rep.violation('R2', loc(m, c), fq, f'{norm(c, 70)} while iterating {norm(it, 50)}',
                              f'{base} is changed in size while a live view of it is being iterated: Python raises "changed '
                              f'size during iteration" (or skips elements) as soon as an element is actually removed')

    # ---- R3 ----
    st_shared = nxg.storage_class(prog, nxg.SHARED_SHELL)
    st_disj = nxg.storage_class(prog, nxg.DISJ_SHELL)
    for st in (st_shared, st_disj):
        eg = st.methods.get('extract_graph')
        if eg is None:
            raise AnalysisError(f'{st.name}.extract_graph vanished')
        fq = f'{st.name}.extract_graph'
        for r in [n for n in walk_no_nested(eg) if isinstance(n, ast.Return) and n.value is not None]:
            v = r.value
            if isinstance(v, ast.Constant) and v.value is None:
                continue
            src = v
            if isinstance(v, ast.Name):
                # resolve the local's definition
                defs = [n.value for n in walk_no_nested(eg) if isinstance(n, ast.Assign) and
                        any(isinstance(t, ast.Name) and t.id == v.id for t in n.targets)]
                src = defs[-1] if defs else v
            fresh = isinstance(src, ast.Call) and (call_name(src) in ('copy', 'deepcopy', 'from_dict_of_dicts', 'Graph', 'subgraph_copy')
                                                    or (call_name(src) == 'copy' and True))
            if isinstance(src, ast.Call) and call_name(src) == 'subgraph':
                fresh = False
            rep.instance('R3', f'{fq}: returns {norm(v)} = {norm(src, 60)}')
            if not fresh:
                rep.violation('R3', loc(st.module, r), fq, f'returns {norm(src, 80)}',
                              'extract_graph hands out the stored graph object itself instead of a copy: queries that prune '
                              'edges or filter nodes on "their" graph (relationship-restricted shortest path) delete edges from '
                              'the live model and corrupt every later query')
    for name in ('get_nodes_on_shortest_path', 'get_nodes_on_path_with_hops', 'get_first_neighbor', 'get_first_and_second_neighbor'):
        fn = nxpg.methods.get(name)
        if fn is None:
            raise AnalysisError(f'NetworkXPropertyGraph.{name} vanished')
        fq = f'NetworkXPropertyGraph.{name}'
        gvars = [n.targets[0].id for n in walk_no_nested(fn) if isinstance(n, ast.Assign) and isinstance(n.value, ast.Call)
                 and call_name(n.value) == 'extract_graph' and isinstance(n.targets[0], ast.Name)]
        rep.instance('R3', f'{fq}: works on {gvars} = storage.extract_graph(self.graph_id)')
        if not gvars:
            rep.violation('R3', loc(nxpg.module, fn), fq, 'does not work on an extracted copy', 'the query must operate on a private copy')
            continue
        g = gvars[0]
        for c in walk_no_nested(fn):
            if isinstance(c, ast.Call) and call_name(c) in ('_drop_edges_not_of_type', '_filter_nodes_by_label', '_get_first_neighbors_via',
                                                            'shortest_path', 'all_simple_paths', 'shortest_simple_paths', 'neighbors'):
                first = c.args[0] if c.args else None
                target = ast.unparse(first) if first is not None and call_name(c) != 'neighbors' else ast.unparse(c.func.value)
                if call_name(c) == 'neighbors':
                    target = ast.unparse(c.func.value)
                if target != g:
                    rep.violation('R3', loc(nxpg.module, c), fq, norm(c, 100),
                                  f'{call_name(c)} is applied to {target} rather than to the extracted copy {g}')

    # ---- R4 ----
    for cls in (nxpg, mixin):
        for name, fn in cls.methods.items():
            for c in walk_no_nested(fn):
                if not (isinstance(c, ast.Call) and ast.unparse(c.func).startswith('nx.')):
                    continue
                cn = call_name(c)
                if cn not in NOPATH_EAGER and cn not in NOPATH_LAZY:
                    continue
                fq = f'{cls.name}.{name}'
                if cn in NOPATH_EAGER:
                    raising = [c]
                    what = f'nx.{cn}(...)'
                else:
                    # consumption points of the generator
                    var = None
                    par = c
                    while par is not None and not isinstance(par, ast.stmt):
                        par = getattr(par, '_parent', None)
                    if isinstance(par, ast.Assign) and isinstance(par.targets[0], ast.Name):
                        var = par.targets[0].id
                    raising = []
                    for n in walk_no_nested(fn):
                        if isinstance(n, ast.For) and ((var and ast.unparse(n.iter) == var) or any(x is c for x in ast.walk(n.iter))):
                            raising.append(n)
                        if isinstance(n, ast.Call) and call_name(n) in ('list', 'next', 'tuple', 'sorted', 'min', 'max') and n.args and \
                                ((var and ast.unparse(n.args[0]) == var) or any(x is c for x in ast.walk(n.args[0]))):
                            raising.append(n)
                    what = f'iteration of nx.{cn}(...)'
                for r in raising:
                    caught = False
                    p = r
                    while p is not None and p is not fn:
                        child = p
                        p = getattr(p, '_parent', None)
                        if isinstance(p, ast.Try) and child in p.body:
                            for h in p.handlers:
                                ht = ast.unparse(h.type) if h.type is not None else ''
                                if h.type is None or 'NetworkXNoPath' in ht or ht in ('Exception', 'BaseException', 'nx.NetworkXException', 'nx.exception.NetworkXException'):
                                    caught = True
                    rep.instance('R4', f'{fq}: {what} caught={caught}')
                    if not caught:
                        rep.violation('R4', loc(cls.module, r), fq, f'{what} outside a NetworkXNoPath handler',
                                      'when the two end nodes are not connected networkx raises NetworkXNoPath at this point and '
                                      'nothing catches it: the query fails instead of returning an empty list')

    # ---- R5 ----
    def calls_named(fn, name):
        return [c for c in walk_no_nested(fn) if isinstance(c, ast.Call) and call_name(c) == name]

    def has_name_arg(call, name):
        return any(isinstance(a, ast.Name) and a.id == name for a in list(call.args) + [k.value for k in call.keywords])

    def neq_against(fn, name):
        """Compare nodes `<class-of-element> != <name>` (either operand order)"""
        out = []
        for n in ast.walk(fn):
            if isinstance(n, ast.Compare) and len(n.ops) == 1 and isinstance(n.ops[0], ast.NotEq):
                l, r = n.left, n.comparators[0]
                if isinstance(r, ast.Name) and r.id == name and 'NETWORKX_LABEL' in ast.unparse(l):
                    out.append((n, l))
                elif isinstance(l, ast.Name) and l.id == name and 'NETWORKX_LABEL' in ast.unparse(r):
                    out.append((n, r))
        return out

    fn1 = nxpg.methods['get_first_neighbor']
    via_calls = [c for c in calls_named(fn1, '_get_first_neighbors_via') if has_name_arg(c, 'rel')]
    lab_calls = [c for c in calls_named(fn1, '_filter_nodes_by_label') if has_name_arg(c, 'node_label')]
    rep.instance('R5', f'get_first_neighbor: relationship filter calls {len(via_calls)}, class filter calls {len(lab_calls)}')
    if not via_calls or not lab_calls or via_calls[0].lineno > lab_calls[0].lineno:
        rep.violation('R5', loc(nxpg.module, fn1), 'NetworkXPropertyGraph.get_first_neighbor', 'filter chain',
                      'first neighbours must be filtered by the requested relationship and then by the requested class')
    via = mixin.methods['_get_first_neighbors_via']
    fl = mixin.methods['_filter_nodes_by_label']
    for fn, view, param in ((via, 'edges', 'rel'), (fl, 'nodes', 'node_label')):
        cmps = neq_against(fn, param)
        ok = False
        for cmp_node, elem in cmps:
            loop = cmp_node
            while loop is not None and not isinstance(loop, ast.For):
                loop = getattr(loop, '_parent', None)
            if loop is None or not isinstance(loop.target, ast.Name):
                continue
            subs = [x for x in ast.walk(elem) if isinstance(x, ast.Subscript) and isinstance(x.value, ast.Attribute) and x.value.attr == view]
            if subs and any(isinstance(y, ast.Name) and y.id == loop.target.id for y in ast.walk(subs[0].slice)):
                ok = True
        rep.instance('R5', f'NetworkXMixin.{fn.name}: Class of graph.{view}[..] compared with {param}: {ok}')
        if not ok:
            rep.violation('R5', loc(mixin.module, fn), f'NetworkXMixin.{fn.name}', f'no `Class of {view}[element] != {param}` drop test',
                          f'elements whose Class differs from `{param}` must be dropped')
    fn2 = nxpg.methods['get_first_and_second_neighbor']
    checks = [
        ('first-hop relationship filter', bool(neq_against(fn2, 'rel1'))),
        ('first-hop class filter', any(has_name_arg(c, 'node1_label') for c in calls_named(fn2, '_filter_nodes_by_label'))),
        ('second-hop relationship filter', bool(neq_against(fn2, 'rel2'))),
        ('second-hop class filter', any(has_name_arg(c, 'node2_label') for c in calls_named(fn2, '_filter_nodes_by_label'))),
        ('exclusion of the start node', any(has_name_arg(c, 'real_node') for c in calls_named(fn2, 'remove') + calls_named(fn2, 'discard'))
         or any(isinstance(n, ast.Compare) and isinstance(n.ops[0], ast.NotEq) and 'real_node' in ast.unparse(n) and 'NETWORKX_LABEL' not in ast.unparse(n)
                for n in ast.walk(fn2))),
    ]
    rep.instance('R5', f'get_first_and_second_neighbor: {[(w, ok) for w, ok in checks]}')
    for what, ok in checks:
        if not ok:
            rep.violation('R5', loc(nxpg.module, fn2), 'NetworkXPropertyGraph.get_first_and_second_neighbor', f'{what} missing',
                          f'the two-hop query lost its {what}')
    sp = nxpg.methods['get_nodes_on_shortest_path']
    drop = [c for c in calls_named(sp, '_drop_edges_not_of_type') if has_name_arg(c, 'rel')]
    guarded = False
    for c in drop:
        p = c
        while p is not None and p is not sp:
            p = getattr(p, '_parent', None)
            if isinstance(p, ast.If) and ast.unparse(p.test) in ('rel is not None', 'rel'):
                guarded = True
    spc = calls_named(sp, 'shortest_path')
    ends_ok = False
    if spc:
        ends = [ast.unparse(a) for a in spc[0].args[1:3]] + [ast.unparse(k.value) for k in spc[0].keywords if k.arg in ('source', 'target')]
        finds = {}
        for n in walk_no_nested(sp):
            if isinstance(n, ast.Assign) and isinstance(n.value, ast.Call) and call_name(n.value) == '_find_node':
                finds[n.targets[0].id] = ast.unparse(kwarg_value(n.value, 'node_id'))
        ends_ok = len(ends) == 2 and finds.get(ends[0]) == 'node_a' and finds.get(ends[1]) == 'node_z'
    rep.instance('R5', f'get_nodes_on_shortest_path: restriction guarded={guarded} endpoints_ok={ends_ok}')
    if not drop or not guarded or not ends_ok:
        rep.violation('R5', loc(nxpg.module, sp), 'NetworkXPropertyGraph.get_nodes_on_shortest_path', 'relationship restriction / endpoints',
                      'the path must run between the two requested nodes over edges of the requested relationship only')
    dr = mixin.methods['_drop_edges_not_of_type']
    cm = neq_against(dr, 'rel')
    rm = calls_named(dr, 'remove_edge')
    rep.instance('R5', f'_drop_edges_not_of_type: test {norm(cm[0][0]) if cm else "?"} removes {norm(rm[0]) if rm else "?"}')
    ok = bool(cm) and bool(rm)
    if ok:
        ifn = cm[0][0]
        while ifn is not None and not isinstance(ifn, ast.If):
            ifn = getattr(ifn, '_parent', None)
        ok = ifn is not None and any(x is rm[0] for x in ast.walk(ifn))
    if not ok:
        rep.violation('R5', loc(mixin.module, dr), 'NetworkXMixin._drop_edges_not_of_type', 'drop test', 'edges whose Class differs from rel must be removed')
    wh = nxpg.methods['get_nodes_on_path_with_hops']
    allc = [c for c in calls_named(wh, 'all') if c.args and isinstance(c.args[0], (ast.GeneratorExp, ast.ListComp))
            and ast.unparse(c.args[0].generators[0].iter) == 'hops' and isinstance(c.args[0].elt, ast.Compare)
            and isinstance(c.args[0].elt.ops[0], ast.In)]
    shorter = [n for n in ast.walk(wh) if isinstance(n, ast.Compare) and isinstance(n.ops[0], (ast.Gt, ast.Lt)) and
               ast.unparse(n).count('len(') == 2 and 'result' in ast.unparse(n)]
    rep.instance('R5', f'get_nodes_on_path_with_hops: hop containment {bool(allc)}; shortest kept {bool(shorter)}')
    if not allc or not shorter:
        rep.violation('R5', loc(nxpg.module, wh), 'NetworkXPropertyGraph.get_nodes_on_path_with_hops', 'hop containment / shortest selection',
                      'a returned path must contain every requested hop and be the shortest such path found')

    # ---- R6 ----
    schema = containment_schema(prog)
    apg = prog.cls('fim.graph.abc_property_graph:ABCPropertyGraph')
    for name in ('get_all_ns_or_link_connection_points', 'get_all_child_connection_points', 'get_all_node_or_component_connection_points',
                 'find_peer_connection_points', 'get_parent'):
        fn = apg.methods.get(name)
        if fn is None:
            raise AnalysisError(f'ABCPropertyGraph.{name} vanished')
        for c in walk_no_nested(fn):
            if isinstance(c, ast.Call) and call_name(c) in ('get_first_neighbor', 'get_first_and_second_neighbor'):
                pairs = schema.pairs_of_call(c, apg)
                rep.instance('R6', f'ABCPropertyGraph.{name}: {pairs}')
                for rel, label in pairs:
                    if rel is None or label is None:
                        continue   # parameters (get_parent)
                    if not schema.has_pair(rel, label):
                        rep.violation('R6', loc(apg.module, c), f'ABCPropertyGraph.{name}', f'({rel}, {label})',
                                      f'no element is ever attached through ({rel}, {label}) by the model writers: the helper can never find anything')


def kwarg_value(call, name):
    for k in call.keywords:
        if k.arg == name:
            return k.value
    return call.args[0] if call.args else ast.Constant(None)


def _inside(node, container):
    return any(x is node for x in ast.walk(container))


NX = 'fim/graph/networkx_property_graph.py'
MX = 'fim/graph/networkx_mixin.py'
MUTANTS = [
    {'name': 'first-hop-drop-list-wrong-var', 'file': NX, 'rule': 'R1',
     'find': '            if graph.edges[(real_node, n)].get(self.NETWORKX_LABEL, None) != rel1:\n                neighbor_drop_list.append(n)',
     'replace': '            if graph.edges[(real_node, n)].get(self.NETWORKX_LABEL, None) != rel1:\n                neighbor_drop_list.append(real_node)'},
    {'name': 'drop-edges-iterates-live-view', 'file': MX, 'rule': 'R2',
     'find': '        for e in list(graph.edges(data=True)):', 'replace': '        for e in graph.edges(data=True):'},
    {'name': 'shortest-path-on-live-graph', 'file': NX, 'rule': 'R3',
     'find': '        # extract a graph\n        graph = self.storage.extract_graph(self.graph_id)\n        if graph is None:\n            raise PropertyGraphQueryException(graph_id=self.graph_id,\n                                              msg="Unable to find graph")\n        # if relationship specified',
     'replace': '        # extract a graph\n        graph = self.storage.get_graph(self.graph_id)\n        if graph is None:\n            raise PropertyGraphQueryException(graph_id=self.graph_id,\n                                              msg="Unable to find graph")\n        # if relationship specified'},
    {'name': 'shortest-path-outside-try', 'file': NX, 'rule': 'R4',
     'find': '        try:\n            sp = nx.shortest_path(graph, source=real_node_a, target=real_node_z)\n        except nx.exception.NetworkXNoPath:\n            return list()\n',
     'replace': '        sp = nx.shortest_path(graph, source=real_node_a, target=real_node_z)\n'},
    {'name': 'label-filter-inverted', 'file': MX, 'rule': 'R5',
     'find': '            if graph.nodes[n].get(NetworkXMixin.NETWORKX_LABEL, None) != node_label:\n                droplist.append(n)',
     'replace': '            if graph.nodes[n].get(NetworkXMixin.NETWORKX_LABEL, None) == node_label:\n                droplist.append(n)'},
    {'name': 'self-exclusion-dropped', 'file': NX, 'rule': 'R5',
     'find': '                if real_node in second_neighbors:\n                    second_neighbors.remove(real_node)\n', 'replace': ''},
]
TWINS = [
    {'name': 'loop-variable-renamed', 'file': MX,
     'find': '        for n in nodeset:\n            if graph.nodes[n].get(NetworkXMixin.NETWORKX_LABEL, None) != node_label:\n                droplist.append(n)',
     'replace': '        for node in nodeset:\n            if graph.nodes[node].get(NetworkXMixin.NETWORKX_LABEL, None) != node_label:\n                droplist.append(node)'},
]
