"""
C06 -- neighbour and path queries return exactly what their contract describes.

R1 filter-loop integrity: `for X in S: if <test on X>: L.append(E)` followed by S.difference(L) must append X
R2 no collection is mutated while its live view is iterated
R3 filtering and edge dropping operate on a private copy: the graph comes from extract_graph, and extract_graph
   returns a copy / freshly built graph in both stores
R4 NetworkXNoPath is caught where it is raised (eager call inside the try; lazy generator consumed inside the try)
R5 first/second neighbour queries: relationship filter then label filter; the start node is removed from the result
R6 the derived helpers pass (relationship, class) pairs of the containment schema
"""
import ast

from ..core import AnalysisError, norm, loc, walk_no_nested, attr_chain, call_name
from ..normalize import inline, builders, canon, conjuncts, ctext, local_env, expand, branch_values, Unknown
from ..core import func_params
from .. import nxgraph as nxg
from .. import flow
from ..schema import containment_schema

LIVE_VIEW_METHODS = {'edges', 'nodes', 'neighbors', 'adjacency', 'items', 'keys', 'values', 'successors', 'predecessors'}
SIZE_MUTATORS = {'remove_edge', 'remove_node', 'remove_edges_from', 'remove_nodes_from', 'add_edge', 'add_node',
                 'add_edges_from', 'add_nodes_from', 'pop', 'popitem', 'clear', 'remove', 'discard', 'add', 'append',
                 'insert', 'extend'}
# networkx path functions that raise NetworkXNoPath; lazy = raised when the returned generator is iterated
NOPATH_EAGER = {'shortest_path', 'shortest_path_length', 'dijkstra_path', 'astar_path', 'bidirectional_shortest_path',
                'bellman_ford_path', 'single_source_shortest_path'}
NOPATH_LAZY = {'shortest_simple_paths', 'all_shortest_paths'}


def run(prog, rep):
    rep.extra['explanation'] = (
        'The query implementations of the NetworkX backend are analysed for the two ways a filter silently stops '
        'filtering (drop list fed with the wrong variable; mutation of a view under iteration), for operating on a copy, '
        'for catching "no path" where it is actually raised, and for the order filter-by-relationship -> filter-by-label '
        '-> exclude the start node. The helper traversals are compared with the containment schema. Exactness over all '
        'graphs and optimality of the path-with-hops result are not decided.')
    rep.rule('R1', 'drop-list filters append their own loop variable', floor=4)
    rep.rule('R2', 'no mutation of a collection while iterating its live view', floor=10)
    rep.rule('R3', 'queries filter a private copy of the graph', floor=6)
    rep.rule('R4', 'NetworkXNoPath is caught where it is raised', floor=1)
    rep.rule('R5', 'neighbour queries filter by relationship, then by label, and exclude the start node', floor=4)
    rep.rule('R6', 'helper traversals use schema pairs', floor=5)

    nxpg = prog.cls(nxg.NXPG)
    mixin = prog.cls(nxg.MIXIN)

    # ---- R1 ----
    for cls in (nxpg, mixin):
        for name, fn0 in cls.methods.items():
            fn = nxg.method(prog, cls, fn0)
            fq = f'{cls.name}.{name}'
            for idx, (dname, b, use) in enumerate(drop_filters(fn)):
                if not b.gens:
                    continue
                tgt, it = b.gens[-1]
                if not isinstance(tgt, ast.Name):
                    continue
                var = tgt.id
                arg = ast.unparse(b.elt)
                rep.instance('R1', f'{fq}: for {var} in {norm(it, 40)}: ... {dname} += {arg}; used by {norm(use, 60)}')
                tested = {x.id for c_ in b.conds for x in ast.walk(c_) if isinstance(x, ast.Name)}
                outer = [ast.unparse(t_) for t_, _ in b.gens[:-1]]
                p_ = getattr(b.node, '_parent', None)
                while p_ is not None and p_ is not fn:
                    if isinstance(p_, (ast.For, ast.AsyncFor)):
                        outer.append(ast.unparse(p_.target))
                    p_ = getattr(p_, '_parent', None)
                if arg != var:
                    what = 'the variable of the enclosing loop' if arg in outer else 'something else'
                    rep.violation('R1', loc(cls.module, b.node), fq, f'drop-list filter #{idx + 1}: the element put on the drop list is not the loop variable but {what}',
                                  f'the drop list of the filter over `{var}` is fed with `{arg}`: elements that fail the '
                                  f'test are never removed, so the filter (here: the relationship restriction) is ineffective')
                elif var not in tested:
                    rep.violation('R1', loc(cls.module, b.node), fq, f'drop-list filter #{idx + 1}: test does not mention the loop variable',
                                  'the filter test does not depend on the element being filtered')
                # the drop list starts empty for every run of the filter loop
                if isinstance(b.node, ast.Call):
                    loop = b.node
                    while loop is not None and not (isinstance(loop, ast.For) and loop.target is tgt):
                        loop = getattr(loop, '_parent', None)
                    owner = getattr(loop, '_parent', None) if loop is not None else None
                    block = None
                    for field in ('body', 'orelse', 'finalbody'):
                        blk = getattr(owner, field, None)
                        if isinstance(blk, list) and any(x is loop for x in blk):
                            block = blk
                    if block is not None:
                        pos = [i for i, x in enumerate(block) if x is loop][0]
                        inits = [x for x in block[:pos] if isinstance(x, ast.Assign) and any(isinstance(t_, ast.Name) and t_.id == dname for t_ in x.targets)
                                 and _is_empty_collection(x.value)]
                        elsewhere = [x for x in walk_no_nested(fn) if isinstance(x, ast.Assign) and any(isinstance(t_, ast.Name) and t_.id == dname for t_ in x.targets)]
                        in_outer_loop = any(isinstance(pp, (ast.For, ast.While)) for pp in _ancestors(loop, fn))
                        if not inits and elsewhere and in_outer_loop:
                            rep.violation('R1', loc(cls.module, loop), fq, f'drop-list filter #{idx + 1}: the drop list is not emptied before the filter loop',
                                          f'`{dname}` is not reset where the filter over `{var}` starts although that filter runs once per iteration of an '
                                          f'enclosing loop: entries left over from earlier iterations (or from an earlier filter that used the same list) '
                                          f'are subtracted as well, so legitimate elements disappear from the result')

    # ---- R2 ----
    for m, cls, fn in prog.all_functions():
        if not (m.name.startswith('fim.graph') or m.name.startswith('fim.user')):
            continue
        for loop in [n for n in walk_no_nested(fn) if isinstance(n, (ast.For, ast.AsyncFor))]:
            it = loop.iter
            base = None
            live = False
            if isinstance(it, ast.Call) and isinstance(it.func, ast.Attribute) and it.func.attr in LIVE_VIEW_METHODS:
                base = ast.unparse(it.func.value)
                live = True
            elif isinstance(it, ast.Attribute) and it.attr in ('nodes', 'edges'):
                base = ast.unparse(it.value)
                live = True
            elif isinstance(it, (ast.Name, ast.Attribute)):
                base = ast.unparse(it)
                live = True
            if not live or base is None:
                continue
            fq = (cls.name + '.' if cls else '') + fn.name
            muts = []
            for c in ast.walk(loop):
                if c is it:
                    continue
                if isinstance(c, ast.Call) and isinstance(c.func, ast.Attribute) and c.func.attr in SIZE_MUTATORS and \
                        ast.unparse(c.func.value) == base and not _inside(c, it):
                    muts.append(c)
                if isinstance(c, ast.Delete):
                    for t in c.targets:
                        if isinstance(t, ast.Subscript) and ast.unparse(t.value) == base:
                            muts.append(c)
            rep.instance('R2', f'{fq}: for ... in {norm(it, 50)} (live view of {base}); size-changing calls on {base} in body: {len(muts)}')
            for c in muts:
                rep.violation('R2', loc(m, c), fq, f'{norm(c, 70)} while iterating {norm(it, 50)}',
                              f'{base} is changed in size while a live view of it is being iterated: Python raises "changed '
                              f'size during iteration" (or skips elements) as soon as an element is actually removed')

    # ---- R3 ----
    st_shared = nxg.storage_class(prog, nxg.SHARED_SHELL)
    st_disj = nxg.storage_class(prog, nxg.DISJ_SHELL)
    for st in (st_shared, st_disj):
        eg = st.methods.get('extract_graph')
        if eg is None:
            raise AnalysisError(f'{st.name}.extract_graph vanished')
        fq = f'{st.name}.extract_graph'
        eg = nxg.method(prog, st, eg)
        for r in [n for n in walk_no_nested(eg) if isinstance(n, ast.Return) and n.value is not None]:
            v = r.value
            if isinstance(v, ast.Constant) and v.value is None:
                continue
            srcs = [v]
            if isinstance(v, ast.Name):
                # resolve the local's definitions (every one of them must be a fresh object)
                srcs = [d for d in flow.reaching_values(eg, v.id) if not (isinstance(d, ast.Constant) and d.value is None)] or [v]

            def is_fresh(src):
                if not (isinstance(src, ast.Call) and call_name(src) in ('copy', 'deepcopy', 'from_dict_of_dicts', 'Graph', 'subgraph_copy')):
                    return False
                # networkx: G.copy(as_view=True) is a read-only VIEW of G, not a copy
                for k in src.keywords:
                    if k.arg == 'as_view' and not (isinstance(k.value, ast.Constant) and k.value.value in (False, None)):
                        return False
                if call_name(src) == 'copy' and isinstance(src.func, ast.Attribute) and src.args and \
                        not (isinstance(src.args[0], ast.Constant) and src.args[0].value in (False, None)):
                    return False        # positional as_view
                return True
            fresh = all(is_fresh(x) for x in srcs)
            src = [x for x in srcs if not is_fresh(x)][0] if not fresh else srcs[0]
            rep.instance('R3', f'{fq}: returns {norm(v)} = {[norm(x, 60) for x in srcs]}')
            if not fresh:
                rep.violation('R3', loc(st.module, r), fq, f'returns {norm(src, 80)}',
                              'extract_graph hands out the stored graph object itself instead of a copy: queries that prune '
                              'edges or filter nodes on "their" graph (relationship-restricted shortest path) delete edges from '
                              'the live model and corrupt every later query')
    for name in ('get_nodes_on_shortest_path', 'get_nodes_on_path_with_hops', 'get_first_neighbor', 'get_first_and_second_neighbor'):
        fn = nxpg.methods.get(name)
        if fn is None:
            raise AnalysisError(f'NetworkXPropertyGraph.{name} vanished')
        fq = f'NetworkXPropertyGraph.{name}'
        fn = nxg.method(prog, nxpg, fn)
        gvars = [n.targets[0].id for n in walk_no_nested(fn) if isinstance(n, ast.Assign) and isinstance(n.value, ast.Call)
                 and call_name(n.value) == 'extract_graph' and isinstance(n.targets[0], ast.Name)]
        rep.instance('R3', f'{fq}: works on {gvars} = storage.extract_graph(self.graph_id)')
        if not gvars:
            rep.violation('R3', loc(nxpg.module, fn), fq, 'does not work on an extracted copy', 'the query must operate on a private copy')
            continue
        # the extracted copy and the locals that merely name it
        gset = set(gvars)
        grew = True
        while grew:
            grew = False
            for n in walk_no_nested(fn):
                if isinstance(n, ast.Assign) and len(n.targets) == 1 and isinstance(n.targets[0], ast.Name) and isinstance(n.value, ast.Name) and \
                        n.value.id in gset and n.targets[0].id not in gset:
                    gset.add(n.targets[0].id)
                    grew = True
                # `g, a, z = copy, x, y` (what an inlined helper returning several values leaves behind): position by position
                if isinstance(n, ast.Assign) and len(n.targets) == 1 and isinstance(n.targets[0], ast.Tuple) and isinstance(n.value, ast.Tuple) and \
                        len(n.targets[0].elts) == len(n.value.elts):
                    for t_, v_ in zip(n.targets[0].elts, n.value.elts):
                        if isinstance(t_, ast.Name) and isinstance(v_, ast.Name) and v_.id in gset and t_.id not in gset:
                            gset.add(t_.id)
                            grew = True
        g = gvars[0]
        for c in walk_no_nested(fn):
            if isinstance(c, ast.Call) and call_name(c) in ('_drop_edges_not_of_type', '_filter_nodes_by_label', '_get_first_neighbors_via',
                                                            'shortest_path', 'all_simple_paths', 'shortest_simple_paths', 'neighbors'):
                first = c.args[0] if c.args else None
                target = ast.unparse(first) if first is not None and call_name(c) != 'neighbors' else ast.unparse(c.func.value)
                if call_name(c) == 'neighbors':
                    target = ast.unparse(c.func.value)
                if target not in gset:
                    rep.violation('R3', loc(nxpg.module, c), fq, norm(c, 100),
                                  f'{call_name(c)} is applied to {target} rather than to the extracted copy {g}')

    # ---- R4 ----
    for cls in (nxpg, mixin):
        for name, fn in cls.methods.items():
            for c in walk_no_nested(fn):
                if not (isinstance(c, ast.Call) and ast.unparse(c.func).startswith('nx.')):
                    continue
                cn = call_name(c)
                if cn not in NOPATH_EAGER and cn not in NOPATH_LAZY:
                    continue
                fq = f'{cls.name}.{name}'
                if cn in NOPATH_EAGER:
                    raising = [c]
                    what = f'nx.{cn}(...)'
                else:
                    # consumption points of the generator
                    var = None
                    par = c
                    while par is not None and not isinstance(par, ast.stmt):
                        par = getattr(par, '_parent', None)
                    if isinstance(par, ast.Assign) and isinstance(par.targets[0], ast.Name):
                        var = par.targets[0].id
                    raising = []
                    for n in walk_no_nested(fn):
                        if isinstance(n, ast.For) and ((var and ast.unparse(n.iter) == var) or any(x is c for x in ast.walk(n.iter))):
                            raising.append(n)
                        if isinstance(n, ast.Call) and call_name(n) in ('list', 'next', 'tuple', 'sorted', 'min', 'max') and n.args and \
                                ((var and ast.unparse(n.args[0]) == var) or any(x is c for x in ast.walk(n.args[0]))):
                            raising.append(n)
                    what = f'iteration of nx.{cn}(...)'
                for r in raising:
                    caught = False
                    p = r
                    while p is not None and p is not fn:
                        child = p
                        p = getattr(p, '_parent', None)
                        if isinstance(p, ast.Try) and child in p.body:
                            for h in p.handlers:
                                ht = ast.unparse(h.type) if h.type is not None else ''
                                if h.type is None or 'NetworkXNoPath' in ht or ht in ('Exception', 'BaseException', 'nx.NetworkXException', 'nx.exception.NetworkXException'):
                                    caught = True
                    rep.instance('R4', f'{fq}: {what} caught={caught}')
                    if not caught:
                        rep.violation('R4', loc(cls.module, r), fq, f'{what} outside a NetworkXNoPath handler',
                                      'when the two end nodes are not connected networkx raises NetworkXNoPath at this point and '
                                      'nothing catches it: the query fails instead of returning an empty list')

    # ---- R5 ----
    def calls_named(fn, name):
        return [c for c in walk_no_nested(fn) if isinstance(c, ast.Call) and call_name(c) == name]

    def has_name_arg(call, name):
        return any(isinstance(a, ast.Name) and a.id == name for a in list(call.args) + [k.value for k in call.keywords])

    def is_class_label(e):
        for x in ast.walk(e):
            if isinstance(x, ast.Attribute):
                try:
                    if prog.const_eval(x, nxpg.module, nxpg) == 'Class':
                        return True
                except Exception:
                    pass
            if isinstance(x, ast.Constant) and x.value == 'Class':
                return True
        return False

    def neq_against(fn, name, ops=(ast.NotEq,)):
        """Compare nodes `<class-of-element> != <name>` (either operand order)"""
        out = []
        for n in ast.walk(fn):
            if isinstance(n, ast.Compare) and len(n.ops) == 1 and isinstance(n.ops[0], ops):
                l, r = n.left, n.comparators[0]
                if isinstance(r, ast.Name) and r.id == name and is_class_label(l):
                    out.append((n, l))
                elif isinstance(l, ast.Name) and l.id == name and is_class_label(r):
                    out.append((n, r))
        return out

    def class_filter_ok(fn, view, param):
        """some collection builder of fn drops (or keeps) elements by comparing the Class of graph.<view>[element] with param"""
        drops = {d for d, _, _ in drop_filters(fn)}
        for cname, bl in builders(fn).items():
            for b in bl:
                if not b.gens or not isinstance(b.gens[-1][0], ast.Name):
                    continue
                var = b.gens[-1][0].id
                want = ast.NotEq if cname in drops else ast.Eq
                for cond in b.conds:
                    for cj in conjuncts(canon(cond)):
                        for cmp_node, elem in neq_against(cj, param, (want,)):
                            subs = [x for x in ast.walk(elem) if isinstance(x, ast.Subscript) and isinstance(x.value, ast.Attribute) and x.value.attr == view]
                            if subs and any(isinstance(y, ast.Name) and y.id == var for y in ast.walk(subs[0].slice)) and \
                                    isinstance(b.elt, ast.Name) and b.elt.id == var:
                                return True
        return False

    fn1 = nxg.method(prog, nxpg, nxpg.methods['get_first_neighbor'])
    via_calls = [c for c in calls_named(fn1, '_get_first_neighbors_via') if has_name_arg(c, 'rel')]
    lab_calls = [c for c in calls_named(fn1, '_filter_nodes_by_label') if has_name_arg(c, 'node_label')]
    rep.instance('R5', f'get_first_neighbor: relationship filter calls {len(via_calls)}, class filter calls {len(lab_calls)}')
    if not via_calls or not lab_calls or via_calls[0].lineno > lab_calls[0].lineno:
        rep.violation('R5', loc(nxpg.module, fn1), 'NetworkXPropertyGraph.get_first_neighbor', 'filter chain',
                      'first neighbours must be filtered by the requested relationship and then by the requested class')
    via = mixin.methods['_get_first_neighbors_via']
    fl = mixin.methods['_filter_nodes_by_label']
    for fn, view, param in ((via, 'edges', 'rel'), (fl, 'nodes', 'node_label')):
        fn = nxg.method(prog, mixin, fn)
        ok = class_filter_ok(fn, view, param)
        rep.instance('R5', f'NetworkXMixin.{fn.name}: Class of graph.{view}[..] compared with {param}: {ok}')
        if not ok:
            rep.violation('R5', loc(mixin.module, fn), f'NetworkXMixin.{fn.name}', f'no `Class of {view}[element] != {param}` drop test',
                          f'elements whose Class differs from `{param}` must be dropped')
    fn2 = nxg.method(prog, nxpg, nxpg.methods['get_first_and_second_neighbor'])
    p2 = [p_ for p_ in func_params(fn2) if p_ != 'self']
    start_vars = {n.targets[0].id for n in walk_no_nested(fn2) if isinstance(n, ast.Assign) and isinstance(n.targets[0], ast.Name) and
                  isinstance(n.value, ast.Call) and call_name(n.value) == '_find_node' and
                  any(isinstance(x, ast.Name) and x.id == p2[0] for a_ in list(n.value.args) + [k.value for k in n.value.keywords] for x in ast.walk(a_))}
    checks = [
        ('first-hop relationship filter', bool(neq_against(fn2, 'rel1'))),
        ('first-hop class filter', any(has_name_arg(c, 'node1_label') for c in calls_named(fn2, '_filter_nodes_by_label'))),
        ('second-hop relationship filter', bool(neq_against(fn2, 'rel2'))),
        ('second-hop class filter', any(has_name_arg(c, 'node2_label') for c in calls_named(fn2, '_filter_nodes_by_label'))),
        ('exclusion of the start node', any(any(has_name_arg(c, sv) for c in calls_named(fn2, 'remove') + calls_named(fn2, 'discard'))
                                            or any(isinstance(n, ast.Compare) and isinstance(n.ops[0], ast.NotEq) and
                                                   any(isinstance(x, ast.Name) and x.id == sv for x in ast.walk(n)) and not is_class_label(n)
                                                   for n in ast.walk(fn2)) for sv in start_vars)),
    ]
    rep.instance('R5', f'get_first_and_second_neighbor: {[(w, ok) for w, ok in checks]}')
    for what, ok in checks:
        if not ok:
            rep.violation('R5', loc(nxpg.module, fn2), 'NetworkXPropertyGraph.get_first_and_second_neighbor', f'{what} missing',
                          f'the two-hop query lost its {what}')
    sp = nxg.method(prog, nxpg, nxpg.methods['get_nodes_on_shortest_path'])
    drop = [c for c in calls_named(sp, '_drop_edges_not_of_type') if has_name_arg(c, 'rel')]
    guarded = False
    for c in drop:
        p = c
        while p is not None and p is not sp:
            p = getattr(p, '_parent', None)
            if isinstance(p, ast.If) and ast.unparse(p.test) in ('rel is not None', 'rel'):
                guarded = True
    spc = calls_named(sp, 'shortest_path')
    ends_ok = False
    if spc:
        ends = [ast.unparse(a) for a in spc[0].args[1:3]] + [ast.unparse(k.value) for k in spc[0].keywords if k.arg in ('source', 'target')]
        finds = {}
        for n in walk_no_nested(sp):
            if isinstance(n, ast.Assign) and isinstance(n.value, ast.Call) and call_name(n.value) == '_find_node':
                if isinstance(n.targets[0], ast.Name):
                    finds[n.targets[0].id] = ast.unparse(kwarg_value(n.value, 'node_id'))
            if isinstance(n, ast.Assign) and len(n.targets) == 1 and isinstance(n.targets[0], ast.Tuple) and isinstance(n.value, ast.Tuple) and \
                    len(n.targets[0].elts) == len(n.value.elts):
                for t_, v_ in zip(n.targets[0].elts, n.value.elts):
                    if isinstance(t_, ast.Name) and isinstance(v_, ast.Call) and call_name(v_) == '_find_node' and kwarg_value(v_, 'node_id') is not None:
                        finds[t_.id] = ast.unparse(kwarg_value(v_, 'node_id'))
        ends_ok = len(ends) == 2 and finds.get(ends[0]) == 'node_a' and finds.get(ends[1]) == 'node_z'
    rep.instance('R5', f'get_nodes_on_shortest_path: restriction guarded={guarded} endpoints_ok={ends_ok}')
    if not drop or not guarded or not ends_ok:
        rep.violation('R5', loc(nxpg.module, sp), 'NetworkXPropertyGraph.get_nodes_on_shortest_path', 'relationship restriction / endpoints',
                      'the path must run between the two requested nodes over edges of the requested relationship only')
    dr = mixin.methods['_drop_edges_not_of_type']
    bulk_ok = False
    cm = neq_against(dr, 'rel')
    rm = calls_named(dr, 'remove_edge')
    if cm and not rm:
        # decide first, delete in one go: remove_edges_from(<collection built from the edges under the test>)
        bld_ = builders(dr)
        for c_ in calls_named(dr, 'remove_edges_from'):
            if c_.args and isinstance(c_.args[0], ast.Name):
                for b_ in bld_.get(c_.args[0].id, []):
                    if any(any(x is cm[0][0] for x in ast.walk(cd_)) for cd_ in b_.conds) and b_.gens and \
                            any(isinstance(x, ast.Call) and call_name(x) == 'edges' for _, it_ in b_.gens for x in ast.walk(it_)):
                        rm = [c_]
                        bulk_ok = True
    rep.instance('R5', f'_drop_edges_not_of_type: test {norm(cm[0][0]) if cm else "?"} removes {norm(rm[0]) if rm else "?"}')
    ok = bool(cm) and bool(rm)
    if ok:
        # the removal runs under the test: directly (an if around it), or because it ranges over a local collection that
        # was built from the edges under that test
        ifn = cm[0][0]
        while ifn is not None and not isinstance(ifn, ast.If):
            ifn = getattr(ifn, '_parent', None)
        ok = (ifn is not None and any(x is rm[0] for x in ast.walk(ifn))) or bulk_ok
        if not ok:
            loops_ = []
            p_ = rm[0]
            while p_ is not None and p_ is not dr:
                p_ = getattr(p_, '_parent', None)
                if isinstance(p_, ast.For):
                    loops_.append(p_)
            bld = builders(dr)
            for l_ in loops_:
                if isinstance(l_.iter, ast.Name):
                    for b_ in bld.get(l_.iter.id, []):
                        if any(any(x is cm[0][0] for x in ast.walk(c_)) for c_ in b_.conds) and b_.gens and \
                                any(isinstance(c_, ast.Call) and call_name(c_) == 'edges' for _, it_ in b_.gens for c_ in ast.walk(it_)):
                            ok = True
    if not ok:
        rep.violation('R5', loc(mixin.module, dr), 'NetworkXMixin._drop_edges_not_of_type', 'drop test', 'edges whose Class differs from rel must be removed')
    wh = nxg.method(prog, nxpg, nxpg.methods['get_nodes_on_path_with_hops'])
    wrets = [r.value.id for r in walk_no_nested(wh) if isinstance(r, ast.Return) and isinstance(r.value, ast.Name)]
    hparam = [p_ for p_ in func_params(wh) if 'hop' in p_]
    okh = False
    detail = None
    if wrets and hparam:
        res = wrets[-1]
        loops_ = [l for l in walk_no_nested(wh) if isinstance(l, ast.For) and any(isinstance(x, ast.Assign) and any(isinstance(t, ast.Name) and t.id == res for t in x.targets)
                                                                              for x in ast.walk(l))]
        if loops_:
            def res_sink(st):
                if isinstance(st, ast.Assign) and len(st.targets) == 1 and isinstance(st.targets[0], ast.Name) and st.targets[0].id == res:
                    return st.value
                return None
            try:
                outs = branch_values(loops_[0].body, res_sink, opaque=(res,))
            except Unknown:
                outs = []
            for o in outs:
                cand = o.vtext
                contain = any(isinstance(n, ast.Call) and isinstance(n.func, ast.Name) and n.func.id == 'all' and n.args and
                              isinstance(n.args[0], ast.GeneratorExp) and isinstance(n.args[0].elt, ast.Compare) and isinstance(n.args[0].elt.ops[0], ast.In) and
                              ctext(n.args[0].elt.comparators[0]) == cand and ctext(n.args[0].generators[0].iter) == hparam[0]
                              for n in o.cond_nodes)
                shorter = False
                for n in o.cond_nodes:
                    alts = n.values if isinstance(n, ast.BoolOp) and isinstance(n.op, ast.Or) else [n]
                    texts = {ctext(a_) for a_ in alts}
                    if {f'not {res}', f'len({cand}) < len({res})'} <= texts:
                        shorter = True
                detail = (sorted(o.conds), cand)
                if contain and shorter:
                    okh = True
                # a candidate is rejected for missing hops or for not being shorter - for nothing else
                for n in o.cond_nodes:
                    t_ = ctext(n)
                    is_contain = isinstance(n, ast.Call) and isinstance(n.func, ast.Name) and n.func.id == 'all'
                    alts = n.values if isinstance(n, ast.BoolOp) and isinstance(n.op, ast.Or) else [n]
                    is_short = {ctext(a_) for a_ in alts} <= {f'not {res}', f'len({cand}) < len({res})', res}
                    if not is_contain and not is_short:
                        induced = any(isinstance(x, ast.Call) and call_name(x) in ('cycle_basis', 'find_cycle', 'simple_cycles', 'is_forest', 'is_tree') for x in ast.walk(n)) and \
                            any(isinstance(x, ast.Call) and call_name(x) == 'subgraph' for x in ast.walk(n))
                        construct = 'candidate path also rejected by an acyclicity test of the induced subgraph' if induced else f'candidate path also rejected unless `{t_[:80]}`'
                        rep.violation('R5', loc(nxpg.module, o.stmt), 'NetworkXPropertyGraph.get_nodes_on_path_with_hops', construct,
                                      f'a simple path (already loop-free) that contains all hops is discarded unless `{t_[:80]}` holds: the query '
                                      f'returns a longer path or nothing although a qualifying path exists (the persistent backend applies no '
                                      f'such test)')
    if not okh and hparam:
        # the same selection written as `return min(<generator of the qualifying candidates>, key=len, default=<empty>)`:
        # min keeps the first of the shortest, which is what "replace only when strictly shorter" keeps
        for r in walk_no_nested(wh):
            v = r.value if isinstance(r, ast.Return) else None
            if not (isinstance(v, ast.Call) and isinstance(v.func, ast.Name) and v.func.id == 'min' and len(v.args) == 1 and
                    any(k.arg == 'key' and isinstance(k.value, ast.Name) and k.value.id == 'len' for k in v.keywords) and
                    any(k.arg == 'default' and _is_empty_collection(k.value) for k in v.keywords)):
                continue
            src = v.args[0]
            gen = None
            if isinstance(src, ast.Call) and isinstance(src.func, ast.Name) and not src.args and not src.keywords:
                gen = next((d for d in ast.walk(wh) if isinstance(d, ast.FunctionDef) and d is not wh and d.name == src.func.id), None)
            if gen is None:
                continue
            for x in ast.walk(gen):
                for ch in ast.iter_child_nodes(x):
                    ch._parent = x
            yields = [y for y in ast.walk(gen) if isinstance(y, ast.Yield) and y.value is not None]
            def contain_test(t, cand):
                return isinstance(t, ast.Call) and isinstance(t.func, ast.Name) and t.func.id == 'all' and t.args and \
                    isinstance(t.args[0], ast.GeneratorExp) and isinstance(t.args[0].elt, ast.Compare) and isinstance(t.args[0].elt.ops[0], ast.In) and \
                    ctext(t.args[0].elt.comparators[0]) == cand and ctext(t.args[0].generators[0].iter) == hparam[0]
            good = bool(yields)
            for y in yields:
                cand = ctext(y.value)
                p_ = y
                guarded_ = False
                while p_ is not None and p_ is not gen:
                    child, p_ = p_, getattr(p_, '_parent', None)
                    if isinstance(p_, ast.If) and contain_test(p_.test, cand) and any(child is b_ for b_ in p_.body):
                        guarded_ = True
                good = good and guarded_
            if good:
                okh = True
                detail = ('min(..., key=len, default=empty) over a generator', [ctext(y.value) for y in yields])
                # what else makes the generator skip a candidate
                for i_ in [x for x in ast.walk(gen) if isinstance(x, ast.If)]:
                    if any(isinstance(b_, ast.Continue) for b_ in i_.body):
                        n = i_.test
                        t_ = ctext(n)
                        induced = any(isinstance(x, ast.Call) and call_name(x) in ('cycle_basis', 'find_cycle', 'simple_cycles', 'is_forest', 'is_tree') for x in ast.walk(n)) and \
                            any(isinstance(x, ast.Call) and call_name(x) == 'subgraph' for x in ast.walk(n))
                        construct = 'candidate path also rejected by an acyclicity test of the induced subgraph' if induced else f'candidate path also rejected unless `{t_[:80]}`'
                        rep.violation('R5', loc(nxpg.module, i_), 'NetworkXPropertyGraph.get_nodes_on_path_with_hops', construct,
                                      f'a simple path (already loop-free) that contains all hops is discarded when `{t_[:80]}` holds: the query '
                                      f'returns a longer path or nothing although a qualifying path exists (the persistent backend applies no '
                                      f'such test)')
    rep.instance('R5', f'get_nodes_on_path_with_hops: result replaced under {detail}; hop containment and shortest selection: {okh}')
    if not okh:
        rep.violation('R5', loc(nxpg.module, wh), 'NetworkXPropertyGraph.get_nodes_on_path_with_hops', 'hop containment / shortest selection',
                      'a returned path must contain every requested hop and be the shortest such path found')

    # ---- R7: what the one-graph-per-store flavour keeps is an undirected simple graph ----
    rep.rule('R7', 'every graph object stored by the one-graph-per-store flavour is a fresh undirected nx.Graph', floor=2)
    dj_ = nxg.storage_class(prog, nxg.DISJ_SHELL)
    for mname, fn_ in sorted(dj_.methods.items()):
        fn_i = nxg.method(prog, dj_, fn_)
        for a in walk_no_nested(fn_i):
            if not (isinstance(a, ast.Assign) and len(a.targets) == 1 and isinstance(a.targets[0], ast.Subscript) and
                    ast.unparse(a.targets[0].value) == 'self.graphs'):
                continue
            v = a.value
            if isinstance(v, ast.Name):
                defs_ = [x.value for x in walk_no_nested(fn_i) if isinstance(x, ast.Assign) and any(isinstance(t, ast.Name) and t.id == v.id for t in x.targets)]
                v = defs_[-1] if defs_ else v
            fresh = isinstance(v, ast.Call) and ast.unparse(v.func) in ('nx.Graph', 'Graph', 'networkx.Graph')
            rep.instance('R7', f'{dj_.name}.{mname}: stores {norm(v, 60)} (fresh undirected graph: {fresh})')
            if not fresh:
                rep.violation('R7', loc(dj_.module, a), f'{dj_.name}.{mname}', f'stores {norm(v, 60)}',
                              f'{mname} keeps the imported networkx object (relabelled) as the stored graph: a directed GraphML '
                              f'(what yEd and many tools write) stays an nx.DiGraph, so neighbour and path queries only follow '
                              f'edges in their stored direction (parents are not found, child-to-parent paths are empty) while the '
                              f'sibling entry point and the shared store rebuild an undirected nx.Graph')

    # ---- R6 ----
    schema = containment_schema(prog)
    apg = prog.cls('fim.graph.abc_property_graph:ABCPropertyGraph')
    for name in ('get_all_ns_or_link_connection_points', 'get_all_child_connection_points', 'get_all_node_or_component_connection_points',
                 'find_peer_connection_points', 'get_parent'):
        fn = apg.methods.get(name)
        if fn is None:
            raise AnalysisError(f'ABCPropertyGraph.{name} vanished')
        fn = inline(prog, apg, fn)   # the query may sit in a private helper that receives the pair as arguments
        for c in walk_no_nested(fn):
            if isinstance(c, ast.Call) and call_name(c) in ('get_first_neighbor', 'get_first_and_second_neighbor'):
                pairs = schema.pairs_of_call(c, apg)
                rep.instance('R6', f'ABCPropertyGraph.{name}: {pairs}')
                for rel, label in pairs:
                    if rel is None or label is None:
                        continue   # parameters (get_parent)
                    if not schema.has_pair(rel, label):
                        rep.violation('R6', loc(apg.module, c), f'ABCPropertyGraph.{name}', f'({rel}, {label})',
                                      f'no element is ever attached through ({rel}, {label}) by the model writers: the helper can never find anything')


def _is_empty_collection(v):
    if isinstance(v, (ast.List, ast.Set, ast.Tuple)) and not v.elts:
        return True
    return isinstance(v, ast.Call) and isinstance(v.func, ast.Name) and v.func.id in ('list', 'set') and not v.args


def _ancestors(node, fn):
    p = getattr(node, '_parent', None)
    while p is not None and p is not fn:
        yield p
        p = getattr(p, '_parent', None)


def drop_filters(fn):
    """[(drop collection name, Builder, use node)] for every collection that is subtracted from another one
    (S.difference(D), S.difference_update(D), S - set(D), `x not in D` inside a comprehension)."""
    used = {}
    for c in ast.walk(fn):
        if isinstance(c, ast.Call) and call_name(c) in ('difference', 'difference_update') and c.args:
            a0 = c.args[0]
            if isinstance(a0, ast.Call) and isinstance(a0.func, ast.Name) and a0.func.id in ('set', 'list') and a0.args:
                a0 = a0.args[0]
            if isinstance(a0, ast.Name):
                used.setdefault(a0.id, c)
        if isinstance(c, ast.BinOp) and isinstance(c.op, ast.Sub):
            r = c.right
            if isinstance(r, ast.Call) and isinstance(r.func, ast.Name) and r.func.id in ('set', 'list') and r.args:
                r = r.args[0]
            if isinstance(r, ast.Name) and isinstance(c.left, (ast.Name, ast.Call)):
                used.setdefault(r.id, c)
        if isinstance(c, ast.Compare) and len(c.ops) == 1 and isinstance(c.ops[0], ast.NotIn) and isinstance(c.comparators[0], ast.Name) \
                and isinstance(getattr(c, '_parent', None), ast.comprehension):
            used.setdefault(c.comparators[0].id, c)
    blds = builders(fn)
    out = []
    for dname, use in used.items():
        for b in blds.get(dname, []):
            out.append((dname, b, use))
    out.sort(key=lambda t: (getattr(t[1].node, 'lineno', 0), getattr(t[1].node, 'col_offset', 0)))
    return out


def kwarg_value(call, name):
    for k in call.keywords:
        if k.arg == name:
            return k.value
    return call.args[0] if call.args else ast.Constant(None)


def _inside(node, container):
    return any(x is node for x in ast.walk(container))


NX = 'fim/graph/networkx_property_graph.py'
MX = 'fim/graph/networkx_mixin.py'
MUTANTS = [
    {'name': 'direct-import-keeps-digraph', 'file': 'fim/graph/networkx_property_graph_disjoint.py', 'rule': 'R7',
     'find': "                self.graphs[graph_id] = nx.Graph()\n                self.graphs[graph_id].add_nodes_from(temp_graph.nodes(data=True))\n                self.graphs[graph_id].add_edges_from(temp_graph.edges(data=True))\n                self.graph_node_ids[graph_id] = len(self.graphs[graph_id].nodes()) + 1\n            except Exception as e:\n                raise e\n            finally:\n                self.lock.release()\n\n        def del_graph",
     'replace': "                self.graphs[graph_id] = temp_graph\n                self.graph_node_ids[graph_id] = len(self.graphs[graph_id].nodes()) + 1\n            except Exception as e:\n                raise e\n            finally:\n                self.lock.release()\n\n        def del_graph"},
    {'name': 'first-hop-drop-list-wrong-var', 'file': NX, 'rule': 'R1',
     'find': '            if graph.edges[(real_node, n)].get(self.NETWORKX_LABEL, None) != rel1:\n                neighbor_drop_list.append(n)',
     'replace': '            if graph.edges[(real_node, n)].get(self.NETWORKX_LABEL, None) != rel1:\n                neighbor_drop_list.append(real_node)'},
    {'name': 'drop-edges-iterates-live-view', 'file': MX, 'rule': 'R2',
     'find': '        for e in list(graph.edges(data=True)):', 'replace': '        for e in graph.edges(data=True):'},
    {'name': 'shortest-path-on-live-graph', 'file': NX, 'rule': 'R3',
     'find': '        # extract a graph\n        graph = self.storage.extract_graph(self.graph_id)\n        if graph is None:\n            raise PropertyGraphQueryException(graph_id=self.graph_id, node_id=node_a,\n                                              msg="Unable to find graph")\n        # if relationship specified',
     'replace': '        # extract a graph\n        graph = self.storage.get_graph(self.graph_id)\n        if graph is None:\n            raise PropertyGraphQueryException(graph_id=self.graph_id, node_id=node_a,\n                                              msg="Unable to find graph")\n        # if relationship specified'},
    {'name': 'shortest-path-outside-try', 'file': NX, 'rule': 'R4',
     'find': '        try:\n            sp = nx.shortest_path(graph, source=real_node_a, target=real_node_z)\n        except nx.exception.NetworkXNoPath:\n            return list()\n',
     'replace': '        sp = nx.shortest_path(graph, source=real_node_a, target=real_node_z)\n'},
    {'name': 'label-filter-inverted', 'file': MX, 'rule': 'R5',
     'find': '            if graph.nodes[n].get(NetworkXMixin.NETWORKX_LABEL, None) != node_label:\n                droplist.append(n)',
     'replace': '            if graph.nodes[n].get(NetworkXMixin.NETWORKX_LABEL, None) == node_label:\n                droplist.append(n)'},
    {'name': 'self-exclusion-dropped', 'file': NX, 'rule': 'R5',
     'find': '                if real_node in second_neighbors:\n                    second_neighbors.remove(real_node)\n', 'replace': ''},
]
TWINS = [
    {'name': 'loop-variable-renamed', 'file': MX,
     'find': '        for n in nodeset:\n            if graph.nodes[n].get(NetworkXMixin.NETWORKX_LABEL, None) != node_label:\n                droplist.append(n)',
     'replace': '        for node in nodeset:\n            if graph.nodes[node].get(NetworkXMixin.NETWORKX_LABEL, None) != node_label:\n                droplist.append(node)'},
]
