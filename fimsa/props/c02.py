"""
C02 -- sliver <-> graph / dictionary / JSON conversion preserves every settable field.

Table agreement, decided on the AST:
R1 per sliver class the graph properties written == the graph properties read back, attribute by attribute
R2 every setter of the class has a writer row and a reader row (frozen structural exceptions)
R3 codec pairing per row (to_json<->T.from_json with T the setter's type, str<->from_string, dumps<->loads, .json<->T())
R4 unset map: every stored settable property has SLIVER_PROPERTY_TO_GRAPH[p] == the constant the writer uses
R5 element dispatch: each model element class uses sliver class, writer, reader and deep builder of its own kind,
   and set_property(p, None) unsets
R6 deep dictionary: child keys written == keys read, children are converted recursively
R9 deep graph writers: add_*_sliver call the nested child writers under no condition other than "the sliver has that container"
"""
import ast

from ..core import AnalysisError, Unfoldable, norm, loc, walk_no_nested, attr_chain, kwarg, call_name
from ..codecs import check_dict_codecs
from ..normalize import unroll_const_loops, inline, builders, comp_builder, local_env, expand, canon, conjuncts, _enclosing
from ..core import func_params
from ..cfg import CFG
from .. import flow

APG = 'fim.graph.abc_property_graph:ABCPropertyGraph'

KINDS = {
    # kind: (sliver class spec, writer, reader, chain of writer functions, chain of reader functions)
    'node': ('fim.slivers.network_node:NodeSliver', 'node_sliver_to_graph_properties_dict',
             'node_sliver_from_graph_properties_dict'),
    'link': ('fim.slivers.network_link:NetworkLinkSliver', 'link_sliver_to_graph_properties_dict',
             'link_sliver_from_graph_properties_dict'),
    'component': ('fim.slivers.attached_components:ComponentSliver', 'component_sliver_to_graph_properties_dict',
                  'component_sliver_from_graph_properties_dict'),
    'service': ('fim.slivers.network_service:NetworkServiceSliver', 'network_service_sliver_to_graph_properties_dict',
                'network_service_sliver_from_graph_properties_dict'),
    'interface': ('fim.slivers.interface_info:InterfaceSliver', 'interface_sliver_to_graph_properties_dict',
                  'interface_sliver_from_graph_properties_dict'),
}
BASE_WRITER = 'base_sliver_to_graph_properties_dict'
BASE_READER = 'set_base_sliver_properties_from_graph_properties_dict'

# setters that are structural (not stored as a property of the element's own graph node)
STRUCTURAL_SETTERS = {
    'property': 'generic dispatcher', 'properties': 'generic dispatcher',
    'network_service_info': 'containment, stored as child nodes (C07 schema)',
}
# stored settable properties deliberately absent from the unset map, with the reason given in the source
NO_UNSET_EXCEPTIONS = {
    'image_type': 'fate-shares with image_ref (packed into ImageRef; commented in the source)',
}
ELEMENTS = {
    'fim.user.node:Node': 'node', 'fim.user.component:Component': 'component',
    'fim.user.interface:Interface': 'interface', 'fim.user.link:Link': 'link',
    'fim.user.network_service:NetworkService': 'service',
}
DEEP_BUILDERS = {'node': 'build_deep_node_sliver', 'component': 'build_deep_component_sliver',
                 'interface': 'build_deep_interface_sliver', 'link': 'build_deep_link_sliver',
                 'service': 'build_deep_ns_sliver'}


def prop_consts_in(prog, expr, mod, cls):
    """Graph property constants (their string values) referenced inside expr, with the nodes."""
    out = []
    for n in ast.walk(expr):
        if isinstance(n, ast.Attribute) and (n.attr.startswith('PROP_') or n.attr in ('NODE_ID', 'GRAPH_ID')):
            try:
                v = prog.const_eval(n, mod, cls)
            except Unfoldable:
                raise AnalysisError(f'{mod.relpath}:{n.lineno}: property constant {norm(n)} does not resolve')
            out.append(v)
    return out


def sliver_attrs_in(expr, var='sliver'):
    out = []
    for n in ast.walk(expr):
        if isinstance(n, ast.Attribute) and isinstance(n.value, ast.Name) and n.value.id == var:
            if n.attr not in out:
                out.append(n.attr)
    return out


def encoder_kind(expr, var='sliver'):
    """('raw'|'str'|'to_json'|'json.dumps'|'.json'|'composite', detail)"""
    if isinstance(expr, ast.Attribute) and isinstance(expr.value, ast.Name) and expr.value.id == var:
        return 'raw'
    if isinstance(expr, ast.Call):
        f = expr.func
        if isinstance(f, ast.Name) and f.id == 'str' and len(expr.args) == 1 and encoder_kind(expr.args[0], var) == 'raw':
            return 'str'
        if isinstance(f, ast.Attribute) and f.attr == 'to_json' and encoder_kind(f.value, var) == 'raw' and not expr.args:
            return 'to_json'
        if ast.unparse(f) == 'json.dumps' and len(expr.args) == 1 and encoder_kind(expr.args[0], var) == 'raw':
            return 'json.dumps'
    if isinstance(expr, ast.Attribute) and expr.attr == 'json' and encoder_kind(expr.value, var) == 'raw':
        return '.json'
    if isinstance(expr, ast.BinOp):
        return 'composite'
    return 'other:' + norm(expr, 60)


def collect_writer_rows(prog, apg, fname, seen=None):
    """rows: list of dict(prop, attrs, enc, node, fn) for writer `fname` including the writers it delegates to."""
    seen = seen or set()
    if fname in seen:
        return []
    seen.add(fname)
    fn = apg.methods.get(fname)
    if fn is None:
        raise AnalysisError(f'anchor writer {fname} vanished')
    # a writer driven by a class-level table of (attribute, property, encoder) rows is read row by row
    fn = inline(prog, apg, unroll_const_loops(prog, apg, fn), exclude=tuple(n_ for n_ in apg.methods if n_.endswith('_to_graph_properties_dict')))
    wenv_ = {k_: v_ for k_, v_ in local_env(fn).items() if isinstance(v_, (ast.Name, ast.Attribute))}
    var = fn.args.args[0].arg if fn.args.args else 'sliver'
    rows = []
    # the dictionary being filled: whatever local the writer returns
    dnames = {r.value.id for r in walk_no_nested(fn) if isinstance(r, ast.Return) and isinstance(r.value, ast.Name)}
    for n in walk_no_nested(fn):
        if isinstance(n, ast.Assign) and len(n.targets) == 1 and isinstance(n.targets[0], ast.Subscript) \
                and isinstance(n.targets[0].value, ast.Name) and n.targets[0].value.id in dnames:
            consts = prop_consts_in(prog, n.targets[0].slice, apg.module, apg)
            if len(consts) != 1:
                raise AnalysisError(f'{apg.module.relpath}:{n.lineno}: writer row key is not one property constant')
            val_ = expand(n.value, wenv_)
            rows.append({'prop': consts[0], 'attrs': sliver_attrs_in(val_, var), 'enc': encoder_kind(val_, var),
                         'node': n, 'fn': fname})
        elif isinstance(n, ast.Call):
            ch = attr_chain(n.func)
            if ch and ch[-1].endswith('_to_graph_properties_dict') and ch[-1] != fname:
                rows += collect_writer_rows(prog, apg, ch[-1], seen)
    return rows


def decoder_kind(prog, expr, mod, cls, env):
    """describe how a reader keyword value is decoded: (kind, type name or None)."""
    e = expr
    if isinstance(e, ast.IfExp):
        # X(d[C]) if d.get(C) is not None else None
        return decoder_kind(prog, e.body, mod, cls, env)
    if isinstance(e, ast.Name) and e.id in env:
        return decoder_kind(prog, env[e.id], mod, cls, env)
    if isinstance(e, ast.Call):
        f = e.func
        fn = ast.unparse(f)
        if isinstance(f, ast.Attribute) and f.attr == 'get' and isinstance(f.value, ast.Name):
            return 'raw', None
        if fn == 'json.loads':
            return 'json.loads', None
        if isinstance(f, ast.Attribute) and f.attr == 'from_json':
            return 'from_json', ast.unparse(f.value)
        if isinstance(f, ast.Attribute) and f.attr == 'from_string':
            return 'from_string', ast.unparse(f.value)
        if isinstance(f, ast.Attribute) and f.attr == 'type_from_str':
            return 'type_from_str', None
        if isinstance(f, ast.Attribute) and f.attr in ('split', 'rsplit'):
            return 'split', None
        if isinstance(f, ast.Name):
            return 'ctor', f.id
    if isinstance(e, ast.Subscript):
        return 'raw', None
    return 'other:' + norm(e, 60), None


def collect_reader_rows(prog, apg, fname, seen=None):
    """rows: list of dict(kw, props, dec, dtype, node, fn) for reader fname incl. the readers it delegates to."""
    seen = seen or set()
    if fname in seen:
        return []
    seen.add(fname)
    fn = apg.methods.get(fname)
    if fn is None:
        raise AnalysisError(f'anchor reader {fname} vanished')
    env = {}
    rows = []
    for n in walk_no_nested(fn):
        if isinstance(n, ast.Assign):
            for t in n.targets:
                if isinstance(t, ast.Name):
                    env.setdefault(t.id, n.value)
                elif isinstance(t, ast.Tuple):
                    for el in t.elts:
                        if isinstance(el, ast.Name):
                            env[el.id] = n.value
    for n in walk_no_nested(fn):
        if isinstance(n, ast.Call) and isinstance(n.func, ast.Attribute) and n.func.attr == 'set_properties':
            for k in n.keywords:
                if k.arg is None:
                    raise AnalysisError(f'{apg.module.relpath}:{n.lineno}: **kwargs in a reader set_properties call')
                val = k.value
                src = env.get(val.id) if isinstance(val, ast.Name) and val.id in env else val
                props = prop_consts_in(prog, src, apg.module, apg)
                dec, dtype = decoder_kind(prog, val, apg.module, apg, env)
                rows.append({'kw': k.arg, 'props': sorted(set(props)), 'dec': dec, 'dtype': dtype, 'node': k.value,
                             'fn': fname, 'expr': src})
        elif isinstance(n, ast.Call):
            ch = attr_chain(n.func)
            if ch and ch[-1] == BASE_READER and fname != BASE_READER:
                rows += collect_reader_rows(prog, apg, BASE_READER, seen)
    return rows


def setter_info(prog, scls):
    """{kw: dict(attr stored, asserted type names, annotation, defining class)} for every set_<kw> in the MRO."""
    out = {}
    for c in scls.mro():
        for name, fn in c.methods.items():
            if not name.startswith('set_') or name[4:] in out:
                continue
            kw = name[4:]
            stored = []
            asserted = []
            for n in ast.walk(fn):
                if isinstance(n, (ast.Assign, ast.AnnAssign)):
                    tgts = n.targets if isinstance(n, ast.Assign) else [n.target]
                    for t in tgts:
                        ch = attr_chain(t)
                        if ch and len(ch) == 2 and ch[0] == 'self' and ch[1] not in stored:
                            stored.append(ch[1])
                if isinstance(n, ast.Call) and isinstance(n.func, ast.Name) and n.func.id == 'isinstance' \
                        and len(n.args) == 2:
                    asserted.append(ast.unparse(n.args[1]))
            params = [a for a in fn.args.args if a.arg != 'self']
            ann = ast.unparse(params[0].annotation) if params and params[0].annotation is not None else None
            out[kw] = {'stored': stored, 'asserted': asserted, 'ann': ann, 'cls': c, 'fn': fn}
    return out


def run(prog, rep):
    rep.extra['explanation'] = (
        'Writer rows (sliver attribute -> graph property, encoder), reader rows (setter keyword <- graph property, '
        'decoder), setters (keyword -> attribute, asserted type) and the unset map are extracted from the AST of '
        'ABCPropertyGraph and the sliver classes and compared per sliver class; the model element classes are checked '
        'to dispatch to the writer/reader/builder of their own kind; deep-dictionary keys and recursion are compared. '
        'A forgotten, misspelled or asymmetric mapping is visible here for every property at once; value equality of '
        'each field after the trip is not decided.')
    rep.rule('R1', 'graph properties written == graph properties read, per sliver class and attribute', floor=40)
    rep.rule('R2', 'every setter has a writer row and a reader row', floor=40)
    rep.rule('R3', 'encoder and decoder of a row are a matched pair for the setter\'s type', floor=40)
    rep.rule('R4', 'every stored settable property can be unset through the map with the same graph constant',
             floor=35)
    rep.rule('R5', 'each element class dispatches to sliver class / writer / reader / builder of its own kind', floor=5)
    rep.rule('R6', 'deep dictionary child keys agree between writer and readers and children recurse', floor=6)
    rep.rule('R7', 'hand-written dict codecs used by the rows (PathInfo, ERO) write and read the same keys in the '
                   'same representation', floor=2)
    check_dict_codecs(prog, rep, 'R7')

    apg = prog.cls(APG)
    try:
        unset_map = prog.class_const(apg, 'SLIVER_PROPERTY_TO_GRAPH')
    except AnalysisError:
        raise
    mod = apg.module

    for kind, (scls_spec, wname, rname) in KINDS.items():
        scls = prog.cls(scls_spec)
        setters = setter_info(prog, scls)
        wrows = collect_writer_rows(prog, apg, wname)
        rrows = collect_reader_rows(prog, apg, rname)
        # attribute -> graph property according to the writer
        w_by_attr = {}
        for r in wrows:
            for a in r['attrs']:
                w_by_attr.setdefault(a, []).append(r)
        # keyword -> reader rows
        r_by_kw = {}
        for r in rrows:
            r_by_kw.setdefault(r['kw'], []).append(r)

        # R1: compare property sets
        wprops = {r['prop'] for r in wrows}
        rprops = set()
        for r in rrows:
            rprops.update(r['props'])
        rprops.discard('NodeID')
        for p in sorted(wprops | rprops):
            rep.instance('R1', f'{kind}: graph property {p}', detail={'written': p in wprops, 'read': p in rprops})
        for p in sorted(wprops - rprops):
            r = [x for x in wrows if x['prop'] == p][0]
            rep.violation('R1', loc(mod, r['node']), f'ABCPropertyGraph.{r["fn"]}', f'{kind}: {p} written, never read',
                          f'graph property {p} is written from sliver attribute(s) {r["attrs"]} by {r["fn"]} but '
                          f'{rname} never reads it back: the value is lost when the sliver is rebuilt')
        for p in sorted(rprops - wprops):
            r = [x for x in rrows if p in x['props']][0]
            rep.violation('R1', loc(mod, r['node']), f'ABCPropertyGraph.{r["fn"]}', f'{kind}: {p} read, never written',
                          f'graph property {p} is read into setter {r["kw"]} but no writer of {kind} slivers stores it')

        # per setter
        for kw, info in sorted(setters.items()):
            if kw in STRUCTURAL_SETTERS:
                continue
            if not info['stored']:
                continue
            attr = info['stored'][0]
            wr = w_by_attr.get(attr, [])
            rr = r_by_kw.get(kw, [])
            rep.instance('R2', f'{kind}: set_{kw} -> self.{attr}', detail={'writer_rows': len(wr), 'reader_rows': len(rr)})
            fq = f'{info["cls"].name}.set_{kw}'
            if not wr:
                rep.violation('R2', loc(info['cls'].module, info['fn']), fq, f'{kind}: set_{kw} has no writer row',
                              f'sliver attribute {attr} (setter set_{kw}) is never written to the graph by {wname}: '
                              f'setting it on a model element is silently lost')
                continue
            if not rr:
                rep.violation('R2', loc(info['cls'].module, info['fn']), fq, f'{kind}: set_{kw} has no reader row',
                              f'sliver attribute {attr} is written to the graph but {rname} never passes {kw}= to '
                              f'set_properties: it reads back as unset')
                continue
            w = wr[0]
            r = rr[0]
            # same graph property on both sides
            if w['prop'] not in r['props']:
                rep.violation('R1', loc(mod, r['node']), f'ABCPropertyGraph.{r["fn"]}',
                              f'{kind}: {kw} written to {w["prop"]} but read from {r["props"]}',
                              f'attribute {attr} is written under graph property {w["prop"]} but read back from '
                              f'{r["props"]}')
            # R3 codec pairing
            enc, dec, dtype = w['enc'], r['dec'], r['dtype']
            want_types = [t for t in info['asserted']]
            rep.instance('R3', f'{kind}: {kw}: {enc} <-> {dec}{"(" + dtype + ")" if dtype else ""}',
                         detail={'setter_type': want_types or info['ann']})
            problem = None
            if enc == 'to_json':
                if dec != 'from_json':
                    problem = f'encoded with to_json() but decoded with {dec}'
                elif want_types and dtype not in want_types and not any(dtype == t.split('.')[-1] for t in want_types):
                    problem = f'decoded with {dtype}.from_json but the setter requires {want_types}'
                elif not want_types and info['ann'] and dtype != info['ann'] and info['ann'] not in ('str', 'Any'):
                    problem = f'decoded with {dtype}.from_json but the setter is annotated {info["ann"]}'
            elif enc == '.json':
                if dec != 'ctor':
                    problem = f'encoded with .json but decoded with {dec}'
                elif want_types and dtype not in want_types:
                    problem = f'decoded with {dtype}(...) but the setter requires {want_types}'
            elif enc == 'json.dumps':
                if dec != 'json.loads':
                    problem = f'encoded with json.dumps but decoded with {dec}'
            elif enc == 'str':
                ann = info['ann']
                ann_cls = None
                if ann:
                    try:
                        ann_cls = prog.resolve_class_expr(ast.parse(ann, mode='eval').body, info['cls'].module)
                    except SyntaxError:
                        ann_cls = None
                if ann_cls is not None and prog.is_enum(ann_cls):
                    if dec not in ('from_string', 'type_from_str') or (dec == 'from_string' and dtype != ann_cls.simple):
                        problem = f'str() of a {ann_cls.simple} must be decoded with {ann_cls.simple}.from_string, found {dec}' \
                                  f'{"(" + str(dtype) + ")" if dtype else ""}'
                elif dec not in ('raw', 'type_from_str', 'from_string'):
                    problem = f'encoded with str() but decoded with {dec}'
            elif enc == 'raw':
                if dec != 'raw':
                    problem = f'stored raw but decoded with {dec}'
            elif enc == 'composite':
                if dec not in ('split', 'raw'):
                    problem = f'composite encoding decoded with {dec}'
                elif dec == 'split':
                    # A + sep + B is read back by splitting: the split must be bounded to (parts - 1) separators, otherwise a
                    # separator inside one of the values changes the number of parts
                    def parts_of(e):
                        if isinstance(e, ast.BinOp) and isinstance(e.op, ast.Add):
                            return parts_of(e.left) + parts_of(e.right)
                        return [] if isinstance(e, ast.Constant) else [e]
                    nparts = len(parts_of(w['node'].value))
                    splits = [c for c in ast.walk(r['expr']) if isinstance(c, ast.Call) and isinstance(c.func, ast.Attribute) and c.func.attr in ('split', 'rsplit')]
                    for sc_ in splits:
                        ms = kwarg(sc_, 'maxsplit') or (sc_.args[1] if len(sc_.args) > 1 else None)
                        rep.instance('R3', f'{kind}: {kw}: {nparts} values joined, read back with {norm(sc_, 60)}')
                        if not (isinstance(ms, ast.Constant) and ms.value == nparts - 1):
                            problem = (f'{nparts} values are joined with a separator but split back without a bound of {nparts - 1}: a value that '
                                       f'contains the separator (e.g. an image reference with a comma) makes the reader raise, so the element '
                                       f'cannot be read back at all')
            else:
                raise AnalysisError(f'{loc(mod, w["node"])}: unrecognised encoder shape {enc}')
            if problem:
                rep.violation('R3', loc(mod, r['node']), f'ABCPropertyGraph.{r["fn"]}', f'{kind}: {kw}: {problem}',
                              f'codec mismatch for {kw} of {kind} slivers: {problem}')

            # R4 unset map
            if kw in NO_UNSET_EXCEPTIONS:
                continue
            rep.instance('R4', f'{kind}: {kw} -> {w["prop"]}', detail={'map': unset_map.get(kw)})
            if kw not in unset_map:
                rep.violation('R4', loc(mod, w['node']), 'ABCPropertyGraph.SLIVER_PROPERTY_TO_GRAPH',
                              f'{kw} missing from the unset map',
                              f'settable property {kw} is stored as {w["prop"]} but SLIVER_PROPERTY_TO_GRAPH has no '
                              f'entry for it: element.set_property({kw!r}, None) silently does nothing')
            elif unset_map[kw] != w['prop']:
                rep.violation('R4', loc(mod, w['node']), 'ABCPropertyGraph.SLIVER_PROPERTY_TO_GRAPH',
                              f'{kw} maps to {unset_map[kw]} but is stored as {w["prop"]}',
                              f'unsetting {kw} removes graph property {unset_map[kw]} while the value lives in {w["prop"]}')

    # R5 element dispatch
    for espec, kind in ELEMENTS.items():
        ecls = prog.cls(espec)
        scls_spec, wname, rname = KINDS[kind]
        sname = scls_spec.split(':')[1]
        em = ecls.module
        for mname in ('set_property', 'set_properties', 'get_property', 'get_sliver'):
            fn = ecls.methods.get(mname)
            if fn is None:
                raise AnalysisError(f'{ecls.qual}.{mname} vanished')
            fn = inline(prog, ecls, fn)
            fq = f'{ecls.name}.{mname}'
            used_w = set()
            used_r = set()
            used_b = set()
            made = set()
            for n in walk_no_nested(fn):
                if isinstance(n, ast.Call):
                    cn = call_name(n)
                    if cn and cn.endswith('_to_graph_properties_dict'):
                        used_w.add(cn)
                    elif cn and cn.endswith('_from_graph_properties_dict'):
                        used_r.add(cn)
                    elif cn and cn.startswith('build_deep_'):
                        used_b.add(cn)
                    elif isinstance(n.func, ast.Name) and n.func.id.endswith('Sliver') and not n.args:
                        made.add(n.func.id)
            rep.instance('R5', f'{fq}: sliver={sorted(made)} writer={sorted(used_w)} reader={sorted(used_r)} '
                               f'builder={sorted(used_b)}')
            if mname in ('set_property', 'set_properties'):
                if made != {sname} or used_w != {wname}:
                    rep.violation('R5', loc(em, fn), fq, f'uses {sorted(made)} / {sorted(used_w)}',
                                  f'{fq} must build a {sname} and write it with {wname}; found sliver classes '
                                  f'{sorted(made)} and writers {sorted(used_w)}')
            if mname == 'get_property' and used_r != {rname}:
                rep.violation('R5', loc(em, fn), fq, f'uses {sorted(used_r)}',
                              f'{fq} must rebuild the sliver with {rname}; found {sorted(used_r)}')
            if mname == 'get_sliver' and used_b != {DEEP_BUILDERS[kind]}:
                rep.violation('R5', loc(em, fn), fq, f'uses {sorted(used_b)}',
                              f'{fq} must use {DEEP_BUILDERS[kind]}; found {sorted(used_b)}')
            if mname == 'set_property':
                # `if pval is None: self.unset_property(pname); return`
                # on every path on which the value is None, unset_property is called and no writer is reached
                ok = unset_on_none(fn)
                if not ok:
                    rep.violation('R5', loc(em, fn), fq, 'no unset on None',
                                  f'{fq}(p, None) no longer unsets the property and returns')
    # unset_property itself consults the map and calls unset_node_property
    me = prog.cls('fim.user.model_element:ModelElement')
    up = me.methods.get('unset_property')
    if up is None:
        raise AnalysisError('ModelElement.unset_property vanished')
    names = [call_name(c) for c in ast.walk(up) if isinstance(c, ast.Call)]
    rep.instance('R5', f'ModelElement.unset_property: calls {sorted(set(n for n in names if n))}')
    if 'map_sliver_property_to_graph' not in names or 'unset_node_property' not in names:
        rep.violation('R5', loc(me.module, up), 'ModelElement.unset_property', 'does not map and unset',
                      'unset_property must translate the sliver property name through the map and call '
                      'unset_node_property')

    # R8 property names used by the element classes exist on the sliver class of that element
    rep.rule('R8', 'every property name literal passed to get_property / set_property / set_properties in the user layer '
                   'names a getter / setter of the element\'s sliver class', floor=50)
    base_sl = prog.cls('fim.slivers.base_sliver:BaseSliver')
    user_classes = dict(ELEMENTS)
    user_classes['fim.user.model_element:ModelElement'] = None
    user_classes['fim.user.network_service:PortMirrorService'] = 'service'
    user_classes['fim.user.composite_node:CompositeNode'] = 'node'
    for espec, kind in user_classes.items():
        ecls = prog.cls(espec)
        scls = prog.cls(KINDS[kind][0]) if kind else base_sl
        names = scls.all_method_names()
        fns = list(ecls.methods.values())
        for pr in ecls.properties.values():
            fns += list(pr.values())
        for fn in fns:
            for c in walk_no_nested(fn):
                if not isinstance(c, ast.Call) or not isinstance(c.func, ast.Attribute):
                    continue
                recv = ast.unparse(c.func.value)
                if recv != 'self':
                    continue
                lits = []
                if c.func.attr in ('get_property', 'set_property'):
                    a0 = c.args[0] if c.args else (kwarg(c, 'pname') or kwarg(c, 'prop_name'))
                    if isinstance(a0, ast.Constant) and isinstance(a0.value, str):
                        lits.append((a0.value, 'get_' if c.func.attr == 'get_property' else 'set_'))
                elif c.func.attr == 'set_properties':
                    for k in c.keywords:
                        if k.arg:
                            lits.append((k.arg, 'set_'))
                for lit, pref in lits:
                    fqn = f'{ecls.name}.{fn.name}'
                    rep.instance('R8', f'{fqn}: {c.func.attr}({lit!r}) -> {scls.name}.{pref}{lit}')
                    if pref + lit not in names:
                        rep.violation('R8', loc(ecls.module, c), fqn, f'{c.func.attr}({lit!r})',
                                      f'{fqn} addresses sliver property {lit!r} but {scls.name} has no {pref}{lit}: the access '
                                      f'raises AttributeError instead of storing / returning the value')

    rep.rule('R9', 'deep writers store the children of a sliver whenever it carries them', floor=4)
    check_deep_writers(prog, rep, 'R9')
    # R11: a writer row is emitted only for an attribute that is set: set_property() builds a FRESH sliver that carries only the
    # property being set and merges the writer's dictionary into the node, so a row written from a constructor default
    # silently resets that property on every unrelated set_property()
    rep.rule('R11', 'every writer row is guarded by "the attribute is set" (no row from a constructor default)', floor=30)
    for wname in sorted(n_ for n_ in apg.methods if n_.endswith('_sliver_to_graph_properties_dict')):
        wfn = inline(prog, apg, unroll_const_loops(prog, apg, apg.methods[wname]), exclude=tuple(n_ for n_ in apg.methods if n_.endswith('_to_graph_properties_dict')))
        renv_ = {k_: v_ for k_, v_ in local_env(wfn).items() if isinstance(v_, (ast.Name, ast.Attribute))}
        svar = wfn.args.args[0].arg if wfn.args.args else None
        dn_ = {r.value.id for r in walk_no_nested(wfn) if isinstance(r, ast.Return) and isinstance(r.value, ast.Name)}
        for a in walk_no_nested(wfn):
            if not (isinstance(a, ast.Assign) and len(a.targets) == 1 and isinstance(a.targets[0], ast.Subscript) and
                    isinstance(a.targets[0].value, ast.Name) and a.targets[0].value.id in dn_):
                continue
            attrs_ = sorted({x.attr for x in ast.walk(expand(a.value, renv_)) if isinstance(x, ast.Attribute) and isinstance(x.value, ast.Name) and x.value.id == svar})
            if not attrs_:
                continue
            _, cs_ = _enclosing(a, wfn)
            guarded = False
            for c_ in cs_:
                for cj in conjuncts(canon(expand(c_, renv_))):
                    if isinstance(cj, ast.Call) and call_name(cj) == 'hasattr':
                        continue
                    if any(isinstance(x, ast.Attribute) and isinstance(x.value, ast.Name) and x.value.id == svar and x.attr in attrs_ for x in ast.walk(cj)):
                        guarded = True
            rep.instance('R11', f'{wname}: row from {attrs_} guarded by its own presence: {guarded}')
            if not guarded:
                rep.violation('R11', loc(apg.module, a), f'ABCPropertyGraph.{wname}', f'row {norm(a.targets[0].slice, 50)} written from {attrs_} unconditionally',
                              f'{wname} writes {norm(a.targets[0].slice, 50)} from sliver.{attrs_[0]} whether or not it was set; set_property() on a model '
                              f'element builds a fresh sliver holding only the property being set and merges this dictionary into the node, so the '
                              f'constructor default of {attrs_[0]} overwrites the stored value whenever any other property is set')
    # R12: the other side of R11 - a property that is written only when set may be missing from a node, so nothing reads it
    # with a bare subscript or a pop without default; only the identity properties (never removable) are read that way
    rep.rule('R12', 'graph properties read without a presence test are identity properties', floor=30)
    try:
        ident = set(prog.class_const(apg, 'NO_UNSET_PROPERTIES'))
    except Exception:
        raise AnalysisError('NO_UNSET_PROPERTIES does not fold')
    # StructuralInfo is given to every node of a combined broker model when it is merged (C14 R2 checks that)
    ALWAYS = {'fim/graph/resources/neo4j_cbm.py': {'StructuralInfo'}}
    for m_, c_, f_ in prog.all_functions():
        for n in ast.walk(f_):
            key = None
            if isinstance(n, ast.Call) and isinstance(n.func, ast.Attribute) and n.func.attr == 'pop' and len(n.args) == 1 and not n.keywords:
                key = n.args[0]
            elif isinstance(n, ast.Subscript) and isinstance(n.ctx, ast.Load):
                key = n.slice
            if key is None or not (isinstance(key, ast.Attribute) and key.attr.startswith('PROP_')):
                continue
            try:
                kv = prog.const_eval(key, m_, c_)
            except Exception:
                continue
            if not isinstance(kv, str):
                continue
            ktxt = ast.unparse(key)
            _, cs_ = _enclosing(n, f_)
            guarded = any(ktxt in ast.unparse(c__) for c__ in cs_)
            p_ = n
            while p_ is not None and p_ is not f_:
                p_ = getattr(p_, '_parent', None)
                if isinstance(p_, ast.IfExp) and ktxt in ast.unparse(p_.test):
                    guarded = True
                if isinstance(p_, ast.Try) and any(h.type is None or 'KeyError' in ast.unparse(h.type) or ast.unparse(h.type) in ('Exception', 'BaseException')
                                                   for h in p_.handlers):
                    guarded = True
            fq12 = (c_.name + '.' if c_ else '') + f_.name
            rep.instance('R12', f'{m_.relpath}:{n.lineno} {fq12}: {kv} read ' + ('behind a presence test' if guarded else 'directly'))
            if not guarded and kv not in ident and kv not in ALWAYS.get(m_.relpath, ()):
                rep.violation('R12', loc(m_, n), fq12, f'{kv} read without a presence test',
                              f'{norm(n, 60)} assumes that every node carries {kv}; the writers store that property only when it is set (and '
                              f'unset_property removes it), so this raises KeyError for an element that never had it set')
    # R10: deep readers collect ALL children: the container a loop fills is created once, before the loop
    rep.rule('R10', 'deep builders create the child container once per parent (not once per child)', floor=8)
    from ..lints import containers_filled_in_loops
    for mname, fn in sorted(apg.methods.items()):
        if not mname.startswith('build_deep_'):
            continue
        for var, loop, creation, where in containers_filled_in_loops(fn):
            rep.instance('R10', f'{mname}: {var} filled in the loop over {norm(loop.iter, 40) if isinstance(loop, ast.For) else "while"}, created {where} it')
            if where == 'inside':
                rep.violation('R10', loc(apg.module, creation), f'ABCPropertyGraph.{mname}', f'child container created inside the loop that fills it',
                              f'`{var}` is created anew in every iteration of the loop over the children and read after the loop: only the '
                              f'last child survives, a parent with two or more children of that kind comes back with one')

    # R13: a deep reader looks at every kind of child whatever it found for the other kinds
    rep.rule('R13', 'deep readers reach the listing of every child kind on every path that returns a sliver', floor=6)
    CHILD_KEYS = ('components', 'network_services', 'interfaces')
    for mname, fn0 in sorted(apg.methods.items()):
        if not (mname.startswith('build_deep_') or mname == 'interface_sliver_from_graph_properties_dict'):
            continue
        fn13 = inline(prog, apg, fn0, exclude=tuple(n_ for n_ in apg.methods if n_.startswith('build_deep_') or n_.endswith('_from_graph_properties_dict')))
        listings = []
        for n in walk_no_nested(fn13):
            if isinstance(n, ast.Call) and call_name(n) in ('get_first_neighbor', 'get_all_child_connection_points', 'get_all_ns_or_link_connection_points'):
                listings.append(n)
            elif isinstance(n, ast.Call) and isinstance(n.func, ast.Attribute) and n.func.attr == 'get' and n.args and isinstance(n.args[0], ast.Constant) and \
                    n.args[0].value in CHILD_KEYS:
                listings.append(n)
            elif isinstance(n, ast.Subscript) and isinstance(n.ctx, ast.Load) and isinstance(n.slice, ast.Constant) and n.slice.value in CHILD_KEYS and \
                    not any(isinstance(x, ast.Call) and isinstance(x.func, ast.Attribute) and x.func.attr == 'get' and x.args and isinstance(x.args[0], ast.Constant) and
                            x.args[0].value == n.slice.value for x in walk_no_nested(fn13)):
                listings.append(n)
        if not listings:
            continue
        # what each listing's result is called
        result_of = {}
        for a_ in walk_no_nested(fn13):
            if isinstance(a_, ast.Assign) and len(a_.targets) == 1 and isinstance(a_.targets[0], ast.Name):
                for l_ in listings:
                    if any(x is l_ for x in ast.walk(a_.value)):
                        result_of[a_.targets[0].id] = l_
        for l_ in listings:
            _, conds13 = _enclosing(l_, fn13)
            others = {nm for nm, lst in result_of.items() if lst is not l_}
            dep = sorted({x.id for c_ in conds13 if getattr(c_, '_guard', None) != 'Raise' for x in ast.walk(c_) if isinstance(x, ast.Name) and x.id in others})
            rep.instance('R13', f'{mname}: {norm(l_, 70)} reached whatever the other listings returned: {not dep}')
            if dep:
                rep.violation('R13', loc(apg.module, l_), f'ABCPropertyGraph.{mname}', f'{norm(l_, 70)} only when {dep} allow it',
                              f'{mname} looks for this kind of child only on paths decided by what it found for another kind ({dep}: an early '
                              f'return, or a listing nested under the test on the other kind): an element that has children of this kind but '
                              f'none of the other comes back without them')

    # R6 deep dictionary
    s2d = apg.methods.get('sliver_to_dict')
    if s2d is None:
        raise AnalysisError('sliver_to_dict vanished')
    s2d = inline(prog, apg, s2d)
    written = {}   # sliver class name -> set(keys)
    rets = [r.value.id for r in walk_no_nested(s2d) if isinstance(r, ast.Return) and isinstance(r.value, ast.Name)]
    if not rets:
        raise AnalysisError('sliver_to_dict: returned dictionary not found')
    dvar = rets[-1]
    blds = builders(s2d)
    all_types = sorted({x.id for x in ast.walk(s2d) if isinstance(x, ast.Name) and x.id.endswith('Sliver') and x.id != 'BaseSliver'})

    def _type_truth(c, T):
        """truth of a path condition under "the sliver is exactly a T": True / False, None = does not depend on the type"""
        if isinstance(c, ast.UnaryOp) and isinstance(c.op, ast.Not):
            v = _type_truth(c.operand, T)
            return None if v is None else not v
        if isinstance(c, ast.BoolOp):
            vs = [_type_truth(v, T) for v in c.values]
            if isinstance(c.op, ast.And):
                return False if any(v is False for v in vs) else (True if all(v is True for v in vs) else None)
            return True if any(v is True for v in vs) else (False if all(v is False for v in vs) else None)
        if isinstance(c, ast.Compare) and len(c.ops) == 1:
            l, r = c.left, c.comparators[0]
            if isinstance(r, ast.Call) and call_name(r) == 'type' and r.args and not isinstance(c.ops[0], (ast.In, ast.NotIn)):
                l, r = r, l
            if isinstance(l, ast.Call) and call_name(l) == 'type' and l.args:
                names = [x.id for x in ast.walk(r) if isinstance(x, ast.Name) and x.id.endswith('Sliver')]
                if names:
                    if isinstance(c.ops[0], (ast.Eq, ast.Is, ast.In)):
                        return T in names
                    if isinstance(c.ops[0], (ast.NotEq, ast.IsNot, ast.NotIn)):
                        return T not in names
        if isinstance(c, ast.Call) and call_name(c) == 'isinstance' and len(c.args) == 2:
            names = [x.id for x in ast.walk(c.args[1]) if isinstance(x, ast.Name) and x.id.endswith('Sliver')]
            if names:
                return T in names
        return None

    # the converter is evaluated once per sliver class ("the argument is exactly a T"): table lookups, if-chains and loops over
    # constant rows are all resolved by the partial evaluator, what is left are the key writes of that class
    from ..normalize import specialize
    type_keys = [k for k in all_types]
    for cname_, tbl in list(apg.assigns.items()):
        if isinstance(tbl, ast.Dict):
            type_keys += [k.id for k in tbl.keys if isinstance(k, ast.Name) and k.id.endswith('Sliver')]
    for T in sorted(set(type_keys)):
        g = specialize(prog, apg, s2d, {'type(sliver)': ast.Name(id=T, ctx=ast.Load())})
        if any(isinstance(x, ast.Raise) for x in g.body):
            continue        # not a convertible class
        blds_g = builders(g)
        keys = set()
        for a in ast.walk(g):
            if isinstance(a, ast.Assign) and isinstance(a.targets[0], ast.Subscript) and isinstance(a.targets[0].value, ast.Name) and \
                    a.targets[0].value.id == dvar and isinstance(a.targets[0].slice, ast.Constant):
                keys.add(a.targets[0].slice.value)
                v = a.value
                elts = []
                cb = comp_builder('_', v)
                if cb is not None:
                    elts.append(cb.elt)
                elif isinstance(v, ast.Name):
                    elts.extend(b.elt for b in blds_g.get(v.id, []))
                for inner in elts:
                    rec = isinstance(inner, ast.Call) and call_name(inner) == 'sliver_to_dict'
                    rep.instance('R6', f'sliver_to_dict[{T}]: child under {a.targets[0].slice.value!r} converted by {norm(inner, 70)}')
                    if not rec:
                        rep.violation('R6', loc(mod, inner), 'ABCPropertyGraph.sliver_to_dict',
                                      f'{T}: child appended as {norm(inner, 70)}',
                                      'children of a sliver must be converted with sliver_to_dict (recursively); '
                                      'a flat property dict drops their own children')
        written.setdefault(T, set()).update(keys)
    readers = {
        'NodeSliver': 'build_deep_node_sliver_from_dict', 'NetworkServiceSliver': 'build_deep_ns_sliver_from_dict',
        'ComponentSliver': 'build_deep_component_sliver_from_dict',
        'InterfaceSliver': 'interface_sliver_from_graph_properties_dict',
    }
    child_builder = {'components': 'build_deep_component_sliver_from_dict',
                     'network_services': 'build_deep_ns_sliver_from_dict',
                     'interfaces': 'interface_sliver_from_graph_properties_dict'}
    for sname, rfn in readers.items():
        fn = apg.methods.get(rfn)
        if fn is None:
            raise AnalysisError(f'{rfn} vanished')
        fn = inline(prog, apg, fn, exclude=tuple(child_builder.values()))
        keys_read = set()
        dparams = set(func_params(fn))
        for n in ast.walk(fn):
            if isinstance(n, ast.Call) and isinstance(n.func, ast.Attribute) and n.func.attr == 'get' and n.args \
                    and isinstance(n.args[0], ast.Constant) and isinstance(n.args[0].value, str) \
                    and isinstance(n.func.value, ast.Name) and n.func.value.id in dparams:
                keys_read.add(n.args[0].value)
            elif isinstance(n, ast.Subscript) and isinstance(n.ctx, ast.Load) and isinstance(n.value, ast.Name) and n.value.id in dparams \
                    and isinstance(n.slice, ast.Constant) and isinstance(n.slice.value, str):
                keys_read.add(n.slice.value)
        w = written.get(sname, set())
        rep.instance('R6', f'{sname}: keys written {sorted(w)} read by {rfn} {sorted(keys_read)}')
        if w != keys_read:
            rep.violation('R6', loc(mod, fn), f'ABCPropertyGraph.{rfn}',
                          f'{sname}: written {sorted(w)} read {sorted(keys_read)}',
                          f'deep dictionary keys of {sname} disagree: sliver_to_dict writes {sorted(w)} but {rfn} reads '
                          f'{sorted(keys_read)}')
        # children built with the builder of their kind
        called = {call_name(c) for c in ast.walk(fn) if isinstance(c, ast.Call)}
        for k in keys_read:
            if child_builder.get(k) and child_builder[k] not in called:
                rep.violation('R6', loc(mod, fn), f'ABCPropertyGraph.{rfn}', f'{sname}: {k} not rebuilt with {child_builder[k]}',
                              f'children under key {k!r} must be rebuilt with {child_builder[k]}')


def unset_on_none(fn):
    """set_property(p, None) unsets: there is a test `<value param> is None` whose true branch calls unset_property and
    from which no sliver writer call is reachable (CFG)."""
    cfg = CFG(fn)
    params = func_params(fn)
    for t in cfg.nodes:
        if t.kind != 'test' or t.tag != 'if':
            continue
        c = canon(t.ast)
        if not (isinstance(c, ast.Compare) and len(c.ops) == 1 and isinstance(c.ops[0], (ast.Is, ast.Eq)) and
                isinstance(c.comparators[0], ast.Constant) and c.comparators[0].value is None and
                isinstance(c.left, ast.Name) and c.left.id in params):
            continue
        # explore from the true edge
        seen, stack, unset, writes = set(), [s for s, ek in t.succ if ek == 't'], False, False
        while stack:
            n = stack.pop()
            if n.id in seen:
                continue
            seen.add(n.id)
            calls = []
            if n.ast is not None and n.kind in ('stmt', 'test', 'iter') and not (n.kind == 'test' and n.tag == 'for'):
                calls = [call_name(x) for x in walk_no_nested(n.ast) if isinstance(x, ast.Call)]
            if 'unset_property' in calls:
                unset = True
            if any(x and (x.endswith('_to_graph_properties_dict') or x in ('update_node_properties', 'update_node_property')) for x in calls):
                writes = True
            for s_, ek in n.succ:
                if ek != 'x':
                    stack.append(s_)
        if unset and not writes:
            return True
    return False


def check_deep_writers(prog, rep, rule):
    """R9: the add_*_sliver writers store the children a sliver carries whenever it carries them: a nested writer call may be
    conditional only on the child container of the sliver itself (is not None / non-empty), never on the parent id or on
    anything else - otherwise some slivers lose their children on the way into the graph."""
    apg = prog.cls(APG)
    writers = {n: f for n, f in apg.methods.items() if n.startswith('add_') and n.endswith('_sliver')}
    for name, fn0 in sorted(writers.items()):
        fn = inline(prog, apg, fn0)
        env = local_env(fn)
        params = func_params(fn)
        for c in walk_no_nested(fn):
            if not (isinstance(c, ast.Call) and call_name(c) in writers and isinstance(c.func, ast.Attribute)):
                continue
            gens, conds = _enclosing(c, fn)
            sliver_params = [p for p in params if p not in ('self', 'parent_node_id')]
            rep.instance(rule, f'{name} -> {call_name(c)} under {[norm(x, 50) for x in conds]}')
            # the children hang off the element just written: the parent handed to the nested writer is the id of this writer's
            # own sliver, not the id this writer was given for ITS parent
            callee_params = [p for p in func_params(writers[call_name(c)]) if p != 'self']
            pidx = callee_params.index('parent_node_id') if 'parent_node_id' in callee_params else None
            parg = kwarg(c, 'parent_node_id')
            if parg is None and pidx is not None and len(c.args) > pidx:
                parg = c.args[pidx]
            if parg is not None:
                pe = expand(parg, env)
                own = isinstance(pe, ast.Attribute) and pe.attr == 'node_id' and isinstance(pe.value, ast.Name) and pe.value.id in sliver_params
                if not own:
                    rep.violation(rule, loc(apg.module, c), f'ABCPropertyGraph.{name}', f'{call_name(c)} with parent {norm(parg, 50)}',
                                  f'{name} hangs the children of the sliver under "{norm(parg, 50)}" instead of under the node it has just '
                                  f'written for the sliver itself (<sliver>.node_id): the children end up attached to the wrong element '
                                  f'and the element read back from the graph has none')
            for cond in conds:
                if getattr(cond, '_guard', None) == 'Raise':
                    continue        # a rejection: nothing at all is stored when it fails
                for cj in conjuncts(canon(expand(cond, env))):
                    names = {n.id for n in ast.walk(cj) if isinstance(n, ast.Name)} - {'len', 'isinstance', 'list', 'dict'}
                    if not names or not names <= set(sliver_params):
                        rep.violation(rule, loc(apg.module, c), f'ABCPropertyGraph.{name}', f'{call_name(c)} only when {norm(cj, 70)}',
                                      f'{name} writes the children of the sliver ({call_name(c)}) only when "{norm(cj, 70)}" holds: a sliver '
                                      f'that carries children but does not satisfy that condition is stored without them and '
                                      f'comes back from the graph incomplete')


    # completeness: every child container the deep graph READER of a kind fills is written by the deep WRITER of that kind
    CHILD_WRITER = {'attached_components_info': 'add_component_sliver', 'network_service_info': 'add_network_service_sliver',
                    'interface_info': 'add_interface_sliver'}
    PAIRS = {'add_network_node_sliver': 'build_deep_node_sliver', 'add_component_sliver': 'build_deep_component_sliver',
             'add_network_service_sliver': 'build_deep_ns_sliver', 'add_interface_sliver': 'build_deep_interface_sliver'}
    for wname, rname in PAIRS.items():
        wf, rf = apg.methods.get(wname), apg.methods.get(rname)
        if wf is None or rf is None:
            raise AnalysisError(f'deep writer/reader pair {wname}/{rname} vanished')
        read_ = {t.attr for a in ast.walk(rf) if isinstance(a, ast.Assign) for t in a.targets if isinstance(t, ast.Attribute) and t.attr in CHILD_WRITER}
        wfi = inline(prog, apg, wf)
        wenv = local_env(wfi)
        for cont in sorted(read_):
            loops_ = [l for l in ast.walk(wfi) if isinstance(l, ast.For) and any(isinstance(x, ast.Attribute) and x.attr == cont for x in ast.walk(expand(l.iter, wenv))) and
                      any(isinstance(c, ast.Call) and call_name(c) == CHILD_WRITER[cont] for c in ast.walk(l))]
            rep.instance(rule, f'{wname}: children in {cont} (read back by {rname}) are written: {bool(loops_)}')
            if not loops_:
                rep.violation(rule, loc(apg.module, wf), f'ABCPropertyGraph.{wname}', f'children in {cont} never written',
                              f'{rname} rebuilds the {cont} of an element from the graph, but {wname} never writes the children a sliver '
                              f'carries there ({CHILD_WRITER[cont]} is not called for them): a sliver with such children loses them on the way '
                              f'into the graph, while the dictionary / JSON conversion keeps them')


APGF = 'fim/graph/abc_property_graph.py'
MUTANTS = [
    {'name': 'stitch-node-not-unsettable', 'file': 'fim/graph/abc_property_graph.py', 'rule': 'R4',
     'find': ",\n        \"stitch_node\": ABCPropertyGraphConstants.PROP_STITCH_NODE\n", 'replace': "\n"},
    {'name': 'repr-assumes-stitch-flag-present', 'file': 'fim/user/model_element.py', 'rule': 'R12',
     'find': 'node_props.pop(ABCPropertyGraph.PROP_STITCH_NODE, None)', 'replace': 'node_props.pop(ABCPropertyGraph.PROP_STITCH_NODE)'},
    {'name': 'sub-interfaces-not-written', 'file': APGF, 'rule': 'R9',
     'find': "                self.add_interface_sliver(parent_node_id=interface.node_id, interface=child)\n", 'replace': "                pass\n"},
    {'name': 'stitch-flag-written-from-default', 'file': APGF, 'rule': 'R11',
     'find': "        if hasattr(sliver, 'stitch_node') and sliver.stitch_node is not None:", 'replace': "        if hasattr(sliver, 'stitch_node'):"},
    {'name': 'unset-map-row-dropped', 'file': APGF, 'rule': 'R4',
     'find': '        "location": ABCPropertyGraphConstants.PROP_LOCATION,\n', 'replace': ''},
    {'name': 'reader-row-dropped', 'file': APGF, 'rule': 'R2',
     'find': "                              boot_script=d.get(ABCPropertyGraph.PROP_BOOT_SCRIPT, None)\n",
     'replace': "                              \n"},
    {'name': 'reader-wrong-constant', 'file': APGF, 'rule': 'R1',
     'find': 'label_allocations=Labels.from_json(d.get(ABCPropertyGraph.PROP_LABEL_ALLOCATIONS,',
     'replace': 'label_allocations=Labels.from_json(d.get(ABCPropertyGraph.PROP_LABELS,'},
    {'name': 'decode-with-sibling-class', 'file': APGF, 'rule': 'R3',
     'find': 'capacity_allocations=Capacities.from_json(', 'replace': 'capacity_allocations=Labels.from_json('},
    {'name': 'writer-row-dropped', 'file': APGF, 'rule': 'R1',
     'find': "        if hasattr(sliver, 'controller_url') and sliver.controller_url is not None:\n            prop_dict[ABCPropertyGraph.PROP_CONTROLLER_URL] = sliver.controller_url\n",
     'replace': ''},
    {'name': 'layer-decoded-raw', 'file': APGF, 'rule': 'R3', 'count': 2,
     'find': 'layer=NSLayer.from_string(d.get(ABCPropertyGraph.PROP_LAYER)),', 'replace': 'layer=d.get(ABCPropertyGraph.PROP_LAYER),'},
    {'name': 'interface-uses-link-writer', 'file': 'fim/user/interface.py', 'rule': 'R5', 'count': 2,
     'find': 'prop_dict = self.topo.graph_model.interface_sliver_to_graph_properties_dict(if_sliver)',
     'replace': 'prop_dict = self.topo.graph_model.link_sliver_to_graph_properties_dict(if_sliver)'},
    {'name': 'map-key-misspelled', 'file': APGF, 'rule': 'R4',
     'find': '        "mirror_vlan": ABCPropertyGraphConstants.PROP_MIRROR_VLAN,', 'replace': '        "mirror_vlan_": ABCPropertyGraphConstants.PROP_MIRROR_VLAN,'},
    {'name': 'element-property-name-typo', 'file': 'fim/user/model_element.py', 'rule': 'R8',
     'find': "            self.set_property('boot_script', value)", 'replace': "            self.set_property('bootscript', value)"},
    {'name': 'deep-key-renamed-on-writer', 'file': APGF, 'rule': 'R6', 'count': 2,
     'find': "                d['network_services'] = nss", 'replace': "                d['services'] = nss"},
    {'name': 'composite-split-unbounded', 'file': APGF, 'rule': 'R3',
     'find': "image_ref, image_type = d[ABCPropertyGraph.PROP_IMAGE_REF].rsplit(',', 1)", 'replace': "image_ref, image_type = d[ABCPropertyGraph.PROP_IMAGE_REF].split(',')"},
]
TWINS = [
    {'name': 'map-rows-reordered', 'file': APGF,
     'find': '        "site": ABCPropertyGraphConstants.PROP_SITE,\n        "location": ABCPropertyGraphConstants.PROP_LOCATION,\n',
     'replace': '        "location": ABCPropertyGraphConstants.PROP_LOCATION,\n        "site": ABCPropertyGraphConstants.PROP_SITE,\n'},
    {'name': 'constant-through-other-class-name', 'file': APGF,
     'find': 'prop_dict[ABCPropertyGraph.PROP_BOOT_SCRIPT] = sliver.boot_script',
     'replace': 'prop_dict[ABCPropertyGraphConstants.PROP_BOOT_SCRIPT] = sliver.boot_script'},
]
