"""
fimsa.cypher -- a hand tokenizer for the Cypher subset FIM emits, and the structural checks of C19:
balanced brackets/quotes, no unexpanded Python template fragment, variables bound, $parameters named.
"""
import re

KEYWORDS = {
    'MATCH', 'OPTIONAL', 'WHERE', 'RETURN', 'WITH', 'AS', 'SET', 'REMOVE', 'DELETE', 'DETACH', 'CALL', 'YIELD',
    'UNWIND', 'AND', 'OR', 'NOT', 'IN', 'IS', 'NULL', 'TRUE', 'FALSE', 'CREATE', 'INDEX', 'IF', 'EXISTS', 'FOR',
    'ON', 'DISTINCT', 'UNION', 'ORDER', 'BY', 'LIMIT', 'SKIP', 'MERGE', 'XOR', 'STARTS', 'ENDS', 'CONTAINS',
    'CASE', 'WHEN', 'THEN', 'ELSE', 'END', 'ASC', 'DESC', 'DROP', 'CONSTRAINT', 'UNIQUE', 'ASSERT', 'FOREACH',
}
CLAUSE_KEYWORDS = {'MATCH', 'OPTIONAL', 'WHERE', 'RETURN', 'WITH', 'SET', 'REMOVE', 'DELETE', 'DETACH', 'CALL',
                   'UNWIND', 'CREATE', 'MERGE', 'UNION', 'ORDER', 'LIMIT', 'SKIP', 'FOREACH'}
QUANTIFIERS = {'ALL', 'ANY', 'NONE', 'SINGLE'}
OPEN = {'(': ')', '[': ']', '{': '}'}
CLOSE = {v: k for k, v in OPEN.items()}


class Tok:
    __slots__ = ('kind', 'text', 'pos', 'depth_stack')

    def __init__(self, kind, text, pos):
        self.kind = kind      # ident, param, string, number, punct, bq
        self.text = text
        self.pos = pos
        self.depth_stack = ()

    def __repr__(self):
        return f'{self.kind}:{self.text}'


def tokenize(text):
    """Returns (tokens, problems). problems: list of strings (unterminated string ...)."""
    toks = []
    problems = []
    i = 0
    n = len(text)
    while i < n:
        c = text[i]
        if c.isspace():
            i += 1
            continue
        if c in ('"', "'"):
            j = i + 1
            while j < n and text[j] != c:
                if text[j] == '\\':
                    j += 1
                j += 1
            if j >= n:
                problems.append(f'unterminated {c}-quoted string starting at offset {i}: {text[i:i + 40]!r}')
                toks.append(Tok('string', text[i:], i))
                break
            toks.append(Tok('string', text[i:j + 1], i))
            i = j + 1
            continue
        if c == '`':
            j = text.find('`', i + 1)
            if j < 0:
                problems.append(f'unterminated backtick identifier at offset {i}')
                break
            toks.append(Tok('bq', text[i:j + 1], i))
            i = j + 1
            continue
        if c == '$':
            m = re.match(r'\$[A-Za-z_][A-Za-z0-9_]*', text[i:])
            if m:
                toks.append(Tok('param', m.group(0)[1:], i))
                i += len(m.group(0))
                continue
            toks.append(Tok('punct', c, i))
            i += 1
            continue
        m = re.match(r'[A-Za-z_][A-Za-z0-9_]*', text[i:])
        if m:
            toks.append(Tok('ident', m.group(0), i))
            i += len(m.group(0))
            continue
        m = re.match(r'\d+(\.\d+)?', text[i:])
        if m:
            toks.append(Tok('number', m.group(0), i))
            i += len(m.group(0))
            continue
        toks.append(Tok('punct', c, i))
        i += 1
    return toks, problems


def check_statement(text):
    """Structural checks on one (rendered) statement.
    Returns dict(problems=[(rule, message)], params=set, bound=set, used=set)."""
    problems = []
    toks, tprob = tokenize(text)
    for p in tprob:
        problems.append(('R1', p))
    # bracket balance outside strings
    stack = []
    for t in toks:
        if t.kind == 'punct' and t.text in OPEN:
            stack.append(t)
        elif t.kind == 'punct' and t.text in CLOSE:
            if not stack or OPEN[stack[-1].text] != t.text:
                problems.append(('R1', f'unbalanced "{t.text}" at offset {t.pos}: ...{text[max(0, t.pos - 25):t.pos + 10]!r}'))
                if stack and OPEN[stack[-1].text] != t.text:
                    stack.pop()
            else:
                stack.pop()
        t.depth_stack = tuple(s.text for s in stack)
    for s in stack:
        problems.append(('R1', f'unclosed "{s.text}" opened at offset {s.pos}: {text[s.pos:s.pos + 40]!r}'))
    # unexpanded template fragments (outside string literals)
    for a, b in zip(toks, toks[1:]):
        if a.kind == 'punct' and b.kind == 'punct' and a.text == b.text and a.text in '{}' and b.pos == a.pos + 1:
            problems.append(('R1', f'doubled brace "{a.text}{b.text}" at offset {a.pos} - an f-string escape reached '
                                   f'the driver unexpanded: {text[max(0, a.pos - 15):a.pos + 25]!r}'))
    for i in range(len(toks) - 2):
        a, b, c = toks[i], toks[i + 1], toks[i + 2]
        if a.kind == 'punct' and a.text == '{' and b.kind == 'ident' and c.kind == 'punct' and c.text == '}':
            problems.append(('R1', f'unexpanded template field "{{{b.text}}}" at offset {a.pos}'))
    # juxtaposed operands: a literal / parameter directly followed by another operand (no operator, comma or keyword
    # between them) is not valid in any Cypher statement - typically a lost comma in a property map or argument list
    for a, b in zip(toks, toks[1:]):
        a_val = a.kind in ('param', 'string', 'number')
        b_opnd = b.kind in ('param', 'string', 'number', 'bq') or (b.kind == 'ident' and b.text.upper() not in KEYWORDS
                                                                  and b.text.upper() not in QUANTIFIERS)
        if a_val and (b_opnd or (b.kind == 'punct' and b.text in '([{' and a.kind != 'number')):
            if a.kind == 'number' and b.kind == 'punct':
                continue
            problems.append(('R1', f'operands "{a.text[:20]}" and "{b.text[:20]}" are juxtaposed at offset {b.pos} without an operator '
                                   f'or separator (lost comma?): ...{text[max(0, a.pos - 20):b.pos + 20]!r}'))
        if a.kind == 'punct' and a.text in ')]}' and b.kind in ('param', 'string', 'number'):
            problems.append(('R1', f'"{a.text}" directly followed by operand "{b.text[:20]}" at offset {b.pos} (lost comma or operator?): '
                                   f'...{text[max(0, a.pos - 20):b.pos + 20]!r}'))
    # empty operands: a clause / operator keyword that is followed by nothing it could apply to, and empty elements of maps
    # and lists (", }", "{ ,", ", ,") - what is left when a statement is assembled from an empty collection of fragments
    NEED_OPERAND = {'WHERE', 'AND', 'OR', 'XOR', 'NOT', 'SET', 'ON', 'BY', 'RETURN', 'WITH', 'MATCH', 'UNWIND', 'DELETE', 'REMOVE', 'MERGE', 'IN'}
    for i, a in enumerate(toks):
        b = toks[i + 1] if i + 1 < len(toks) else None
        if a.kind == 'ident' and a.text.upper() in NEED_OPERAND and not (i > 0 and toks[i - 1].kind == 'punct' and toks[i - 1].text in (':', '.')):
            if a.text.upper() == 'WITH' and i > 0 and toks[i - 1].kind == 'ident' and toks[i - 1].text.upper() in ('STARTS', 'ENDS'):
                continue
            empty = b is None or (b.kind == 'punct' and b.text in ')]},;') or \
                (b.kind == 'ident' and b.text.upper() in (CLAUSE_KEYWORDS | {'AND', 'OR', 'XOR'}) - {'OPTIONAL'} and
                 not (a.text.upper() in ('ON',) and b.text.upper() in ('CREATE', 'MATCH')) and
                 not (a.text.upper() == 'RETURN' and False))
            if empty:
                problems.append(('R1', f'"{a.text}" at offset {a.pos} has nothing to apply to (followed by '
                                       f'{"the end of the statement" if b is None else repr(b.text)}): ...{text[max(0, a.pos - 25):a.pos + 30]!r}'))
        if a.kind == 'punct' and a.text == ',' and (b is None or (b.kind == 'punct' and b.text in ',)]}')):
            problems.append(('R1', f'empty element after "," at offset {a.pos}: ...{text[max(0, a.pos - 25):a.pos + 15]!r}'))
        if a.kind == 'punct' and a.text in '([{' and b is not None and b.kind == 'punct' and b.text == ',':
            problems.append(('R1', f'empty element before "," at offset {b.pos}: ...{text[max(0, a.pos - 15):b.pos + 15]!r}'))
    # parameters
    params = {t.text for t in toks if t.kind == 'param'}
    # variables
    bound = set()
    used = []
    up = lambda t: t.text.upper()
    n = len(toks)

    def is_kw(t):
        return t.kind == 'ident' and up(t) in KEYWORDS

    in_yield = False
    for i, t in enumerate(toks):
        prev = toks[i - 1] if i > 0 else None
        nxt = toks[i + 1] if i + 1 < n else None
        if t.kind == 'ident' and up(t) == 'YIELD':
            in_yield = True
            continue
        if t.kind == 'ident' and up(t) in CLAUSE_KEYWORDS | {'WHERE'}:
            in_yield = False
        if t.kind != 'ident':
            continue
        if is_kw(t):
            continue
        if prev is not None and prev.kind == 'punct' and prev.text in (':', '.', '|') and not \
                (prev.text == '|' and True and _is_comprehension_bar(toks, i - 1)):
            continue        # label / relationship type / property name / alternative rel type
        if prev is not None and prev.kind == 'ident' and up(prev) == 'INDEX':
            continue        # index name
        if nxt is not None and nxt.kind == 'punct' and nxt.text == '(':
            continue        # function / procedure name (incl. quantifiers ALL(...))
        if nxt is not None and nxt.kind == 'punct' and nxt.text == '.':
            # namespace of a procedure (apoc.x.y( ) or variable.property
            j = i
            while j + 2 < n and toks[j + 1].kind == 'punct' and toks[j + 1].text == '.' and toks[j + 2].kind == 'ident':
                j += 2
            if j + 1 < n and toks[j + 1].kind == 'punct' and toks[j + 1].text == '(' and j > i:
                continue    # dotted procedure name
        if nxt is not None and nxt.kind == 'punct' and nxt.text == ':' and t.depth_stack and t.depth_stack[-1] == '{':
            continue        # map key
        # --- a variable occurrence: binding or use? ---
        binding = False
        if prev is not None and prev.kind == 'ident' and up(prev) == 'AS':
            binding = True
        elif in_yield:
            binding = True
        elif nxt is not None and nxt.kind == 'ident' and up(nxt) == 'IN' and prev is not None \
                and prev.kind == 'punct' and prev.text in ('(', '['):
            binding = True
        elif prev is not None and prev.kind == 'punct' and prev.text in ('(', '['):
            before = toks[i - 2] if i >= 2 else None
            is_call_paren = prev.text == '(' and before is not None and before.kind == 'ident' and not is_kw(before) \
                and not _quantifier(before)
            if before is not None and before.kind == 'ident' and _quantifier(before):
                is_call_paren = False
            if not is_call_paren and nxt is not None and nxt.kind == 'punct' and nxt.text in (':', '{', ')', ']', '*'):
                binding = True
            elif not is_call_paren and nxt is not None and nxt.kind in ('punct',) and nxt.text == ' ':
                binding = True
        elif nxt is not None and nxt.kind == 'punct' and nxt.text == '=' and prev is not None and \
                ((prev.kind == 'punct' and prev.text == ',') or (prev.kind == 'ident' and up(prev) in ('MATCH',))):
            binding = True
        if binding:
            bound.add(t.text)
        else:
            used.append(t)
    for t in used:
        if t.text not in bound and t.text.upper() not in ('COUNT',):
            problems.append(('R2', f'variable "{t.text}" is referenced at offset {t.pos} but never bound by a pattern, '
                                   f'AS, YIELD, UNWIND or a comprehension: ...{text[max(0, t.pos - 30):t.pos + 20]!r}'))
    return {'problems': problems, 'params': params, 'bound': bound, 'used': {t.text for t in used},
            'tokens': len(toks)}


def _quantifier(t):
    return t.kind == 'ident' and t.text.upper() in QUANTIFIERS


def _is_comprehension_bar(toks, k):
    """'|' inside [...] that separates a comprehension from its projection (as opposed to a rel type alternative
    such as -[:a|b]-). A rel-type bar is preceded (possibly after other types) by ':' inside the same bracket."""
    depth = 0
    for j in range(k - 1, -1, -1):
        t = toks[j]
        if t.kind == 'punct' and t.text in CLOSE:
            depth += 1
        elif t.kind == 'punct' and t.text in OPEN:
            if depth == 0:
                # reached the opening bracket: look at what follows it
                nxt = toks[j + 1] if j + 1 < len(toks) else None
                if t.text == '[' and nxt is not None and nxt.kind == 'punct' and nxt.text == ':':
                    return False
                if t.text == '[' and nxt is not None and nxt.kind == 'ident' and j + 2 < len(toks) and \
                        toks[j + 2].kind == 'punct' and toks[j + 2].text == ':':
                    return False
                return True
            depth -= 1
    return True
