"""
fimsa.prenorm -- canonicalisation applied to every module right after parsing, before any rule sees it.

Three rewrites, each an exact semantic identity, chosen because they remove differences that carry no meaning and that
otherwise every rule would have to see through on its own:

T  ``t = E`` immediately followed by ``if t:`` / ``return t`` where ``t`` is a plain local with no other load or store in
   the function  ->  ``if E:`` / ``return E``
N  ``if not c: B else: A`` (A not an elif chain)  ->  ``if c: A else: B``
A  ``if a: if b: X`` (neither has an else, the inner if is the only statement)  ->  ``if a and b: X``
W  ``if (t := E) <rest of test>:`` with the walrus as the first operand evaluated  ->  ``t = E`` followed by ``if t <rest>:``
M  ``match s: case V: A; case V1 | V2: B; case _: C`` with value / singleton / or / wildcard patterns only (no captures,
   optional guards) and a side-effect free subject (name or attribute chain)  ->  ``if s == V: A elif s in (V1, V2): B else: C``

Line numbers of the surviving nodes are those of the original source.
"""
import ast


def _name_counts(fn):
    loads, stores = {}, {}
    for n in ast.walk(fn):
        if isinstance(n, ast.Name):
            d = loads if isinstance(n.ctx, ast.Load) else stores
            d[n.id] = d.get(n.id, 0) + 1
        elif isinstance(n, (ast.Global, ast.Nonlocal)):
            for nm in n.names:
                stores[nm] = stores.get(nm, 0) + 2
    a = fn.args
    for x in a.posonlyargs + a.args + a.kwonlyargs + ([a.vararg] if a.vararg else []) + ([a.kwarg] if a.kwarg else []):
        stores[x.arg] = stores.get(x.arg, 0) + 2
    return loads, stores


def _is_name(e, nm):
    return isinstance(e, ast.Name) and e.id == nm


class _Blocks(ast.NodeTransformer):
    def __init__(self, loads, stores):
        self.loads, self.stores = loads, stores

    def _fold(self, stmts):
        out = []
        i = 0
        while i < len(stmts):
            st = stmts[i]
            nxt = stmts[i + 1] if i + 1 < len(stmts) else None
            if isinstance(st, ast.Assign) and len(st.targets) == 1 and isinstance(st.targets[0], ast.Name) and nxt is not None:
                nm = st.targets[0].id
                if self.loads.get(nm, 0) == 1 and self.stores.get(nm, 0) == 1 and \
                        not any(isinstance(x, (ast.NamedExpr, ast.Yield, ast.YieldFrom, ast.Await)) for x in ast.walk(st.value)):
                    if isinstance(nxt, ast.If) and _is_name(nxt.test, nm):
                        nxt.test = st.value
                        i += 1
                        continue
                    if isinstance(nxt, ast.Return) and _is_name(nxt.value, nm):
                        nxt.value = st.value
                        i += 1
                        continue
            out.append(st)
            i += 1
        return out

    def generic_visit(self, node):
        for field in ('body', 'orelse', 'finalbody'):
            v = getattr(node, field, None)
            if isinstance(v, list) and v and isinstance(v[0], ast.stmt):
                setattr(node, field, self._fold(v))
        super().generic_visit(node)
        return node

    def visit_FunctionDef(self, node):
        return node          # nested functions are handled on their own

    visit_AsyncFunctionDef = visit_FunctionDef
    visit_Lambda = visit_FunctionDef
    visit_ClassDef = visit_FunctionDef


class _Shape(ast.NodeTransformer):
    def visit_If(self, node):
        self.generic_visit(node)
        # N
        if isinstance(node.test, ast.UnaryOp) and isinstance(node.test.op, ast.Not) and node.orelse and \
                not (len(node.orelse) == 1 and isinstance(node.orelse[0], ast.If)):
            node.test, node.body, node.orelse = node.test.operand, node.orelse, node.body
        # A
        while not node.orelse and len(node.body) == 1 and isinstance(node.body[0], ast.If) and not node.body[0].orelse:
            inner = node.body[0]
            vals = []
            for t in (node.test, inner.test):
                if isinstance(t, ast.BoolOp) and isinstance(t.op, ast.And):
                    vals.extend(t.values)
                else:
                    vals.append(t)
            node.test = ast.copy_location(ast.BoolOp(op=ast.And(), values=vals), node.test)
            node.body = inner.body
        return node


def _simple_subject(e):
    while isinstance(e, ast.Attribute):
        e = e.value
    return isinstance(e, ast.Name)


def _pattern_test(subject, pat):
    """Test expression equivalent to ``pat`` matching ``subject`` or None when the pattern binds / destructures."""
    if isinstance(pat, ast.MatchValue):
        return ast.Compare(left=subject, ops=[ast.Eq()], comparators=[pat.value])
    if isinstance(pat, ast.MatchSingleton):
        return ast.Compare(left=subject, ops=[ast.Is()], comparators=[ast.Constant(value=pat.value)])
    if isinstance(pat, ast.MatchOr):
        if all(isinstance(p, ast.MatchValue) for p in pat.patterns):
            return ast.Compare(left=subject, ops=[ast.In()], comparators=[ast.Tuple(elts=[p.value for p in pat.patterns], ctx=ast.Load())])
        parts = [_pattern_test(subject, p) for p in pat.patterns]
        if any(p is None for p in parts):
            return None
        return ast.BoolOp(op=ast.Or(), values=parts)
    if isinstance(pat, ast.MatchAs) and pat.pattern is None and pat.name is None:
        return True
    return None


class _Match(ast.NodeTransformer):
    def visit_Match(self, node):
        self.generic_visit(node)
        if not _simple_subject(node.subject):
            return node
        arms = []
        for c in node.cases:
            t = _pattern_test(node.subject, c.pattern)
            if t is None:
                return node
            if c.guard is not None:
                t = c.guard if t is True else ast.BoolOp(op=ast.And(), values=[t, c.guard])
            arms.append((t, c.body))
        chain = []
        for t, body in reversed(arms):
            if t is True:
                chain = list(body)          # wildcard: everything after it is unreachable
            else:
                chain = [ast.copy_location(ast.If(test=t, body=list(body), orelse=chain), node)]
        return chain if chain else ast.copy_location(ast.Pass(), node)


class _Walrus(ast.NodeTransformer):
    """hoist a walrus that is the first thing an ``if`` test evaluates"""

    def _block(self, stmts):
        out = []
        for st in stmts:
            if isinstance(st, ast.If):
                first, holder = st.test, None
                while True:
                    if isinstance(first, ast.BoolOp):
                        holder, first = first, first.values[0]
                    elif isinstance(first, ast.Compare):
                        holder, first = first, first.left
                    elif isinstance(first, ast.UnaryOp):
                        holder, first = first, first.operand
                    else:
                        break
                if isinstance(first, ast.NamedExpr) and isinstance(first.target, ast.Name):
                    out.append(ast.copy_location(ast.Assign(targets=[ast.Name(id=first.target.id, ctx=ast.Store())], value=first.value,
                                                            lineno=st.lineno), st))
                    repl = ast.copy_location(ast.Name(id=first.target.id, ctx=ast.Load()), first)
                    if holder is None:
                        st.test = repl
                    elif isinstance(holder, ast.BoolOp):
                        holder.values[0] = repl
                    elif isinstance(holder, ast.Compare):
                        holder.left = repl
                    else:
                        holder.operand = repl
            out.append(st)
        return out

    def generic_visit(self, node):
        super().generic_visit(node)
        for field in ('body', 'orelse', 'finalbody'):
            v = getattr(node, field, None)
            if isinstance(v, list) and v and isinstance(v[0], ast.stmt):
                setattr(node, field, self._block(v))
        return node


def prenormalize(tree):
    if hasattr(ast, 'Match'):
        _Match().visit(tree)
    _Walrus().visit(tree)
    for fn in [n for n in ast.walk(tree) if isinstance(n, (ast.FunctionDef, ast.AsyncFunctionDef))]:
        loads, stores = _name_counts(fn)
        b = _Blocks(loads, stores)
        for field in ('body',):
            fn.body = b._fold(fn.body)
        for st in fn.body:
            b.visit(st)
    _Shape().visit(tree)
    ast.fix_missing_locations(tree)
    return tree
