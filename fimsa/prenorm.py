"""
fimsa.prenorm -- canonicalisation applied to every module right after parsing, before any rule sees it.

Three rewrites, each an exact semantic identity, chosen because they remove differences that carry no meaning and that
otherwise every rule would have to see through on its own:

T  ``t = E`` immediately followed by ``if t:`` / ``return t`` where ``t`` is a plain local with no other load or store in
   the function  ->  ``if E:`` / ``return E``
N  ``if not c: B else: A`` (A not an elif chain)  ->  ``if c: A else: B``
A  ``if a: if b: X`` (neither has an else, the inner if is the only statement)  ->  ``if a and b: X``
W  ``if (t := E) <rest of test>:`` with the walrus as the first operand evaluated  ->  ``t = E`` followed by ``if t <rest>:``
M  ``match s: case V: A; case V1 | V2: B; case _: C`` with value / singleton / or / wildcard patterns only (no captures,
   optional guards) and a side-effect free subject (name or attribute chain)  ->  ``if s == V: A elif s in (V1, V2): B else: C``

Y  ``K is x`` / ``K == x`` with K a constant or an ENUM.MEMBER  ->  ``x is K`` / ``x == K``
D  in test positions: ``not (not a or not b)`` -> ``a and b`` (and dually), ``not (x is None)`` -> ``x is not None``,
   ``not (a in b)`` -> ``a not in b``
E  ``if c: A else: B`` where A ends in return / raise / continue / break ->  ``if c: A`` ; ``B``  (elif chains included)
I  ``if c: x = a else: x = b`` (one plain name, one statement each)  ->  ``x = a if c else b``
R  ``return a if c else b``  ->  ``if c: return a`` ; ``return b``
F  ``x = next((p for p in S if C), None)`` (or ``next(filter(f, S), None)``) followed by ``if x is not None: B`` where B ends in
   raise / return and x is read nowhere else  ->  ``for p in S: if C: x = p; B``  (the idiom treats None as "no match"; the
   identity assumes the elements searched are not None)

Line numbers of the surviving nodes are those of the original source.
"""
import ast


def _name_counts(fn):
    loads, stores = {}, {}
    for n in ast.walk(fn):
        if isinstance(n, ast.Name):
            d = loads if isinstance(n.ctx, ast.Load) else stores
            d[n.id] = d.get(n.id, 0) + 1
        elif isinstance(n, (ast.Global, ast.Nonlocal)):
            for nm in n.names:
                stores[nm] = stores.get(nm, 0) + 2
    a = fn.args
    for x in a.posonlyargs + a.args + a.kwonlyargs + ([a.vararg] if a.vararg else []) + ([a.kwarg] if a.kwarg else []):
        stores[x.arg] = stores.get(x.arg, 0) + 2
    return loads, stores


def _is_name(e, nm):
    return isinstance(e, ast.Name) and e.id == nm


class _Blocks(ast.NodeTransformer):
    def __init__(self, loads, stores):
        self.loads, self.stores = loads, stores

    def _fold(self, stmts):
        out = []
        i = 0
        while i < len(stmts):
            st = stmts[i]
            nxt = stmts[i + 1] if i + 1 < len(stmts) else None
            if isinstance(st, ast.Assign) and len(st.targets) == 1 and isinstance(st.targets[0], ast.Name) and nxt is not None:
                nm = st.targets[0].id
                if self.loads.get(nm, 0) == 1 and self.stores.get(nm, 0) == 1 and \
                        not any(isinstance(x, (ast.NamedExpr, ast.Yield, ast.YieldFrom, ast.Await)) for x in ast.walk(st.value)):
                    if isinstance(nxt, ast.If) and _is_name(nxt.test, nm):
                        nxt.test = st.value
                        i += 1
                        continue
                    if isinstance(nxt, ast.Return) and _is_name(nxt.value, nm):
                        nxt.value = st.value
                        i += 1
                        continue
            out.append(st)
            i += 1
        return out

    def generic_visit(self, node):
        for field in ('body', 'orelse', 'finalbody'):
            v = getattr(node, field, None)
            if isinstance(v, list) and v and isinstance(v[0], ast.stmt):
                setattr(node, field, self._fold(v))
        super().generic_visit(node)
        return node

    def visit_FunctionDef(self, node):
        return node          # nested functions are handled on their own

    visit_AsyncFunctionDef = visit_FunctionDef
    visit_Lambda = visit_FunctionDef
    visit_ClassDef = visit_FunctionDef


class _Shape(ast.NodeTransformer):
    def visit_If(self, node):
        self.generic_visit(node)
        # N
        if isinstance(node.test, ast.UnaryOp) and isinstance(node.test.op, ast.Not) and node.orelse and \
                not (len(node.orelse) == 1 and isinstance(node.orelse[0], ast.If)):
            node.test, node.body, node.orelse = node.test.operand, node.orelse, node.body
        # A
        while not node.orelse and len(node.body) == 1 and isinstance(node.body[0], ast.If) and not node.body[0].orelse:
            inner = node.body[0]
            vals = []
            for t in (node.test, inner.test):
                if isinstance(t, ast.BoolOp) and isinstance(t.op, ast.And):
                    vals.extend(t.values)
                else:
                    vals.append(t)
            node.test = ast.copy_location(ast.BoolOp(op=ast.And(), values=vals), node.test)
            node.body = inner.body
        return node


def _simple_subject(e):
    while isinstance(e, ast.Attribute):
        e = e.value
    return isinstance(e, ast.Name)


def _pattern_test(subject, pat):
    """Test expression equivalent to ``pat`` matching ``subject`` or None when the pattern binds / destructures."""
    if isinstance(pat, ast.MatchValue):
        return ast.Compare(left=subject, ops=[ast.Eq()], comparators=[pat.value])
    if isinstance(pat, ast.MatchSingleton):
        return ast.Compare(left=subject, ops=[ast.Is()], comparators=[ast.Constant(value=pat.value)])
    if isinstance(pat, ast.MatchOr):
        if all(isinstance(p, ast.MatchValue) for p in pat.patterns):
            return ast.Compare(left=subject, ops=[ast.In()], comparators=[ast.Tuple(elts=[p.value for p in pat.patterns], ctx=ast.Load())])
        parts = [_pattern_test(subject, p) for p in pat.patterns]
        if any(p is None for p in parts):
            return None
        return ast.BoolOp(op=ast.Or(), values=parts)
    if isinstance(pat, ast.MatchAs) and pat.pattern is None and pat.name is None:
        return True
    return None


class _Match(ast.NodeTransformer):
    def visit_Match(self, node):
        self.generic_visit(node)
        if not _simple_subject(node.subject):
            return node
        arms = []
        for c in node.cases:
            t = _pattern_test(node.subject, c.pattern)
            if t is None:
                return node
            if c.guard is not None:
                t = c.guard if t is True else ast.BoolOp(op=ast.And(), values=[t, c.guard])
            arms.append((t, c.body))
        chain = []
        for t, body in reversed(arms):
            if t is True:
                chain = list(body)          # wildcard: everything after it is unreachable
            else:
                chain = [ast.copy_location(ast.If(test=t, body=list(body), orelse=chain), node)]
        return chain if chain else ast.copy_location(ast.Pass(), node)


class _Walrus(ast.NodeTransformer):
    """hoist a walrus that is the first thing an ``if`` test evaluates"""

    def _block(self, stmts):
        out = []
        for st in stmts:
            if isinstance(st, ast.If):
                first, holder = st.test, None
                while True:
                    if isinstance(first, ast.BoolOp):
                        holder, first = first, first.values[0]
                    elif isinstance(first, ast.Compare):
                        holder, first = first, first.left
                    elif isinstance(first, ast.UnaryOp):
                        holder, first = first, first.operand
                    else:
                        break
                if isinstance(first, ast.NamedExpr) and isinstance(first.target, ast.Name):
                    out.append(ast.copy_location(ast.Assign(targets=[ast.Name(id=first.target.id, ctx=ast.Store())], value=first.value,
                                                            lineno=st.lineno), st))
                    repl = ast.copy_location(ast.Name(id=first.target.id, ctx=ast.Load()), first)
                    if holder is None:
                        st.test = repl
                    elif isinstance(holder, ast.BoolOp):
                        holder.values[0] = repl
                    elif isinstance(holder, ast.Compare):
                        holder.left = repl
                    else:
                        holder.operand = repl
            out.append(st)
        return out

    def generic_visit(self, node):
        super().generic_visit(node)
        for field in ('body', 'orelse', 'finalbody'):
            v = getattr(node, field, None)
            if isinstance(v, list) and v and isinstance(v[0], ast.stmt):
                setattr(node, field, self._block(v))
        return node


def _constish(e):
    if isinstance(e, ast.Constant):
        return True
    if isinstance(e, ast.Attribute):
        b = e
        while isinstance(b, ast.Attribute):
            b = b.value
        return isinstance(b, ast.Name) and b.id[:1].isupper() and e.attr.isupper()
    return False


class _Cmp(ast.NodeTransformer):
    """Y and D"""
    def visit_Compare(self, node):
        self.generic_visit(node)
        if len(node.ops) == 1 and isinstance(node.ops[0], (ast.Is, ast.IsNot, ast.Eq, ast.NotEq)) and \
                _constish(node.left) and not _constish(node.comparators[0]) and \
                (isinstance(node.ops[0], (ast.Is, ast.IsNot)) or
                 (isinstance(node.left, ast.Constant) and isinstance(node.left.value, (str, int, bool, type(None))))):
            return ast.copy_location(ast.Compare(left=node.comparators[0], ops=node.ops, comparators=[node.left]), node)
        return node

    def visit_UnaryOp(self, node):
        if not isinstance(node.op, ast.Not):
            self.generic_visit(node)
            return node
        o = node.operand
        if isinstance(o, ast.UnaryOp) and isinstance(o.op, ast.Not) and isinstance(o.operand, ast.UnaryOp) and isinstance(o.operand.op, ast.Not):
            # not not not x -> not x   (a double negation alone converts to bool and is kept)
            return self.visit(o.operand)
        if isinstance(o, ast.BoolOp) and not any(isinstance(x, ast.NamedExpr) for x in ast.walk(o)) and \
                all(isinstance(v, ast.UnaryOp) and isinstance(v.op, ast.Not) for v in o.values):
            # not (not a or not b) -> a and b   - exact when the operands are themselves negations (bool-valued): the value of
            # the and/or is then a bool either way... but `a and b` yields an operand, so only inside a test position; the
            # callers of this transformer apply it to test positions only
            other = ast.And() if isinstance(o.op, ast.Or) else ast.Or()
            return ast.copy_location(ast.BoolOp(op=other, values=[self.visit(v.operand) for v in o.values]), node)
        if isinstance(o, ast.Compare) and len(o.ops) == 1:
            flip = {ast.Is: ast.IsNot, ast.IsNot: ast.Is, ast.In: ast.NotIn, ast.NotIn: ast.In}
            for k, v in flip.items():
                if isinstance(o.ops[0], k):
                    return ast.copy_location(ast.Compare(left=self.visit(o.left), ops=[v()], comparators=[self.visit(o.comparators[0])]), node)
        self.generic_visit(node)
        return node


class _Tests(ast.NodeTransformer):
    """applies _Cmp to the tests of if / while / assert / conditional expressions / comprehension filters (positions where only
    the truth value of the expression matters)"""
    def _t(self, e):
        return _Cmp().visit(e)

    def visit_If(self, node):
        self.generic_visit(node)
        node.test = self._t(node.test)
        return node

    def visit_While(self, node):
        self.generic_visit(node)
        node.test = self._t(node.test)
        return node

    def visit_IfExp(self, node):
        self.generic_visit(node)
        node.test = self._t(node.test)
        return node

    def visit_Assert(self, node):
        self.generic_visit(node)
        node.test = self._t(node.test)
        return node

    def visit_comprehension(self, node):
        self.generic_visit(node)
        node.ifs = [self._t(c) for c in node.ifs]
        return node


class _Yoda(ast.NodeTransformer):
    """Y everywhere (a comparison yields the same value with its operands swapped when one of them is a constant / enum member)"""
    def visit_Compare(self, node):
        self.generic_visit(node)
        if len(node.ops) == 1 and isinstance(node.ops[0], (ast.Is, ast.IsNot, ast.Eq, ast.NotEq)) and \
                _constish(node.left) and not _constish(node.comparators[0]) and \
                (isinstance(node.ops[0], (ast.Is, ast.IsNot)) or
                 (isinstance(node.left, ast.Constant) and isinstance(node.left.value, (str, int, bool, type(None))))):
            return ast.copy_location(ast.Compare(left=node.comparators[0], ops=node.ops, comparators=[node.left]), node)
        return node


_ABRUPT = (ast.Return, ast.Raise, ast.Continue, ast.Break)


class _ElseDrop(ast.NodeTransformer):
    """E"""
    def _block(self, stmts):
        out = []
        for st in stmts:
            if isinstance(st, ast.If) and st.orelse and st.body and isinstance(st.body[-1], _ABRUPT):
                rest = st.orelse
                st.orelse = []
                out.append(st)
                out.extend(self._block(rest))
            else:
                out.append(st)
        return out

    def generic_visit(self, node):
        super().generic_visit(node)
        for field in ('body', 'orelse', 'finalbody'):
            v = getattr(node, field, None)
            if isinstance(v, list) and v and isinstance(v[0], ast.stmt):
                setattr(node, field, self._block(v))
        return node


class _MergeIfAssign(ast.NodeTransformer):
    """I"""
    def visit_If(self, node):
        self.generic_visit(node)
        if len(node.body) == 1 and len(node.orelse) == 1:
            a, b = node.body[0], node.orelse[0]
            if isinstance(a, ast.Assign) and isinstance(b, ast.Assign) and len(a.targets) == 1 and len(b.targets) == 1 and \
                    isinstance(a.targets[0], ast.Name) and isinstance(b.targets[0], ast.Name) and a.targets[0].id == b.targets[0].id and \
                    not any(isinstance(x, (ast.NamedExpr, ast.Yield, ast.YieldFrom, ast.Await)) for x in ast.walk(node)):
                new = ast.Assign(targets=[a.targets[0]], value=ast.IfExp(test=node.test, body=a.value, orelse=b.value))
                return ast.copy_location(new, node)
        return node


class _ReturnIfExp(ast.NodeTransformer):
    """R"""
    def _block(self, stmts):
        out = []
        for st in stmts:
            if isinstance(st, ast.Return) and isinstance(st.value, ast.IfExp) and \
                    not any(isinstance(x, (ast.NamedExpr, ast.Yield, ast.YieldFrom, ast.Await)) for x in ast.walk(st.value)):
                g = ast.copy_location(ast.If(test=st.value.test, body=[ast.copy_location(ast.Return(value=st.value.body), st)], orelse=[]), st)
                out.append(g)
                out.extend(self._block([ast.copy_location(ast.Return(value=st.value.orelse), st)]))
            else:
                out.append(st)
        return out

    def generic_visit(self, node):
        super().generic_visit(node)
        for field in ('body', 'orelse', 'finalbody'):
            v = getattr(node, field, None)
            if isinstance(v, list) and v and isinstance(v[0], ast.stmt):
                setattr(node, field, self._block(v))
        return node

    def visit_Lambda(self, node):
        return node


class _FirstMatch(ast.NodeTransformer):
    """F"""
    def __init__(self, loads):
        self.loads = loads
        self.n = 0

    def _search(self, v):
        """(target, iter, [conds]) of ``next((p for p in S if C), None)`` / ``next(filter(f, S), None)``, else None"""
        if not (isinstance(v, ast.Call) and isinstance(v.func, ast.Name) and v.func.id == 'next' and len(v.args) == 2 and not v.keywords and
                isinstance(v.args[1], ast.Constant) and v.args[1].value is None):
            return None
        g = v.args[0]
        if isinstance(g, ast.GeneratorExp) and len(g.generators) == 1 and not g.generators[0].is_async and \
                isinstance(g.generators[0].target, ast.Name) and isinstance(g.elt, ast.Name) and g.elt.id == g.generators[0].target.id:
            return g.generators[0].target, g.generators[0].iter, list(g.generators[0].ifs)
        if isinstance(g, ast.Call) and isinstance(g.func, ast.Name) and g.func.id == 'filter' and len(g.args) == 2 and not g.keywords and \
                not (isinstance(g.args[0], ast.Constant) and g.args[0].value is None):
            self.n += 1
            var = ast.Name(id=f'_fm{self.n}', ctx=ast.Store())
            f = g.args[0]
            if isinstance(f, ast.Lambda) and len(f.args.args) == 1 and not f.args.defaults:
                class _S(ast.NodeTransformer):
                    def visit_Name(self, n, _p=f.args.args[0].arg, _v=var.id):
                        return ast.Name(id=_v, ctx=n.ctx) if n.id == _p else n
                import copy
                cond = _S().visit(copy.deepcopy(f.body))
            else:
                cond = ast.Call(func=f, args=[ast.Name(id=var.id, ctx=ast.Load())], keywords=[])
            return var, g.args[1], [cond]
        return None

    def _block(self, stmts):
        out = []
        i = 0
        while i < len(stmts):
            st = stmts[i]
            nxt = stmts[i + 1] if i + 1 < len(stmts) else None
            hit = None
            if isinstance(st, ast.Assign) and len(st.targets) == 1 and isinstance(st.targets[0], ast.Name) and isinstance(nxt, ast.If) and \
                    not nxt.orelse and nxt.body and isinstance(nxt.body[-1], (ast.Raise, ast.Return)) and \
                    isinstance(nxt.test, ast.Compare) and len(nxt.test.ops) == 1 and isinstance(nxt.test.ops[0], ast.IsNot) and \
                    isinstance(nxt.test.left, ast.Name) and nxt.test.left.id == st.targets[0].id and \
                    isinstance(nxt.test.comparators[0], ast.Constant) and nxt.test.comparators[0].value is None and \
                    not any(isinstance(x, (ast.Break, ast.Continue)) for x in ast.walk(nxt)):
                x = st.targets[0].id
                inside = sum(1 for y in ast.walk(nxt) if isinstance(y, ast.Name) and y.id == x and isinstance(y.ctx, ast.Load))
                if self.loads.get(x, 0) == inside:
                    hit = self._search(st.value)
            if hit is not None:
                tgt, it, conds = hit
                inner = [ast.copy_location(ast.Assign(targets=[ast.Name(id=x, ctx=ast.Store())], value=ast.Name(id=tgt.id, ctx=ast.Load())), st)] + nxt.body
                for c in reversed(conds):
                    inner = [ast.copy_location(ast.If(test=c, body=inner, orelse=[]), nxt)]
                out.append(ast.copy_location(ast.For(target=ast.Name(id=tgt.id, ctx=ast.Store()), iter=it, body=inner, orelse=[], type_comment=None), st))
                i += 2
                continue
            out.append(st)
            i += 1
        return out

    def generic_visit(self, node):
        super().generic_visit(node)
        for field in ('body', 'orelse', 'finalbody'):
            v = getattr(node, field, None)
            if isinstance(v, list) and v and isinstance(v[0], ast.stmt):
                setattr(node, field, self._block(v))
        return node

    def visit_FunctionDef(self, node):
        return node         # nested functions are handled by their own pass

    visit_AsyncFunctionDef = visit_FunctionDef
    visit_Lambda = visit_FunctionDef


def prenormalize(tree):
    if hasattr(ast, 'Match'):
        _Match().visit(tree)
    _Walrus().visit(tree)
    for fn in [n for n in ast.walk(tree) if isinstance(n, (ast.FunctionDef, ast.AsyncFunctionDef))]:
        loads, stores = _name_counts(fn)
        b = _Blocks(loads, stores)
        for field in ('body',):
            fn.body = b._fold(fn.body)
        for st in fn.body:
            b.visit(st)
    _Yoda().visit(tree)
    _Tests().visit(tree)
    for fn in [n for n in ast.walk(tree) if isinstance(n, (ast.FunctionDef, ast.AsyncFunctionDef))]:
        loads, _ = _name_counts(fn)
        fm = _FirstMatch(loads)
        fn.body = fm._block(fn.body)
        for st in fn.body:
            fm.visit(st)
    _MergeIfAssign().visit(tree)
    _ReturnIfExp().visit(tree)
    _ElseDrop().visit(tree)
    _Shape().visit(tree)
    _ElseDrop().visit(tree)
    ast.fix_missing_locations(tree)
    return tree
