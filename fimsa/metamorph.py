"""
fimsa.metamorph -- mechanical, behaviour-preserving whole-tree rewrites used as *twins* by the self-test.

Each transformer takes the source text of one module and returns the rewritten text (``ast.unparse`` output, so comments
and layout are gone in every variant). They are applied to every module under ``fim/`` at once; a rule that keys on line
numbers, comments, local variable names, the polarity of an ``if``, the presence of temporaries, the order of method
definitions or the way a conjunction is nested then shows up as a FALSE-ALARM (or analysis error) in the thorough tier.
None of them changes what the code computes:

unparse        parse + unparse only
rename-locals  every function-local variable (not a parameter, not global/nonlocal, not bound by import/def/class, no
               use of locals()/vars()/eval/exec in the function) gets the suffix ``_mm`` everywhere in that function,
               nested lambdas / comprehensions included
invert-if      ``if c: A else: B``  ->  ``if not c: B else: A`` (only plain if/else; an ``elif`` chain is left alone)
split-and      ``if a and b: A`` (no else)  ->  ``if a: if b: A``
return-temp    ``return E``  ->  ``_mm_ret = E; return _mm_ret`` (E not a constant / name)
test-temp      ``if E:`` (first test of a chain, E a call or comparison)  ->  ``_mm_tN = E; if _mm_tN:``
methods-rev    undecorated methods of a class are moved behind the decorated ones in reverse order
"""
import ast
import os

SUFFIX = '_mm'


def _unparse(tree):
    ast.fix_missing_locations(tree)
    return ast.unparse(tree) + '\n'


# ----------------------------------------------------------------------------------------------------------------------

class _Scope(ast.NodeVisitor):
    """Collect, for one function, the names that are safe to rename."""

    def __init__(self, fn):
        self.fn = fn
        self.params = set()
        a = fn.args
        for x in a.posonlyargs + a.args + a.kwonlyargs:
            self.params.add(x.arg)
        if a.vararg:
            self.params.add(a.vararg.arg)
        if a.kwarg:
            self.params.add(a.kwarg.arg)
        self.stored = set()
        self.blocked = set()
        self.unsafe = False
        for st in fn.body:
            self.visit(st)

    def visit_FunctionDef(self, node):
        self.blocked.add(node.name)
        # names used inside nested defs are left alone (their own parameters / closures)
        for n in ast.walk(node):
            if isinstance(n, ast.Name):
                self.blocked.add(n.id)
            elif isinstance(n, ast.arg):
                self.blocked.add(n.arg)

    visit_AsyncFunctionDef = visit_FunctionDef

    def visit_ClassDef(self, node):
        self.blocked.add(node.name)
        for n in ast.walk(node):
            if isinstance(n, ast.Name):
                self.blocked.add(n.id)

    def visit_Lambda(self, node):
        a = node.args
        for x in a.posonlyargs + a.args + a.kwonlyargs:
            self.blocked.add(x.arg)
        if a.vararg:
            self.blocked.add(a.vararg.arg)
        if a.kwarg:
            self.blocked.add(a.kwarg.arg)
        self.generic_visit(node)

    def visit_Global(self, node):
        self.blocked.update(node.names)

    visit_Nonlocal = visit_Global

    def visit_Import(self, node):
        for al in node.names:
            self.blocked.add((al.asname or al.name).split('.')[0])

    visit_ImportFrom = visit_Import

    def visit_ExceptHandler(self, node):
        if node.name:
            self.blocked.add(node.name)
        self.generic_visit(node)

    def visit_MatchAs(self, node):
        if node.name:
            self.blocked.add(node.name)
        self.generic_visit(node)

    def visit_MatchStar(self, node):
        if node.name:
            self.blocked.add(node.name)

    def visit_MatchMapping(self, node):
        if node.rest:
            self.blocked.add(node.rest)
        self.generic_visit(node)

    def visit_Call(self, node):
        if isinstance(node.func, ast.Name) and node.func.id in ('locals', 'vars', 'eval', 'exec', 'globals', 'dir'):
            self.unsafe = True
        self.generic_visit(node)

    def visit_Name(self, node):
        if isinstance(node.ctx, (ast.Store, ast.Del)):
            self.stored.add(node.id)

    def renamable(self):
        if self.unsafe:
            return set()
        return {n for n in self.stored if n not in self.params and n not in self.blocked and not n.startswith('__')}


class _Renamer(ast.NodeTransformer):
    def __init__(self, names):
        self.names = names

    def visit_Name(self, node):
        if node.id in self.names:
            node.id = node.id + SUFFIX
        return node


def rename_locals(src):
    tree = ast.parse(src)
    for fn in [n for n in ast.walk(tree) if isinstance(n, (ast.FunctionDef, ast.AsyncFunctionDef))]:
        # only outermost functions and methods: nested defs are handled as part of their parent (blocked)
        names = _Scope(fn).renamable()
        if not names:
            continue
        ren = _Renamer(names)
        fn.body = [ren.visit(st) for st in fn.body]
    return _unparse(tree)


# ----------------------------------------------------------------------------------------------------------------------

class _InvertIf(ast.NodeTransformer):
    def visit_If(self, node):
        self.generic_visit(node)
        if node.orelse and not (len(node.orelse) == 1 and isinstance(node.orelse[0], ast.If)):
            return ast.If(test=ast.UnaryOp(op=ast.Not(), operand=node.test), body=node.orelse, orelse=node.body)
        return node


def invert_if(src):
    return _unparse(_InvertIf().visit(ast.parse(src)))


class _SplitAnd(ast.NodeTransformer):
    def visit_If(self, node):
        self.generic_visit(node)
        if not node.orelse and isinstance(node.test, ast.BoolOp) and isinstance(node.test.op, ast.And):
            inner = node.body
            for v in reversed(node.test.values):
                inner = [ast.If(test=v, body=inner, orelse=[])]
            return inner[0]
        return node


class _ElifGuard(ast.NodeVisitor):
    pass


def split_and(src):
    tree = ast.parse(src)
    # an ``if`` sitting alone in an orelse is an elif: splitting it is still equivalent (it has no else of its own)
    return _unparse(_SplitAnd().visit(tree))


class _ReturnTemp(ast.NodeTransformer):
    def _block(self, stmts):
        out = []
        for st in stmts:
            if isinstance(st, ast.Return) and st.value is not None and not isinstance(st.value, (ast.Constant, ast.Name)):
                out.append(ast.Assign(targets=[ast.Name(id='_mm_ret', ctx=ast.Store())], value=st.value, lineno=st.lineno))
                out.append(ast.Return(value=ast.Name(id='_mm_ret', ctx=ast.Load())))
            else:
                out.append(st)
        return out

    def generic_visit(self, node):
        super().generic_visit(node)
        for field in ('body', 'orelse', 'finalbody'):
            v = getattr(node, field, None)
            if isinstance(v, list) and v and isinstance(v[0], ast.stmt):
                setattr(node, field, self._block(v))
        return node

    def visit_Lambda(self, node):
        return node


def return_temp(src):
    tree = ast.parse(src)
    for fn in [n for n in ast.walk(tree) if isinstance(n, (ast.FunctionDef, ast.AsyncFunctionDef))]:
        # generators: ``return E`` in a generator is fine too (value of StopIteration), keep uniform
        pass
    return _unparse(_ReturnTemp().visit(tree))


class _TestTemp(ast.NodeTransformer):
    def __init__(self):
        self.n = 0

    def _block(self, stmts):
        out = []
        for st in stmts:
            if isinstance(st, ast.If) and isinstance(st.test, (ast.Call, ast.Compare)) and \
                    not any(isinstance(x, (ast.NamedExpr, ast.Yield, ast.YieldFrom, ast.Await)) for x in ast.walk(st.test)):
                self.n += 1
                nm = f'_mm_t{self.n}'
                out.append(ast.Assign(targets=[ast.Name(id=nm, ctx=ast.Store())], value=st.test, lineno=st.lineno))
                st.test = ast.Name(id=nm, ctx=ast.Load())
            out.append(st)
        return out

    def generic_visit(self, node):
        super().generic_visit(node)
        if isinstance(node, ast.ClassDef) or isinstance(node, ast.Module):
            return node
        for field in ('body', 'orelse', 'finalbody'):
            v = getattr(node, field, None)
            if isinstance(v, list) and v and isinstance(v[0], ast.stmt):
                if field == 'orelse' and isinstance(node, ast.If) and len(v) == 1 and isinstance(v[0], ast.If):
                    continue        # elif: evaluated only when the first test failed; keep
                setattr(node, field, self._block(v))
        return node

    def visit_Lambda(self, node):
        return node


def test_temp(src):
    return _unparse(_TestTemp().visit(ast.parse(src)))


def methods_rev(src):
    tree = ast.parse(src)
    for cls in [n for n in ast.walk(tree) if isinstance(n, ast.ClassDef)]:
        plain = [s for s in cls.body if isinstance(s, ast.FunctionDef) and not s.decorator_list]
        if len(plain) < 2:
            continue
        # class-level statements that call or reference a method by bare name need it defined earlier: keep such classes
        names = {f.name for f in plain}
        refs = {n.id for s in cls.body if not isinstance(s, (ast.FunctionDef, ast.AsyncFunctionDef)) for n in ast.walk(s)
                if isinstance(n, ast.Name)}
        deco = {n.id for s in cls.body if isinstance(s, (ast.FunctionDef, ast.AsyncFunctionDef)) for d in s.decorator_list
                for n in ast.walk(d) if isinstance(n, ast.Name)}
        if names & (refs | deco):
            continue
        # a name defined twice: the later definition wins; reversing would change that
        allnames = [s.name for s in cls.body if isinstance(s, (ast.FunctionDef, ast.AsyncFunctionDef))]
        if len(allnames) != len(set(allnames)):
            continue
        rest = [s for s in cls.body if s not in plain]
        cls.body = rest + list(reversed(plain))
    return _unparse(tree)


_ABRUPT = (ast.Return, ast.Raise, ast.Continue, ast.Break)


class _ElseDrop(ast.NodeTransformer):
    """``if c: A (leaves) else: B``  ->  ``if c: A`` ; ``B``   (guard clause form)"""
    def _block(self, stmts):
        out = []
        for st in stmts:
            if isinstance(st, ast.If) and st.orelse and st.body and isinstance(st.body[-1], _ABRUPT) and \
                    not (len(st.orelse) == 1 and isinstance(st.orelse[0], ast.If)):
                rest = st.orelse
                st.orelse = []
                out.append(st)
                out.extend(rest)
            else:
                out.append(st)
        return out

    def generic_visit(self, node):
        super().generic_visit(node)
        for field in ('body', 'orelse', 'finalbody'):
            v = getattr(node, field, None)
            if isinstance(v, list) and v and isinstance(v[0], ast.stmt):
                setattr(node, field, self._block(v))
        return node


def else_drop(src):
    return _unparse(_ElseDrop().visit(ast.parse(src)))


class _ElseAdd(ast.NodeTransformer):
    """``if c: A (leaves)`` ; ``rest``  ->  ``if c: A else: rest``  (only the last such guard of a block, and never when the
    rest binds names that are used after the block - it is the whole remainder of the block, so nothing follows it)"""
    def _block(self, stmts):
        for i in range(len(stmts) - 2, -1, -1):
            st = stmts[i]
            if isinstance(st, ast.If) and not st.orelse and st.body and isinstance(st.body[-1], _ABRUPT) and stmts[i + 1:]:
                st.orelse = stmts[i + 1:]
                return stmts[:i + 1]
        return stmts

    def generic_visit(self, node):
        super().generic_visit(node)
        if isinstance(node, (ast.FunctionDef, ast.AsyncFunctionDef, ast.For, ast.While)):
            v = node.body
            if isinstance(v, list) and v and isinstance(v[0], ast.stmt):
                node.body = self._block(v)
        return node


def else_add(src):
    return _unparse(_ElseAdd().visit(ast.parse(src)))


class _DeMorgan(ast.NodeTransformer):
    """in ``if`` / ``while`` tests:  a and b -> not (not a or not b);  a or b -> not (not a and not b)"""
    def _rw(self, t):
        if isinstance(t, ast.BoolOp) and not any(isinstance(x, ast.NamedExpr) for x in ast.walk(t)):
            other = ast.Or() if isinstance(t.op, ast.And) else ast.And()
            return ast.UnaryOp(op=ast.Not(), operand=ast.BoolOp(op=other, values=[ast.UnaryOp(op=ast.Not(), operand=v) for v in t.values]))
        return t

    def visit_If(self, node):
        self.generic_visit(node)
        node.test = self._rw(node.test)
        return node

    def visit_While(self, node):
        self.generic_visit(node)
        node.test = self._rw(node.test)
        return node


def demorgan(src):
    return _unparse(_DeMorgan().visit(ast.parse(src)))


class _Yoda(ast.NodeTransformer):
    """``x is None`` -> ``None is x``;  ``x == K`` -> ``K == x`` for constants and CapitalisedName.MEMBER operands (no
    user-defined reflected comparison is involved for these)"""
    @staticmethod
    def _k(e):
        if isinstance(e, ast.Constant):
            return True
        if isinstance(e, ast.Attribute):
            b = e
            while isinstance(b, ast.Attribute):
                b = b.value
            return isinstance(b, ast.Name) and b.id[:1].isupper() and e.attr.isupper()
        return False

    def visit_Compare(self, node):
        self.generic_visit(node)
        if len(node.ops) == 1 and isinstance(node.ops[0], (ast.Is, ast.IsNot, ast.Eq, ast.NotEq)) and \
                self._k(node.comparators[0]) and not self._k(node.left) and \
                (isinstance(node.ops[0], (ast.Is, ast.IsNot)) or isinstance(node.comparators[0], ast.Constant) and
                 isinstance(node.comparators[0].value, (str, int, bool, type(None)))):
            return ast.Compare(left=node.comparators[0], ops=node.ops, comparators=[node.left])
        return node


def yoda(src):
    return _unparse(_Yoda().visit(ast.parse(src)))


class _IfExpSplit(ast.NodeTransformer):
    """``x = a if c else b``  ->  ``if c: x = a else: x = b``  (single plain-name or attribute target)"""
    def _block(self, stmts):
        out = []
        for st in stmts:
            if isinstance(st, ast.Assign) and len(st.targets) == 1 and isinstance(st.value, ast.IfExp) and \
                    isinstance(st.targets[0], ast.Name) and \
                    not any(isinstance(x, (ast.NamedExpr, ast.Yield, ast.YieldFrom, ast.Await)) for x in ast.walk(st.value)):
                t = st.targets[0]
                out.append(ast.If(test=st.value.test,
                                  body=[ast.Assign(targets=[ast.Name(id=t.id, ctx=ast.Store())], value=st.value.body, lineno=st.lineno)],
                                  orelse=[ast.Assign(targets=[ast.Name(id=t.id, ctx=ast.Store())], value=st.value.orelse, lineno=st.lineno)]))
            elif isinstance(st, ast.Return) and isinstance(st.value, ast.IfExp) and \
                    not any(isinstance(x, (ast.NamedExpr, ast.Yield, ast.YieldFrom, ast.Await)) for x in ast.walk(st.value)):
                out.append(ast.If(test=st.value.test, body=[ast.Return(value=st.value.body)], orelse=[ast.Return(value=st.value.orelse)]))
            else:
                out.append(st)
        return out

    def generic_visit(self, node):
        super().generic_visit(node)
        if isinstance(node, (ast.ClassDef, ast.Module)):
            return node
        for field in ('body', 'orelse', 'finalbody'):
            v = getattr(node, field, None)
            if isinstance(v, list) and v and isinstance(v[0], ast.stmt):
                setattr(node, field, self._block(v))
        return node

    def visit_Lambda(self, node):
        return node


def ifexp_split(src):
    return _unparse(_IfExpSplit().visit(ast.parse(src)))


class _SubstName(ast.NodeTransformer):
    def __init__(self, mapping):
        self.mapping = mapping

    def visit_Name(self, node):
        if node.id in self.mapping:
            return ast.Name(id=self.mapping[node.id], ctx=node.ctx)
        return node


class _Loopify(ast.NodeTransformer):
    """``x = [E for v in S if c]``  ->  ``x = []`` ; ``for v_ in S: if c: x.append(E)``  (one generator, plain-name target, the
    comprehension variable renamed so that it cannot clobber a local of the function; S must not mention x)"""
    def __init__(self):
        self.n = 0

    def _block(self, stmts):
        out = []
        for st in stmts:
            v = getattr(st, 'value', None)
            if isinstance(st, ast.Assign) and len(st.targets) == 1 and isinstance(st.targets[0], ast.Name) and \
                    isinstance(v, ast.ListComp) and len(v.generators) == 1 and not v.generators[0].is_async and \
                    not any(isinstance(x, (ast.NamedExpr, ast.Yield, ast.YieldFrom, ast.Await, ast.Lambda, ast.ListComp, ast.SetComp,
                                           ast.DictComp, ast.GeneratorExp)) for x in ast.walk(v) if x is not v) and \
                    not any(isinstance(x, ast.Name) and x.id == st.targets[0].id for x in ast.walk(v)):
                g = v.generators[0]
                self.n += 1
                tn = [x.id for x in ast.walk(g.target) if isinstance(x, ast.Name)]
                mp = {t_: f'_mm_c{self.n}_{t_}' for t_ in tn}
                sub = _SubstName(mp)
                tgt = sub.visit(g.target)
                elt = sub.visit(v.elt)
                conds = [sub.visit(c) for c in g.ifs]
                x = st.targets[0].id
                app = ast.Expr(value=ast.Call(func=ast.Attribute(value=ast.Name(id=x, ctx=ast.Load()), attr='append', ctx=ast.Load()),
                                              args=[elt], keywords=[]))
                inner = [app]
                for c in reversed(conds):
                    inner = [ast.If(test=c, body=inner, orelse=[])]
                out.append(ast.Assign(targets=[ast.Name(id=x, ctx=ast.Store())], value=ast.List(elts=[], ctx=ast.Load()), lineno=st.lineno))
                out.append(ast.For(target=tgt, iter=g.iter, body=inner, orelse=[], lineno=st.lineno))
            else:
                out.append(st)
        return out

    def generic_visit(self, node):
        super().generic_visit(node)
        if isinstance(node, (ast.ClassDef, ast.Module)):
            return node
        for field in ('body', 'orelse', 'finalbody'):
            v = getattr(node, field, None)
            if isinstance(v, list) and v and isinstance(v[0], ast.stmt):
                setattr(node, field, self._block(v))
        return node

    def visit_Lambda(self, node):
        return node


def loopify_comps(src):
    return _unparse(_Loopify().visit(ast.parse(src)))


def unparse_only(src):
    return _unparse(ast.parse(src))


def combo(src):
    """All structural rewrites at once (everything except the renaming)."""
    for tf in (invert_if, split_and, test_temp, return_temp, methods_rev):
        src = tf(src)
    return src


def combo2(src):
    """The second family of structural rewrites at once (guard clauses folded into else branches, De Morgan, constants on the
    left, conditional expressions split, comprehensions unrolled into loops)."""
    for tf in (loopify_comps, ifexp_split, else_add, demorgan, yoda):
        src = tf(src)
    return src


def combo_renamed(src):
    return rename_locals(combo(src))


TRANSFORMS = {
    'unparse': unparse_only,
    'rename-locals': rename_locals,
    'invert-if': invert_if,
    'split-and': split_and,
    'return-temp': return_temp,
    'test-temp': test_temp,
    'methods-rev': methods_rev,
    'combo': combo,
    'combo-renamed': combo_renamed,
    'else-drop': else_drop,
    'else-add': else_add,
    'demorgan': demorgan,
    'yoda': yoda,
    'ifexp-split': ifexp_split,
    'loopify': loopify_comps,
    'combo2': combo2,
}


def transform_overlay(root, overlay, name, base=None, package='fim'):
    """The whole-tree overlay of transform ``name`` with the files of ``overlay`` (a seeded change / mutant) transformed
    too: the changed program under the same behaviour-preserving rewrite."""
    tf = TRANSFORMS[name]
    out = dict(base if base is not None else overlays(root, package, only=(name,))[name])
    for rel, text in overlay.items():
        if not rel.endswith('.py'):
            out[rel] = text
            continue
        try:
            new = tf(text)
            compile(new, rel, 'exec')
            out[rel] = new
        except (SyntaxError, ValueError, RecursionError):
            out[rel] = text
    return out


def overlays(root, package='fim', only=None):
    """{transform name: {relpath: new text}} over every module of the package (tests excluded)."""
    files = []
    for dp, dn, fn in os.walk(os.path.join(root, package)):
        dn[:] = [d for d in dn if d != '__pycache__']
        for f in sorted(fn):
            if f.endswith('.py'):
                files.append(os.path.relpath(os.path.join(dp, f), root))
    out = {}
    for name, tf in TRANSFORMS.items():
        if only and name not in only:
            continue
        ov = {}
        for rel in files:
            with open(os.path.join(root, rel), encoding='utf-8') as f:
                src = f.read()
            try:
                new = tf(src)
                compile(new, rel, 'exec')
            except (SyntaxError, ValueError, RecursionError):
                continue
            ov[rel] = new
        out[name] = ov
    return out
